"""C01 / C17: Add, Sub, AddAssign, SubAssign, CheckedAdd, CheckedSub in all operand forms."""
from vgen import Unit, Contract as C, Loop
import core_kernel
import common
import binop_gen as G
import runner

HINT = 'lemma_pow10_values();'


def op_contract(okf, valf):
    def mk(L, R, lk, rk, hp):
        return C(pre=['valid(%s)' % L, 'valid(%s)' % R],
                 ok=[('C01.panics_iff_unrepresentable', '%s(%s, %s)' % (okf, L, R))],
                 value='%s(%s, %s)' % (valf, L, R), out_type='Decimal',
                 post=[('C01.exact', 'r == %s(%s, %s)' % (valf, L, R)), ('C01.wf', 'wf(r)')],
                 entry=HINT)
    return mk


def checked_contract(okf, valf):
    def mk(L, R, lk, rk, hp):
        return C(pre=['valid(%s)' % L, 'valid(%s)' % R],
                 post=[('C01.checked.none_iff_unrepresentable', 'r.is_some() <==> %s(%s, %s)' % (okf, L, R)),
                       ('C01.checked.exact', 'r.is_some() ==> r.unwrap() == %s(%s, %s)' % (valf, L, R)),
                       ('C01.checked.wf', 'r.is_some() ==> wf(r.unwrap())')],
                 entry=HINT)
    return mk


def build():
    u = Unit('add_sub', specs=['base.rs', 'rounding.rs', 'decimal.rs', 'std_assumed.rs', 'binops.rs'])
    core_kernel.add_core_items(u)
    common.add_decimal(u)
    idx = runner.load_sources(('fpdec',))['fpdec']
    u.item('fpdec', 'errors::enum DecimalError')
    # coefficient-level helpers with an explicit (profile independent) overflow panic
    u.fn('fpdec', 'binops::add_sub::add', C(ok=[('C20.add.explicit_overflow_panic', 'in_i128(x + y)')],
                                            post=[('add.value', 'r == x + y')]))
    u.fn('fpdec', 'binops::add_sub::sub', C(ok=[('C20.sub.explicit_overflow_panic', 'in_i128(x - y)')],
                                            post=[('sub.value', 'r == x - y')]))
    G.add_family(u, idx, 'binops::add_sub', 'Add', 'add', op_contract('ok_add', 'spec_add'), expect=76)
    G.add_family(u, idx, 'binops::add_sub', 'Sub', 'sub', op_contract('ok_sub', 'spec_sub'), expect=76)
    G.add_op_assign(u, idx, 'binops::add_sub', 'AddAssign', 'add_assign', 'Add', 'add')
    G.add_op_assign(u, idx, 'binops::add_sub', 'SubAssign', 'sub_assign', 'Sub', 'sub')
    return u


def build_checked():
    u = Unit('checked_add_sub', specs=['base.rs', 'rounding.rs', 'decimal.rs', 'std_assumed.rs', 'binops.rs'])
    core_kernel.add_core_items(u)
    common.add_decimal(u)
    idx = runner.load_sources(('fpdec',))['fpdec']
    u.trait('fpdec', 'binops::checked_add_sub::trait CheckedAdd')
    u.trait('fpdec', 'binops::checked_add_sub::trait CheckedSub')
    G.add_family(u, idx, 'binops::checked_add_sub', 'CheckedAdd', 'checked_add', checked_contract('ok_add', 'spec_add'), expect=76)
    G.add_family(u, idx, 'binops::checked_add_sub', 'CheckedSub', 'checked_sub', checked_contract('ok_sub', 'spec_sub'), expect=76)
    return u
