"""C12: Decimal -> f64 / f32 is correctly rounded (nearest, ties to even, sign of d).

Verified with their real, macro-expanded bodies (/repo/src/into_float.rs):
  * `n_signif_bits`
  * `trait Float`: the default body `from_decimal` is verified ONCE, generically over the associated consts,
    under the trait-level requirement float_format(FRACTION_BITS, EXP_BIAS, BITS) (= (52,1023,64) or (23,127,32));
    `from_bits` carries `ensures r == Self::of_bits(bits)` (ghost member, defined per impl)            [R55]
  * `impl Float for f64 / f32`: bodies of `from_bits`; their consts are shown to satisfy float_format at
    the two call sites of `from_decimal` (the precondition is discharged there)                       [R51, R52]
  * `<f64 / f32 as From<Decimal>>::from`, emitted as free functions `from_decimal_for_f64/f32` because
    `From::from` cannot carry the domain `valid(d)`                                                  [R54, R53]

Stages (all PROVED, no assume/admit; bodies untouched; one entry hint over the parameter `d`):
  (1) front end  (2) safety: no overflow, shifts < width and lossless, divisor != 0, index in range
  (3) normalisation: the quotient has add_bits or add_bits+1 bits   (4) guard bits + sticky <=> midpoint comparison
  (5) encoding / carry into the exponent field, sign   (6) bits == float_bits_of(..) == sign | rne_bits(|c|, 10^f, F, bias)
  plus: the pattern is a normal number (never subnormal / inf), and the oracle's (m, e) is proved to be a nearest
  normal number with ties to even in the relational sense (spec/float_rne.rs: lemma_rne_is_nearest).

Assumptions (spec/std_float_out.rs A1-A5, spec/std_assumed.rs i128::unsigned_abs): f64/f32::from_bits (uninterpreted
`f64_of_bits`), u128::leading_zeros, u128::pow, values of f64/f32::{MANTISSA_DIGITS, MAX_EXP}, size_of of u64/u32 (R52
table), and the compiler's `i128 as f64/f32` cast (NOT verified: the n_frac_digits == 0 || coeff == 0 branch of C12,
including "zero maps to +0.0", is relative to rustc/LLVM implementing that cast with round-to-nearest-even).
"""
from vgen import Unit, Contract as C, Loop
import common

# ghost member of trait Float: what `from_bits` returns (defined per impl below)
FLOAT_GHOST = '''
    spec fn of_bits(bits: u64) -> Self;
'''

FMT = 'float_format(Self::FRACTION_BITS as int, Self::EXP_BIAS as int, Self::BITS as int)'
EXPECT = ('float_bits_of(d.coeff as int, d.n_frac_digits as nat, Self::FRACTION_BITS as nat, '
          'Self::EXP_BIAS as int, Self::BITS as nat)')

RNE = ('rne_bits(abs_int(d.coeff as int), pow10(d.n_frac_digits as nat), Self::FRACTION_BITS as nat, '
       'Self::EXP_BIAS as int)')

NUMDENF = 'abs_int(d.coeff as int), pow10(d.n_frac_digits as nat), Self::FRACTION_BITS as nat'
SIGEXP = 'rne_sig_exp(%s)' % NUMDENF

PROOF = r'''
// ---- proof side of C12 (unit-local).  Everything below is PROVED; the `m_*` functions and the `let`
// chains in the `ensures` restate intermediate values of `from_decimal` as functions of its inputs so that
// the lemmas can be called from the entry block (which may only mention parameters).  They are hints:
// Verus checks them against the real body, a divergence makes the proof fail, it cannot make it pass.

pub open spec fn m_lz(x: u128) -> u32 { (128 - bit_len(x as nat)) as u32 }

pub open spec fn m_sat_sub(a: u32, b: u32) -> u32 { if a >= b { (a - b) as u32 } else { 0u32 } }

/// stages 2+3: the two shifts lose nothing, the divisor is non-zero, the quotient has ab or ab+1 bits
pub proof fn lemma_stage_shift(num0: u128, den0: u128, ab: u32)
    requires 1 <= num0 < pw2(127), 1 <= den0 <= pow10(18), ab == 55 || ab == 26
    ensures ({
        let nlz = m_lz(num0);
        let dlz = m_lz(den0);
        let nshl = m_sat_sub((nlz + ab) as u32, dlz);
        let dshl = m_sat_sub(m_sat_sub(dlz, nlz), ab);
        let num1 = num0 << nshl;
        let den1 = den0 << dshl;
        &&& 1 <= nlz <= 127 && 68 <= dlz <= 127
        &&& nshl < 128 && dshl < 128
        &&& num1 == num0 * pw2(nshl as nat) && den1 == den0 * pw2(dshl as nat)
        &&& den1 > 0
        &&& pw2((ab - 1) as nat) <= num1 / den1 < pw2((ab + 1) as nat)
        &&& dshl - nshl == dlz - nlz - ab
    }),
{
    lemma_pw2_values();
    lemma_pow10_values();
    let nb = bit_len(num0 as nat);
    let db = bit_len(den0 as nat);
    lemma_bit_len_bounds(num0 as nat);
    lemma_bit_len_bounds(den0 as nat);
    if nb > 127 { lemma_pw2_mono(127, (nb - 1) as nat); }
    if db > 60 { lemma_pw2_mono(60, (db - 1) as nat); }
    assert(1 <= nb <= 127 && 1 <= db <= 60);
    let nlz = m_lz(num0);
    let dlz = m_lz(den0);
    assert(nlz == 128 - nb && dlz == 128 - db);
    let nshl = m_sat_sub((nlz + ab) as u32, dlz);
    let dshl = m_sat_sub(m_sat_sub(dlz, nlz), ab);
    assert(nshl == (if ab + db - nb >= 0 { ab + db - nb } else { 0 }));
    assert(dshl == (if nb - db - ab >= 0 { nb - db - ab } else { 0 }));
    let nn = (nb + nshl) as nat;
    let dn = (db + dshl) as nat;
    assert(nn <= 127 && dn <= 127 && nn == dn + ab);
    lemma_scaled_bounds(num0 as int, nb, nshl as nat);
    lemma_scaled_bounds(den0 as int, db, dshl as nat);
    lemma_pw2_mono(nn, 128);
    lemma_pw2_mono(dn, 128);
    lemma_shl_u128(num0, nshl);
    lemma_shl_u128(den0, dshl);
    lemma_pw2_pos((dn - 1) as nat);
    lemma_quot_range((num0 << nshl) as int, (den0 << dshl) as int, nn, dn, ab as nat);
}

/// stage 4: the low 3 - adj bits of the quotient and the sticky remainder decide the rounding exactly
/// like the comparison of 2 * (N mod D) with D, D = den1 * 2^(3 - adj)
pub proof fn lemma_stage_round(quot: u128, rem: u128, den1: u128, N: int, F: u32)
    requires
        F == 52 || F == 23,
        pw2((F + 2) as nat) <= quot < pw2((F + 4) as nat),
        rem < den1,
        N == quot * den1 + rem,
    ensures ({
        let adj: usize = if bit_len(quot as nat) == F + 3 { 1usize } else { 0usize };
        let mask: u128 = if adj == 0 { 7u128 } else { 3u128 };
        let low = quot & mask;
        let rnd0 = (low as u32) << (adj as u32);
        let rnd = rnd0 | (if rem != 0 { 1u32 } else { 0u32 });
        let sh = quot >> ((3 - adj) as u32);
        let signif = sh as u64;
        let up = rnd > 4 || (rnd == 4 && (signif & 1) as u32 == 1);
        &&& low <= 7
        &&& sh < pw2((F + 1) as nat)
        &&& pw2(F as nat) <= signif
        &&& signif & 1u64 == signif % 2u64      // the VALUE of the parity bit: any spelling of the test works
        &&& rne_div(N, den1 * pw2((3 - adj) as nat)) == signif + (if up { 1int } else { 0int })
        &&& pw2(F as nat) * (den1 * pw2((3 - adj) as nat)) <= N < pw2((F + 1) as nat) * (den1 * pw2((3 - adj) as nat))
    }),
{
    lemma_pw2_values();
    let ab = (F + 3) as nat;
    lemma_pw2_pos((F + 2) as nat);
    lemma_bit_len_bounds(quot as nat);
    let bl = bit_len(quot as nat);
    // bl is ab or ab + 1
    if bl > ab + 1 { lemma_pw2_mono(ab + 1, (bl - 1) as nat); }
    if bl < ab { lemma_pw2_mono(bl, (ab - 1) as nat); }
    assert(bl == ab || bl == ab + 1);
    let adj: usize = if bl == ab { 1usize } else { 0usize };
    let s = (3 - adj) as nat;
    // quot in [2^(F+s), 2^(F+s+1))
    assert(pw2(F as nat + s) <= quot < pw2(F as nat + s + 1)) by {
        if adj == 1 {
            assert(bl == F + 3 && s == 2);
            assert((bl - 1) as nat == F as nat + 2);
        } else {
            assert(bl == F + 4 && s == 3);
            assert((bl - 1) as nat == F as nat + 3);
        }
    }
    lemma_pw2_add(F as nat, s);
    lemma_pw2_add((F + 1) as nat, s);
    let p = pw2(s);
    let sig = quot as int / p;
    let lowi = quot as int % p;
    assert(p == 4 || p == 8);
    lemma_div_bounds(quot as int, p, pw2(F as nat));
    lemma_div_bounds(quot as int, p, pw2((F + 1) as nat));
    assert(pw2(F as nat) <= sig < pw2((F + 1) as nat));
    lemma_rne_guard_sticky(N, den1 as int, s, quot as int, rem as int);
    let D = den1 * p;
    let st: u32 = if rem != 0 { 1u32 } else { 0u32 };
    assert(sig < 0x1_0000_0000_0000_0000);
    if adj == 0 {
        assert(quot & 7u128 == quot % 8u128) by (bit_vector);
        assert(quot >> 3u32 == quot / 8u128) by (bit_vector);
        let low = (quot & 7u128) as u32;
        assert(low << 0u32 == low) by (bit_vector);
        assert(low <= 7 && st <= 1 ==> (((low | st) > 4u32) <==> (low > 4u32 || (low == 4u32 && st == 1u32)))) by (bit_vector);
        assert(low <= 7 && st <= 1 ==> (((low | st) == 4u32) <==> (low == 4u32 && st == 0u32))) by (bit_vector);
    } else {
        assert(quot & 3u128 == quot % 4u128) by (bit_vector);
        assert(quot >> 2u32 == quot / 4u128) by (bit_vector);
        let low = (quot & 3u128) as u32;
        assert(low <= 3 && st <= 1 ==> ((((low << 1u32) | st) > 4u32) <==> (low > 2u32 || (low == 2u32 && st == 1u32)))) by (bit_vector);
        assert(low <= 3 && st <= 1 ==> ((((low << 1u32) | st) == 4u32) <==> (low == 2u32 && st == 0u32))) by (bit_vector);
    }
    let signif = (quot >> ((3 - adj) as u32)) as u64;
    assert(signif == sig);
    assert(signif & 1u64 == signif % 2u64) by (bit_vector);
    // binade condition from sig = N / D
    assert(D > 0);
    vstd::arithmetic::div_mod::lemma_fundamental_div_mod(N, D);
    vstd::arithmetic::div_mod::lemma_mod_bound(N, D);
    assert(pw2(F as nat) * D <= N) by (nonlinear_arith)
        requires N == D * sig + N % D, N % D >= 0, sig >= pw2(F as nat), D > 0;
    assert(N < pw2((F + 1) as nat) * D) by (nonlinear_arith)
        requires N == D * sig + N % D, N % D < D, sig + 1 <= pw2((F + 1) as nat), D > 0;
}

/// stage 5: exponent field; the sum stays below the sign position and the biased exponent is neither 0
/// nor all ones (10^-18 <= |d| < 2^127 is in the normal range of both formats: no subnormal, no infinity)
pub proof fn lemma_stage_encode(F: u32, bias: i32, BITS: u32, exp: int, m: int)
    requires
        float_format(F as int, bias as int, BITS as int),
        -60 <= exp <= 126,
        pw2(F as nat) <= m <= 2 * pw2(F as nat),
    ensures ({
        let e64 = (bias + exp - 1) as u64;
        let hi = e64 << F;
        let bits1 = m + hi;
        &&& bias + exp - 1 >= 0
        &&& hi == (bias + exp - 1) * pw2(F as nat)
        &&& bits1 < pw2((BITS - 1) as nat) && bits1 < 0x8000_0000_0000_0000
        &&& is_normal_pattern(bits1, F as nat, BITS as nat)
    }),
{
    lemma_pw2_values();
    let e64 = (bias + exp - 1) as u64;
    assert(e64 < 0x800);
    let P = pw2(F as nat);
    if F == 52 {
        assert(e64 < 0x800u64 ==> (e64 << 52u32) == mul(e64, 0x10_0000_0000_0000u64)) by (bit_vector);
        assert(e64 * 0x10_0000_0000_0000 < 0x8000_0000_0000_0000) by (nonlinear_arith) requires e64 < 0x800;
    } else {
        assert(e64 < 0x800u64 ==> (e64 << 23u32) == mul(e64, 0x80_0000u64)) by (bit_vector);
        assert(e64 * 0x80_0000 < 0x4_0000_0000) by (nonlinear_arith) requires e64 < 0x800;
    }
    let hi = e64 << F;
    assert(hi == e64 * P);
    let bits1 = m + hi;
    assert(bits1 <= (e64 + 2) * P) by (nonlinear_arith) requires bits1 == m + e64 * P, m <= 2 * P;
    assert(bits1 >= (e64 + 1) * P) by (nonlinear_arith) requires bits1 == m + e64 * P, m >= P;
    assert((e64 + 1) * P >= 1 * P) by (nonlinear_arith) requires e64 >= 0, P > 0;
    if F == 52 {
        assert((e64 + 2) * P <= 1150 * P) by (nonlinear_arith) requires e64 + 2 <= 1150, P > 0;
    } else {
        assert((e64 + 2) * P <= 254 * P) by (nonlinear_arith) requires e64 + 2 <= 254, P > 0;
    }
    assert(pw2((BITS - 1 - F) as nat) == (if F == 52 { 2048int } else { 256int }));
}

/// stage 5 (sign): OR-ing the sign into the free top position is an addition
pub proof fn lemma_stage_sign(b1: u64, neg: bool, BITS: u32)
    requires BITS == 64 || BITS == 32, b1 < pw2((BITS - 1) as nat)
    ensures ({
        let sgn = if neg { 1u64 } else { 0u64 };
        (b1 | (sgn << ((BITS - 1) as u32))) == b1 + (if neg { pw2((BITS - 1) as nat) } else { 0 })
    }),
{
    lemma_pw2_values();
    if BITS == 64 {
        assert(1u64 << 63u32 == 0x8000_0000_0000_0000u64) by (bit_vector);
        assert(0u64 << 63u32 == 0u64) by (bit_vector);
        assert(b1 < 0x8000_0000_0000_0000u64 ==> (b1 | 0x8000_0000_0000_0000u64) == add(b1, 0x8000_0000_0000_0000u64)) by (bit_vector);
        assert(b1 | 0u64 == b1) by (bit_vector);
    } else {
        assert(1u64 << 31u32 == 0x8000_0000u64) by (bit_vector);
        assert(0u64 << 31u32 == 0u64) by (bit_vector);
        assert(b1 < 0x8000_0000u64 ==> (b1 | 0x8000_0000u64) == add(b1, 0x8000_0000u64)) by (bit_vector);
        assert(b1 | 0u64 == b1) by (bit_vector);
    }
}

/// stages 5+6: assembling the pattern; `+ round_up` carries into the exponent field exactly when the
/// rounded significand is 2^(F+1); the result is the oracle's pattern
pub proof fn lemma_from_decimal(c: i128, f: u8, F: u32, bias: i32, BITS: u32)
    requires c != 0, c > i128::MIN, f <= 18, float_format(F as int, bias as int, BITS as int)
    ensures ({
        let num0 = abs_int(c as int) as u128;
        let den0 = pow10(f as nat) as u128;
        let ab = (F + 3) as u32;
        let nlz = m_lz(num0);
        let dlz = m_lz(den0);
        let nshl = m_sat_sub((nlz + ab) as u32, dlz);
        let dshl = m_sat_sub(m_sat_sub(dlz, nlz), ab);
        let num1 = num0 << nshl;
        let den1 = den0 << dshl;
        let quot = num1 / den1;
        let rem = num1 % den1;
        let adj: usize = if bit_len(quot as nat) == ab { 1usize } else { 0usize };
        let mask: u128 = if adj == 0 { 7u128 } else { 3u128 };
        let low = quot & mask;
        let rnd0 = (low as u32) << (adj as u32);
        let rnd = rnd0 | (if rem != 0 { 1u32 } else { 0u32 });
        let sh = quot >> ((3 - adj) as u32);
        let signif = sh as u64;
        let up = rnd > 4 || (rnd == 4 && (signif & 1) as u32 == 1);
        let exp = dlz as i32 - nlz as i32 - adj as i32;
        let e64 = (bias + exp - 1) as u64;
        let hi = e64 << F;
        let bits1 = signif + hi + (if up { 1int } else { 0int });
        let sgn = if c < 0 { 1u64 } else { 0u64 };
        let bits2 = (bits1 as u64) | (sgn << ((BITS - 1) as u32));
        &&& vstd::arithmetic::power::pow(10, f as nat) == pow10(f as nat)
        &&& 1 <= pow10(f as nat) <= 1_000_000_000_000_000_000
        &&& 1 <= nlz <= 127 && 68 <= dlz <= 127 && nshl < 128 && dshl < 128 && den1 > 0
        &&& low <= 7
        &&& sh < pw2(64)
        &&& signif & 1u64 == signif % 2u64
        &&& bias + exp - 1 >= 0
        &&& bits1 < pw2((BITS - 1) as nat) && bits1 < 0x8000_0000_0000_0000
        &&& bits2 == float_bits_of(c as int, f as nat, F as nat, bias as int, BITS as nat)
        &&& 0 <= bits2 < pw2(BITS as nat)
        &&& is_normal_pattern(rne_bits(abs_int(c as int), pow10(f as nat), F as nat, bias as int), F as nat, BITS as nat)
        &&& is_nearest_ties_even(abs_int(c as int), pow10(f as nat), F as nat,
                rne_sig_exp(abs_int(c as int), pow10(f as nat), F as nat).0,
                rne_sig_exp(abs_int(c as int), pow10(f as nat), F as nat).1)
    }),
{
    lemma_pw2_values();
    lemma_pow10_values();
    lemma_pow_10(f as nat);
    lemma_pow10_pos(f as nat);
    lemma_pow10_mono(f as nat, 18);
    let num0 = abs_int(c as int) as u128;
    let den0 = pow10(f as nat) as u128;
    let ab = (F + 3) as u32;
    lemma_stage_shift(num0, den0, ab);
    let nlz = m_lz(num0);
    let dlz = m_lz(den0);
    let nshl = m_sat_sub((nlz + ab) as u32, dlz);
    let dshl = m_sat_sub(m_sat_sub(dlz, nlz), ab);
    let num1 = num0 << nshl;
    let den1 = den0 << dshl;
    let quot = num1 / den1;
    let rem = num1 % den1;
    let N = num1 as int;
    vstd::arithmetic::div_mod::lemma_fundamental_div_mod(N, den1 as int);
    vstd::arithmetic::div_mod::lemma_mod_bound(N, den1 as int);
    assert(N == quot * den1 + rem) by (nonlinear_arith) requires N == den1 * (N / (den1 as int)) + N % (den1 as int), quot == N / (den1 as int), rem == N % (den1 as int);
    lemma_stage_round(quot, rem, den1, N, F);
    let adj: usize = if bit_len(quot as nat) == ab { 1usize } else { 0usize };
    let s = (3 - adj) as nat;
    let mask: u128 = if adj == 0 { 7u128 } else { 3u128 };
    let low = quot & mask;
    let rnd0 = (low as u32) << (adj as u32);
    let rnd = rnd0 | (if rem != 0 { 1u32 } else { 0u32 });
    let sh = quot >> ((3 - adj) as u32);
    let signif = sh as u64;
    let up = rnd > 4 || (rnd == 4 && (signif & 1) as u32 == 1);
    let m = signif + (if up { 1int } else { 0int });
    // D = den1 * 2^s = den0 * 2^(dshl + s)
    let b = (dshl + s) as nat;
    lemma_pw2_add(dshl as nat, s);
    assert(den1 * pw2(s) == pow10(f as nat) * pw2(b)) by (nonlinear_arith)
        requires den1 == den0 * pw2(dshl as nat), pw2(b) == pw2(dshl as nat) * pw2(s), den0 == pow10(f as nat);
    lemma_rne_bits_from_scaled(abs_int(c as int), pow10(f as nat), F as nat, bias as int, nshl as nat, b, m);
    lemma_rne_is_nearest(abs_int(c as int), pow10(f as nat), F as nat, b - nshl);
    let exp = dlz as i32 - nlz as i32 - adj as i32;
    assert(b - nshl == exp - F);
    assert(-60 <= exp <= 126);
    lemma_stage_encode(F, bias, BITS, exp, m);
    let P = pw2(F as nat);
    let e64 = (bias + exp - 1) as u64;
    let hi = e64 << F;
    let bits1 = signif + hi + (if up { 1int } else { 0int });
    assert(bits1 == (b - nshl + F + bias - 1) * P + m) by (nonlinear_arith)
        requires bits1 == m + hi, hi == (bias + exp - 1) * P, b - nshl == exp - F;
    assert(bits1 == rne_bits(abs_int(c as int), pow10(f as nat), F as nat, bias as int));
    lemma_stage_sign(bits1 as u64, c < 0, BITS);
}
'''


def float_trait_contracts():
    return {
        'from_bits': C(post=[('from_bits.value', 'r == Self::of_bits(bits)')]),
        'from_decimal': C(
            pre=[FMT, 'valid(d)', 'd.coeff != 0'],
            post=[('C12.from_decimal.bits', 'r == Self::of_bits((%s) as u64)' % EXPECT),
                  # the pattern fits the format and denotes a normal number (biased exponent neither 0 nor all ones)
                  ('C12.from_decimal.fits', '0 <= %s < pw2(Self::BITS as nat)' % EXPECT),
                  # validation of the oracle on the whole domain: the (m, e) behind rne_bits is a nearest normal
                  # number of the format, ties to even (relational form of the property statement)
                  ('C12.from_decimal.oracle_nearest_even', 'is_nearest_ties_even(%s, %s.0, %s.1)' % (NUMDENF, SIGEXP, SIGEXP)),
                  ('C12.from_decimal.normal', 'is_normal_pattern(%s, Self::FRACTION_BITS as nat, Self::BITS as nat)' % RNE)],
            entry='lemma_from_decimal(d.coeff, d.n_frac_digits, Self::FRACTION_BITS, Self::EXP_BIAS, Self::BITS);'),
    }


def from_contract(ty, F, bias, bits, bty):
    exp = 'float_bits_of(d.coeff as int, d.n_frac_digits as nat, %d, %d, %d)' % (F, bias, bits)
    return C(
        pre=['valid(d)'],
        entry='lemma_pw2_values();',
        post=[('C12.%s.integral_or_zero' % ty,
               '(d.n_frac_digits == 0 || d.coeff == 0) ==> r == i128_as_%s(d.coeff)' % ty),
              ('C12.%s.correctly_rounded' % ty,
               '(d.n_frac_digits != 0 && d.coeff != 0) ==> r == %s_of_bits((%s) as %s)' % (ty, exp, bty))])


def build():
    u = Unit('into_float', specs=['base.rs', 'decimal.rs', 'std_assumed.rs', 'std_float_out.rs', 'float_rne.rs'])
    u.raw(PROOF, 'into_float-proof')
    common.add_decimal(u, consts=False)
    u.fn('fpdec', 'into_float::n_signif_bits', C(post=[('n_signif_bits.value', 'r == bit_len(v as nat)')]))
    u.trait_concrete('fpdec', 'into_float::trait Float', float_trait_contracts(), ghost=FLOAT_GHOST)
    u.impl('fpdec', 'into_float::impl Float for f64', {'from_bits': C()},
           extra='    open spec fn of_bits(bits: u64) -> f64 { f64_of_bits(bits) }')
    u.impl('fpdec', 'into_float::impl Float for f32', {'from_bits': C()},
           extra='    open spec fn of_bits(bits: u64) -> f32 { f32_of_bits(bits as u32) }')
    u.method_fn('fpdec', 'into_float::impl From<Decimal> for f64', 'from', from_contract('f64', 52, 1023, 64, 'u64'),
                'from_decimal_for_f64')
    u.method_fn('fpdec', 'into_float::impl From<Decimal> for f32', 'from', from_contract('f32', 23, 127, 32, 'u32'),
                'from_decimal_for_f32')
    return u
