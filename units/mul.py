"""C02 / C04 (mul half) / C17: checked_mul_rounded, Mul, MulAssign, CheckedMul, MulRounded in all operand forms."""
from vgen import Unit, Contract as C, Loop
import core_kernel
import common
import binop_gen as G
import runner
import wide as wide_iface

M = 'thread_default_mode()'


def checked_mul_rounded_contract():
    n = 'n_frac_digits as int'
    return C(
        pre=['valid(x)', 'valid(y)', 'n_frac_digits <= 18'],
        post=[('C04.mul.single_rounding', 'r.is_some() ==> r.unwrap() == mul_general(x, y, %s, %s)' % (n, M)),
              ('C04.mul.some_fits', 'r.is_some() ==> in_i128(mul_coeff(x, y, %s, %s))' % (n, M)),
              ('C04.mul.none_only_if_unrepresentable', 'r.is_none() ==> !in_coeff(mul_coeff(x, y, %s, %s))' % (n, M))],
        entry='assert(eff_mode(None::<RoundingMode>) == thread_default_mode()); lemma_pow10_values();')


def mul_contract(L, R, lk, rk, hp):
    if lk == 'dec' and rk == 'dec':
        return C(pre=['valid(%s)' % L, 'valid(%s)' % R],
                 ok=[('C02.mul.panics_iff', 'ok_mul(%s, %s, %s)' % (L, R, M))],
                 ok_d=[('C02.mul.panics_iff', 'ok_mul_ret(%s, %s, %s)' % (L, R, M))],
                 value='spec_mul(%s, %s, %s)' % (L, R, M), out_type='Decimal',
                 post=[('C02.mul.value', 'mul_result_ok(%s, %s, %s, r)' % (L, R, M)), ('C02.mul.wf', 'wf(r)')],
                 entry='lemma_pow10_values();')
    return C(pre=['valid(%s)' % L, 'valid(%s)' % R],
             ok=[('C02.mul_int.panics_iff', 'in_i128(%s.coeff * %s.coeff)' % (L, R))],
             value='spec_mul_int(%s, %s)' % (L, R), out_type='Decimal',
             post=[('C02.mul_int.exact', 'r == spec_mul_int(%s, %s)' % (L, R)), ('C02.mul_int.wf', 'wf(r)')])


def checked_mul_contract(L, R, lk, rk, hp):
    if lk == 'dec' and rk == 'dec':
        short = '(is_zero(%s) || is_zero(%s) || is_one(%s) || is_one(%s))' % (L, R, L, R)
        exact = '(%s.n_frac_digits + %s.n_frac_digits <= 18 && in_i128(%s.coeff * %s.coeff))' % (L, R, L, R)
        return C(pre=['valid(%s)' % L, 'valid(%s)' % R],
                 post=[('C02.checked_mul.some_iff', 'r.is_some() <==> (%s || %s)' % (short, exact)),
                       ('C02.checked_mul.exact_never_rounded',
                        'r.is_some() ==> (if %s { mul_result_ok(%s, %s, %s, r.unwrap()) } else { r.unwrap() == spec_mul_int(%s, %s) })' % (short, L, R, M, L, R)),
                       ('C02.checked_mul.wf', 'r.is_some() ==> wf(r.unwrap())')],
                 entry='lemma_pow10_values();')
    return C(pre=['valid(%s)' % L, 'valid(%s)' % R],
             post=[('C02.checked_mul_int.some_iff', 'r.is_some() <==> in_i128(%s.coeff * %s.coeff)' % (L, R)),
                   ('C02.checked_mul_int.exact', 'r.is_some() ==> r.unwrap() == spec_mul_int(%s, %s)' % (L, R)),
                   ('C02.checked_mul_int.wf', 'r.is_some() ==> wf(r.unwrap())')])


def mul_rounded_contract(L, R, lk, rk, hp):
    n = 'n_frac_digits as int'
    zero = '(is_zero(%s) || is_zero(%s))' % (L, R)
    return C(pre=['valid(%s)' % L, 'valid(%s)' % R],
             ok=[('C04.mul_rounded.panics_iff', 'n_frac_digits <= 18 && (%s || in_coeff(mul_coeff(%s, %s, %s, %s)))' % (zero, L, R, n, M))],
             ok_d=[('C04.mul_rounded.panics_iff', 'n_frac_digits <= 18 && (%s || in_i128(mul_coeff(%s, %s, %s, %s)))' % (zero, L, R, n, M))],
             post=[('C04.mul_rounded.value',
                    'if %s { r == (Decimal { coeff: 0, n_frac_digits: 0 }) } else { r == mul_general(%s, %s, %s, %s) }' % (zero, L, R, n, M)),
                   ('C04.mul_rounded.wf', 'wf(r)')])


def base(u):
    core_kernel.add_core_items(u)
    wide_iface.add_wide_items(u)
    common.add_decimal(u)
    common.add_predicates(u)
    u.item('fpdec', 'errors::enum DecimalError')


def build():
    u = Unit('mul', specs=['base.rs', 'rounding.rs', 'decimal.rs', 'std_assumed.rs', 'binops.rs'])
    base(u)
    idx = runner.load_sources(('fpdec',))['fpdec']
    u.fn('fpdec', 'binops::mul_rounded::checked_mul_rounded', checked_mul_rounded_contract())
    u.trait('fpdec', 'binops::mul_rounded::trait MulRounded')
    G.add_family(u, idx, 'binops::mul_rounded', 'MulRounded', 'mul_rounded', mul_rounded_contract, expect=4)
    u.fn('fpdec', 'binops::mul::mul', C(ok=[('C20.mul.explicit_overflow_panic', 'in_i128(x * y)')],
                                        post=[('mul.value', 'r == x * y')]))
    G.add_family(u, idx, 'binops::mul', 'Mul', 'mul', mul_contract, expect=76)
    G.add_op_assign(u, idx, 'binops::mul', 'MulAssign', 'mul_assign', 'Mul', 'mul')
    return u


def build_checked():
    u = Unit('checked_mul', specs=['base.rs', 'rounding.rs', 'decimal.rs', 'std_assumed.rs', 'binops.rs'])
    base(u)
    idx = runner.load_sources(('fpdec',))['fpdec']
    u.trait('fpdec', 'binops::checked_mul::trait CheckedMul')
    G.add_family(u, idx, 'binops::checked_mul', 'CheckedMul', 'checked_mul', checked_mul_contract, expect=76)
    return u
