"""fpdec-core: powers of ten, scale alignment, floor division, rounding kernel.

Shared by C01-C05, C08, C10, C11.  Every function here is verified with its
body (nothing assumed except the thread-local read of R5).
"""
from vgen import Unit, Contract as C, Loop

R5_DEFAULT = '''
// R5: `impl Default for RoundingMode` reads a thread_local RefCell; Verus has no model of
// thread_local!, so the read is an uninterpreted function of the (calling thread's) state.
impl RoundingMode {
    #[verifier::external_body]
    pub fn default() -> (m: RoundingMode)
        ensures m == thread_default_mode(),
    { unimplemented!() }
}
'''

NL_HINT = ('assert forall|a: int, b: int| #[trigger] ((a - 1) * b) == a * b - b by '
           '{ assert((a - 1) * b == a * b - b) by (nonlinear_arith); }')


def contracts():
    """key -> Contract for fpdec-core kernels (reused by other units as callee contracts)."""
    d = {}
    # array indexing panics in every build profile when out of range (language guarantee):
    # in the D-run the body is not re-verified, the index check *is* the explicit panic
    d['powers_of_ten::ten_pow'] = C(
        ok=[('ten_pow.index_in_range', 'n <= 38')],
        post=[('ten_pow.value', 'r == pow10(n as nat)'), ('ten_pow.positive', 'r >= 1')],
        entry='lemma_pow10_values();', stub_in_D=True)
    d['powers_of_ten::checked_ten_pow'] = C(
        post=[('checked_ten_pow.none_iff', 'r.is_none() <==> n > 38'),
              ('checked_ten_pow.value', 'r.is_some() ==> r.unwrap() == pow10(n as nat)')],
        entry='lemma_pow10_values();')
    d['powers_of_ten::mul_pow_ten'] = C(
        ok=[('mul_pow_ten.index_in_range', 'n <= 38'), ('mul_pow_ten.fits', 'in_i128(val * pow10(n as nat))')],
        post=[('mul_pow_ten.value', 'r == val * pow10(n as nat)')])
    d['powers_of_ten::checked_mul_pow_ten'] = C(
        post=[('checked_mul_pow_ten.some_iff', 'r.is_some() <==> (n <= 38 && in_i128(val * pow10(n as nat)))'),
              ('checked_mul_pow_ten.value', 'r.is_some() ==> r.unwrap() == val * pow10(n as nat)')])
    d['adjust_coeffs'] = C(
        pre=['p <= 38', 'q <= 38'],
        ok=['p > q ==> in_i128(y * pow10((p - q) as nat))', 'p < q ==> in_i128(x * pow10((q - p) as nat))'],
        post=[('adjust_coeffs.value',
               'r == (if p >= q { (x, (y * pow10((p - q) as nat)) as i128) } else { ((x * pow10((q - p) as nat)) as i128, y) })')],
        entry='lemma_pow10_values();')
    d['checked_adjust_coeffs'] = C(
        post=[('checked_adjust_coeffs.x',
               'r.0 == (if p >= q { Some(x) } else if q - p <= 38 && in_i128(x * pow10((q - p) as nat)) { Some((x * pow10((q - p) as nat)) as i128) } else { None::<i128> })'),
              ('checked_adjust_coeffs.y',
               'r.1 == (if p <= q { Some(y) } else if p - q <= 38 && in_i128(y * pow10((p - q) as nat)) { Some((y * pow10((p - q) as nat)) as i128) } else { None::<i128> })')],
        entry='lemma_pow10_values();')
    d['i128_div_mod_floor'] = C(
        pre=['y != 0', '!(x == i128::MIN && y == -1)'],
        post=[('div_mod_floor.quot', 'r.0 == floor_quot(x as int, y as int)'),
              ('div_mod_floor.rem', 'r.1 == floor_rem(x as int, y as int)')],
        entry='lemma_rust_floor(x as int, y as int);')
    d['rounding::round_quot'] = C(
        pre=['0 < divisor <= i128::MAX as u128', 'rem < divisor', 'rem > 0 ==> quot < i128::MAX'],
        post=[('round_quot.round_div',
               'r == round_div(quot * (divisor as int) + rem as int, divisor as int, eff_mode(mode))')],
        entry='broadcast use lemma_shl1, lemma_i128_parity_bit; lemma_floor_form(quot as int, rem as int, divisor as int);')
    d['rounding::i128_div_rounded'] = C(
        pre=['divisor != 0', 'divisor < 0 ==> (divident > i128::MIN && divisor > i128::MIN)'],
        post=[('i128_div_rounded.round_div',
               'r == round_div(if divisor < 0 { -(divident as int) } else { divident as int }, abs_int(divisor as int), eff_mode(mode))')],
        entry=('lemma_floor_div_props(if divisor < 0 { -(divident as int) } else { divident as int }, abs_int(divisor as int));'))
    return d


def add_core_items(u, stub=(), verify=False, skip_existing=False):
    """Emit the fpdec-core kernel items into unit `u`.  Outside the home unit (`core_kernel`)
    the kernel functions appear with the same contracts as external_body stubs: their bodies
    are verified in the home unit, which is part of every property that depends on them.
    skip_existing: only add what the unit does not have yet (lib/autostub.py)."""
    cs = contracts()
    if not verify:
        stub = list(cs)
    import runner
    src_core = runner.load_sources(('core',))['core']
    have = set(e.key for e in u.entries) if skip_existing else set()

    def item(k):
        if k not in have:
            u.item('core', k)
    item('rounding::enum RoundingMode')
    if 'R5' not in have:
        u.raw(R5_DEFAULT, 'R5')
        # R5 trust anchors: the thread_local read/write and its initial value are exactly these texts
        u.pin('core', 'rounding::impl Default for RoundingMode::default', sha='45f9d5092fff7a59')
        u.pin('core', 'rounding::impl RoundingMode::set_default', sha='372a97e79b7e696e')
        u.pin('core', 'rounding::const DFLT_ROUNDING_MODE', contains='fn __rust_std_internal_init_fn() -> RefCell<RoundingMode> { RefCell::new(RoundingMode::RoundHalfEven) }')
    item('const MAX_N_FRAC_DIGITS')
    item('powers_of_ten::const POWERS_OF_10')
    for k in ['powers_of_ten::ten_pow', 'powers_of_ten::checked_ten_pow', 'powers_of_ten::mul_pow_ten',
              'powers_of_ten::checked_mul_pow_ten', 'adjust_coeffs', 'checked_adjust_coeffs',
              'i128_div_mod_floor', 'rounding::round_quot', 'rounding::i128_div_rounded']:
        c = cs[k]
        if k in stub:
            c.stub = True
        if k not in src_core or k in have:
            # a helper that no longer exists has no callers either (the crate would not compile): nothing to prove
            continue
        u.fn('core', k, c)
    return cs


def build():
    u = Unit('core_kernel', specs=['base.rs', 'rounding.rs'])
    add_core_items(u, verify=True)
    return u
