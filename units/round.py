"""C05: Round for Decimal (round / checked_round) on top of the kernel contracts."""
from vgen import Unit, Contract as C, Loop
import core_kernel
import common

SPEC = '''
/// the multiple of 10^-n selected by `mode`, as (coefficient, scale); defined for n < p
pub open spec fn round_coeff(d: Decimal, n: int, mode: RoundingMode) -> int {
    round_div(d.coeff as int, pow10((d.n_frac_digits - n) as nat), mode)
}

/// coefficient of the rounded value in the representation the library uses:
/// scale n for n >= 0, scale 0 (re-scaled by 10^-n) for n < 0
pub open spec fn round_result_coeff(d: Decimal, n: int, mode: RoundingMode) -> int {
    if n >= d.n_frac_digits { d.coeff as int }
    else if n >= 0 { round_coeff(d, n, mode) }
    else { round_coeff(d, n, mode) * pow10((-n) as nat) }
}

pub open spec fn round_result_scale(d: Decimal, n: int) -> int {
    if n >= d.n_frac_digits { d.n_frac_digits as int } else if n >= 0 { n } else { 0 }
}

pub open spec fn ok_round(d: Decimal, n: int, mode: RoundingMode) -> bool {
    in_i128(round_result_coeff(d, n, mode))
}

/// rounding position more than 38 digits left of the last digit: |c| < 10^39 / 2 <= 10^(p-n) / 2,
/// so the rounded quotient equals sign(c)/4 rounded (never a tie, always below one half)
pub proof fn lemma_round_far(d: Decimal, n: int, mode: RoundingMode)
    requires valid(d), n < d.n_frac_digits - 38
    ensures round_coeff(d, n, mode) == round_div(sgn(d.coeff as int), 4, mode),
        -1 <= round_coeff(d, n, mode) <= 1,
{
    let c = d.coeff as int;
    let s = (d.n_frac_digits - n) as nat;
    let den = pow10(s);
    lemma_pow10_values();
    lemma_pow10_mono(39, s);
    assert(den >= pow10(39));
    assert(2 * abs_int(c) < den);
    if c == 0 {
        vstd::arithmetic::div_mod::lemma_div_basics_1(den);
        vstd::arithmetic::div_mod::lemma_small_mod(0, den as nat);
    } else if c > 0 {
        lemma_div_mod_unique(c, den, 0, c);
        assert(1int / 4 == 0 && 1int % 4 == 1);
    } else {
        lemma_div_mod_unique(c, den, -1, c + den);
        assert((-1int) / 4 == -1 && (-1int) % 4 == 3);
    }
    assert(0int / 4 == 0 && 0int % 4 == 0);
}

pub proof fn lemma_far_unrepresentable(n: int)
    requires n < 0
    ensures -n > 38 ==> !in_i128(pow10((-n) as nat)) && !in_i128(-pow10((-n) as nat))
{
    if -n > 38 {
        lemma_pow10_values();
        lemma_pow10_mono(39, (-n) as nat);
    }
}
'''



VAL = ('r.coeff == round_result_coeff(self, n_frac_digits as int, thread_default_mode()) && '
       'r.n_frac_digits == round_result_scale(self, n_frac_digits as int)')
OKR = 'ok_round(self, n_frac_digits as int, thread_default_mode())'
ENTRY = ('let n__ = n_frac_digits as int; let m__ = thread_default_mode(); '
         'if n__ < self.n_frac_digits - 38 { lemma_round_far(self, n__, m__); lemma_far_unrepresentable(n__); '
         'let q__ = round_coeff(self, n__, m__); let x__ = pow10((-n__) as nat); '
         'assert(q__ == 1 ==> q__ * x__ == x__); assert(q__ == -1 ==> q__ * x__ == -x__) by (nonlinear_arith); assert(q__ == 0 ==> q__ * x__ == 0); '
         'assert(round_result_coeff(self, n__, m__) == q__ * x__); } '
         'assert(n__ >= self.n_frac_digits ==> round_result_coeff(self, n__, m__) == self.coeff); '
         'assert(eff_mode(None::<RoundingMode>) == m__);')


def round_contracts():
    return {
        'round': C(
            pre=['valid(self)'],
            ok=[('C05.round.panics_iff_unrepresentable', OKR)],
            post=[('C05.round.value', VAL),
                  ('C05.round.wf', 'wf(r)')],
            entry=ENTRY),
        'checked_round': C(
            pre=['valid(self)'],
            post=[('C05.checked_round.some_iff', 'r.is_some() <==> %s' % OKR),
                  ('C05.checked_round.value', 'r.is_some() ==> ({ let r = r.unwrap(); %s })' % VAL),
                  ('C05.checked_round.wf', 'r.is_some() ==> wf(r.unwrap())')],
            entry=ENTRY),
    }


def build():
    u = Unit('round', specs=['base.rs', 'rounding.rs', 'decimal.rs', 'std_assumed.rs'])
    u.raw(SPEC, 'round-spec')
    core_kernel.add_core_items(u)
    common.add_decimal(u)
    u.trait('core', 'rounding::trait Round')
    u.impl('fpdec', 'round::impl Round for Decimal', round_contracts())
    return u
