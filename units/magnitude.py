"""C15 (magnitude chain of fpdec-core): `i128_magnitude` -> `u128` -> `u64`/`u32` -> `less_than_5`,
plus the public siblings `u16`, `u8`.  Statement: the result is floor(log10(v)) for v >= 1, i.e.
10^r <= v < 10^(r+1); the code's answer for v == 0 is 0 (the copied int_log10 code leaves it
unspecified, `Decimal::magnitude` relies on it being 0 for scale 0).

All seven bodies are verified by Verus.  The two branch-free bit tricks (`less_than_5`, `u8`) are
discharged by one `by (bit_vector)` assertion each over the full input domain (entry hint); the
others are linear arithmetic plus division by constants on top of the callee contracts.
Other units take `i128_magnitude` as a stub with exactly the contract proved here
(`add_magnitude_items(u)`).
"""
from vgen import Unit, Contract as C, Loop

CHAIN = ['u8', 'less_than_5', 'u16', 'u32', 'u64', 'u128', 'i128_magnitude']


def _log10_posts(tag, v, bound):
    """floor(log10 v) == r stated over integers; `v` is the parameter name (unsigned)."""
    return [('%s.log10' % tag, '%s >= 1 ==> pow10(r as nat) <= %s < pow10((r + 1) as nat)' % (v, v)),
            ('%s.zero' % tag, '%s == 0 ==> r == 0' % v),
            ('%s.range' % tag, 'r <= %d' % bound)]


# bit-vector facts for the two branch-free kernels: stated on decimal thresholds (the statement),
# the machine expression on the left is what Verus must match against the body it verifies.
BV_LT5 = (
    'assert(val < 100000u32 ==> ({ '
    'let r = ((((val + 393206u32) as u32 & (val + 524188u32) as u32) ^ ((val + 916504u32) as u32 & (val + 514288u32) as u32)) >> 17u32); '
    '(r == 0 <==> val < 10) && (r == 1 <==> 10 <= val < 100) && (r == 2 <==> 100 <= val < 1000) '
    '&& (r == 3 <==> 1000 <= val < 10000) && (r == 4 <==> 10000 <= val) && r < 5 })) by (bit_vector); '
    'lemma_pow10_values();')
BV_U8 = (
    'assert(({ let v = val as u32; '
    'let r = (((v + 758u32) as u32 & (v + 412u32) as u32) >> 8u32); '
    '(r == 0 <==> v < 10) && (r == 1 <==> 10 <= v < 100) && (r == 2 <==> 100 <= v) && r < 3 })) by (bit_vector); '
    'lemma_pow10_values();')


def magnitude_contracts():
    d = {}
    d['u8'] = C(post=_log10_posts('magnitude.u8', 'val', 2), entry=BV_U8)
    d['less_than_5'] = C(pre=['val < 100_000'], post=_log10_posts('magnitude.less_than_5', 'val', 4), entry=BV_LT5)
    d['u16'] = C(post=_log10_posts('magnitude.u16', 'val', 4))
    d['u32'] = C(post=_log10_posts('magnitude.u32', 'val', 9), entry='lemma_pow10_values();')
    d['u64'] = C(post=_log10_posts('magnitude.u64', 'val', 19), entry='lemma_pow10_values();')
    d['u128'] = C(post=_log10_posts('magnitude.u128', 'val', 38), entry='lemma_pow10_values();')
    d['i128_magnitude'] = C(
        post=[('magnitude.i128.log10',
               'i != 0 ==> pow10(r as nat) <= abs_int(i as int) < pow10((r + 1) as nat)'),
              ('magnitude.i128.zero', 'i == 0 ==> r == 0'),
              ('magnitude.i128.range', 'r <= 38')])
    return d


def add_magnitude_items(u, verify=False, only=('i128_magnitude',)):
    """Emit the chain into `u`.  verify=True: all seven functions with bodies (home unit).
    Otherwise only the functions in `only`, as external_body stubs carrying the contract proved
    in the home unit (which is part of every property that uses them)."""
    cs = magnitude_contracts()
    for k in CHAIN:
        if verify:
            u.fn('core', k, cs[k])
        elif k in only:
            cs[k].stub = True
            cs[k].entry = None
            u.fn('core', k, cs[k])
    return cs


def build():
    u = Unit('magnitude', specs=['base.rs', 'std_assumed.rs'])
    add_magnitude_items(u, verify=True)
    return u
