"""Contracts generated from impl headers (C17): every operand form of an operation gets the
contract of the Decimal/Decimal form applied to the lifted operands."""
import re
from vgen import Unit, Contract as C, Loop, parse_impl_header
import rsx

INTS = ('u8', 'i8', 'u16', 'i16', 'u32', 'i32', 'u64', 'i64', 'i128', 'u128')


def lift(ty, var):
    """spec expression of type Decimal for an operand of Rust type `ty` bound to `var`."""
    t = ty.strip()
    ref = False
    m = re.match(r"&\s*('[a-z_]+\s+)?(.*)$", t)
    if m:
        ref = True
        t = m.group(2).strip()
    v = '(*%s)' % var if ref else var
    if t in ('Decimal', 'Self'):
        return v, 'dec'
    if t == 'ArchivedDecimal':
        return 'adec(%s)' % v, 'dec'
    if t in INTS:
        return 'dec_of(%s as int)' % v, 'int'
    raise rsx.AnchorLost('cannot lift operand type %r' % ty)


def impls_of(idx, module, trait):
    out = []
    for k, it in idx.items():
        if isinstance(it, list) or it.kind != 'impl' or it.path != module:
            continue
        hp = parse_impl_header(it.header)
        if hp['trait'] == trait:
            out.append((k, it, hp))
    return out


def rhs_type(hp):
    ta = hp['trait_args']
    if not ta:
        return 'Self'
    return ta[1:-1].strip()


def add_family(u, idx, module, trait, method, make_contract, expect=None):
    """make_contract(L, R, lk, rk, hp) -> Contract"""
    fam = impls_of(idx, module, trait)
    if expect is not None and len(fam) != expect:
        raise rsx.AnchorLost('%s: expected %d impls of %s, found %d' % (module, expect, trait, len(fam)))
    for k, it, hp in fam:
        rt = rhs_type(hp)
        if rt == 'Self':
            rt = hp['self_ty']
        L, lk = lift(hp['self_ty'], 'self')
        R, rk = lift(rt, 'rhs')
        c = make_contract(L, R, lk, rk, hp)
        u.impl('fpdec', k, {method: c})
    return len(fam)


def add_op_assign(u, idx, module, atrait, amethod, btrait, bmethod):
    """`impl<T> AddAssign<T> for Decimal where Decimal: Add<T, Output = Self>`: the compound
    assignment has exactly the precondition and the value of the underlying operator, for every T."""
    fam = impls_of(idx, module, atrait)
    if len(fam) != 1:
        raise rsx.AnchorLost('%s: expected one generic impl of %s, found %d' % (module, atrait, len(fam)))
    k, it, hp = fam[0]
    si = (
        "impl<T> vstd::std_specs::ops::%(A)sSpecImpl<T> for Decimal where Decimal: %(B)s<T, Output = Decimal> {\n"
        "    open spec fn obeys_%(am)s_spec() -> bool { <Decimal as vstd::std_specs::ops::%(B)sSpec<T>>::obeys_%(bm)s_spec() }\n"
        "    open spec fn %(am)s_req(&self, rhs: T) -> bool { vstd::std_specs::ops::%(B)sSpec::%(bm)s_req(*self, rhs) }\n"
        "    open spec fn %(am)s_spec(&self, rhs: T) -> &Decimal { &vstd::std_specs::ops::%(B)sSpec::%(bm)s_spec(*self, rhs) }\n"
        "}\n") % {'A': atrait, 'B': btrait, 'am': amethod, 'bm': bmethod}
    c = C(post=[('C17.%s.same_as_%s' % (amethod, bmethod), 'true')])
    u.impl('fpdec', k, {amethod: c}, spec_impl=si)
