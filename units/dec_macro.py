"""C18: the Dec! proc macro folds (coefficient, exponent) exactly like Decimal::from_str."""
from vgen import Unit, Contract as C, Loop
import r9macro
import parser as parser_unit

S = 'utf8(r9_text(input))'

ENTRY = '''
    let s__ = utf8(r9_text(input));
    lemma_parse_fold(s__);
    lemma_pow10_values();
    if str_to_dec_spec(s__) is Some {
        let c__ = str_to_dec_spec(s__)->Some_0.0;
        let x__ = str_to_dec_spec(s__)->Some_0.1;
        if x__ >= 0 { lemma_not_i128_min(c__, x__ as nat); lemma_pow_is_pow10(x__ as nat); }
    }
'''


def build():
    import runner
    core = runner.load_sources(('core',))['core']
    cap, fixed = parser_unit.exp_cap(core)
    u = Unit('dec_macro', specs=['base.rs', 'parse.rs', 'std_parse.rs'])
    u.raw(parser_unit.SPEC, 'parser-proof-scaffolding')
    u.raw(r9macro.STUBS, 'R9')
    u.item('core', 'const MAX_N_FRAC_DIGITS')
    u.item('core', 'parser::enum ParseDecimalError')
    c = parser_unit.str_to_dec_contract(cap, fixed)
    c.stub = True
    c.entry = None
    u.fn('core', 'parser::str_to_dec', c)
    u.fn('macros', 'Dec', C(
        ok=[('C18.compiles_iff_from_str_ok', 'parse_decimal_spec(%s) is Some' % S)],
        post=[('C18.same_constant_as_from_str',
               'parse_decimal_spec(%s) == Some((r.coeff as int, r.n_frac_digits as int))' % S),
              ('C18.new_raw_precondition', 'r.n_frac_digits <= 18')],
        entry=ENTRY), transform=r9macro.transform)
    return u
