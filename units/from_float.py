"""C13: f64/f32 -> Decimal (src/from_float.rs) and `normalize` (src/lib.rs).

Specification: spec/float.rs (bit-pattern model, `strip`, `nearest18`, `dec_of_f64_bits`); std assumptions:
spec/std_float.rs.  Everything in LEMMAS below is mathematics (proved here, no code involved); the section
"validation of the specification" proves that `nearest18` means what the statement of C13 says.

Verified with their real bodies: normalize, f64_decode, f32_decode (bit fields by `by (bit_vector)` at entry),
approx_rational, both try_from.  Assumed here: i128_magnitude (stub, proved in unit magnitude / C15).
No explicit panic is reachable (assert!(divisor > 0), assert_ne!(biased_exp, 0x7ff / 0xff)), no overflow
(rem *= 10, rem <<= 1, coeff * 10 + quot, coeff += 1, sign * significand, 1 << k).
approx_rational's requires (|divident| < 2^64, 0 < divisor <= 2^126) are derived from the two call sites
(|numer| < 2^53 resp. 2^24, denom = 2^k with 1 <= k <= 126); under them the `magn_coeff < 37` loop condition
never ends the loop early (magn_coeff <= 19 + n_frac_digits is an invariant).

`build_strict` adds `valid(result)`; it fails on the unchanged tree exactly for f = -2^127 (see contract comment).
"""
from vgen import Unit, Contract as C, Loop
import common

LEMMAS = r'''
// ------------------------------------------------------------------ powers of two
pub proof fn ff_lemma_p2_values()
    ensures
        p2(0) == 1, p2(1) == 2,
        p2(23) == 0x80_0000, p2(24) == 0x100_0000,
        p2(52) == 0x10_0000_0000_0000, p2(53) == 0x20_0000_0000_0000,
        p2(64) == 0x1_0000_0000_0000_0000,
        p2(126) == 0x4000_0000_0000_0000_0000_0000_0000_0000,
        p2(127) == 0x8000_0000_0000_0000_0000_0000_0000_0000,
        p2(128) == 0x1_0000_0000_0000_0000 * 0x1_0000_0000_0000_0000,
{
    vstd::arithmetic::power2::lemma2_to64();
    vstd::arithmetic::power2::lemma_pow2_adds(32, 20);
    vstd::arithmetic::power2::lemma_pow2_adds(32, 21);
    vstd::arithmetic::power2::lemma_pow2_adds(32, 30);
    vstd::arithmetic::power2::lemma_pow2_adds(32, 31);
    vstd::arithmetic::power2::lemma_pow2_adds(64, 62);
    vstd::arithmetic::power2::lemma_pow2_adds(64, 63);
    vstd::arithmetic::power2::lemma_pow2_adds(64, 64);
}

pub proof fn ff_lemma_p2_mono(a: nat, b: nat)
    requires a <= b
    ensures 0 < p2(a) <= p2(b)
{
    vstd::arithmetic::power2::lemma_pow2_pos(a);
    if a < b { vstd::arithmetic::power2::lemma_pow2_strictly_increases(a, b); }
}

/// 1 << k on i128 is 2^k (k < 127); 1 << 127 is i128::MIN
pub proof fn ff_lemma_shl_p2(k: nat)
    requires k < 127
    ensures (1i128 << k) == p2(k)
    decreases k
{
    if k == 0 {
        assert(1i128 << 0u32 == 1) by (bit_vector);
        vstd::arithmetic::power2::lemma2_to64();
    } else {
        ff_lemma_shl_p2((k - 1) as nat);
        let j = (k - 1) as u32;
        assert(j < 126 ==> (1i128 << ((j + 1) as u32)) == 2 * (1i128 << j)) by (bit_vector);
        assert((1i128 << j) == (1i128 << ((k - 1) as nat)));
        assert((1i128 << ((j + 1) as u32)) == (1i128 << k));
        vstd::arithmetic::power2::lemma_pow2_unfold(k);
    }
}

pub proof fn ff_lemma_shl_usize(k: usize)
    requires k < 128
    ensures k < 127 ==> (1i128 << k) == p2(k as nat), k == 127 ==> (1i128 << k) == i128::MIN
{
    if k < 127 { ff_lemma_shl_p2(k as nat); }
    else { assert(1i128 << 127u32 == -0x8000_0000_0000_0000_0000_0000_0000_0000i128) by (bit_vector); }
}

pub broadcast proof fn ff_lemma_shl1_i128(x: i128)
    requires 0 <= x < 0x4000_0000_0000_0000_0000_0000_0000_0000i128
    ensures #[trigger] (x << 1) == 2 * x
{
    assert(0 <= x < 0x4000_0000_0000_0000_0000_0000_0000_0000i128 ==> (x << 1) == 2 * x) by (bit_vector);
}

pub broadcast proof fn ff_lemma_and1_i128(x: i128)
    requires 0 <= x
    ensures #[trigger] (x & 1i128) == x % 2
{
    // stated as the VALUE of `x & 1` so that every spelling of the parity test (== 1, != 0, == 0) is covered
    assert(0 <= x ==> (x & 1i128) == x % 2i128) by (bit_vector);
}

// ------------------------------------------------------------------ half-even rounding
/// q + r/d (0 <= r < d) rounded half to even
pub open spec fn he_up(q: int, r: int, d: int) -> int {
    if 2 * r > d || (2 * r == d && q % 2 != 0) { q + 1 } else { q }
}

pub proof fn ff_lemma_he(q: int, r: int, d: int)
    requires d > 0, 0 <= r < d
    ensures round_div(q * d + r, d, RoundingMode::RoundHalfEven) == he_up(q, r, d)
{
    lemma_floor_form(q, r, d);
}

/// half-even is symmetric
pub proof fn ff_lemma_he_neg(n: int, d: int)
    requires d > 0
    ensures round_div(-n, d, RoundingMode::RoundHalfEven) == -round_div(n, d, RoundingMode::RoundHalfEven)
{
    let f = n / d;
    let r = n % d;
    vstd::arithmetic::div_mod::lemma_fundamental_div_mod(n, d);
    vstd::arithmetic::div_mod::lemma_mod_bound(n, d);
    if r == 0 {
        assert(-n == (-f) * d + 0) by (nonlinear_arith) requires n == d * f + r, r == 0;
        lemma_div_mod_unique(-n, d, -f, 0);
    } else {
        assert(-n == (-f - 1) * d + (d - r)) by (nonlinear_arith) requires n == d * f + r;
        lemma_div_mod_unique(-n, d, -f - 1, d - r);
    }
}

pub proof fn ff_lemma_round_small(x: int, d: int)
    requires d > 0, 2 * abs_int(x) < d
    ensures round_div(x, d, RoundingMode::RoundHalfEven) == 0
{
    if x == 0 { lemma_div_mod_unique(0, d, 0, 0); }
    else if x > 0 { lemma_div_mod_unique(x, d, 0, x); }
    else { lemma_div_mod_unique(x, d, -1, x + d); }
}

pub proof fn ff_lemma_round_exact(q: int, d: int, mode: RoundingMode)
    requires d > 0
    ensures round_div(q * d, d, mode) == q
{
    lemma_div_mod_unique(q * d, d, q, 0);
}

// ------------------------------------------------------------------ strip
pub proof fn ff_lemma_strip_le(c: int, n: nat)
    ensures strip(c, n).1 <= n
    decreases n
{
    if c != 0 && n > 0 && c % 10 == 0 { ff_lemma_strip_le(c / 10, (n - 1) as nat); }
}

pub proof fn ff_lemma_strip_pow10(c: int, n: nat, k: nat)
    ensures strip(c * pow10(k), n + k) == strip(c, n)
    decreases k
{
    if k == 0 {
        assert(c * pow10(0) == c) by (nonlinear_arith) requires pow10(0) == 1;
    } else if c == 0 {
        assert(c * pow10(k) == 0) by (nonlinear_arith) requires c == 0;
    } else {
        let y = c * pow10((k - 1) as nat);
        let x = c * pow10(k);
        lemma_pow10_pos((k - 1) as nat);
        assert(x == y * 10) by (nonlinear_arith) requires x == c * pow10(k), y == c * pow10((k - 1) as nat), pow10(k) == 10 * pow10((k - 1) as nat);
        assert(y != 0) by (nonlinear_arith) requires y == c * pow10((k - 1) as nat), c != 0, pow10((k - 1) as nat) >= 1;
        lemma_div_mod_unique(x, 10, y, 0);
        ff_lemma_strip_pow10(c, n, (k - 1) as nat);
        assert(((n + k) - 1) as nat == n + ((k - 1) as nat));
    }
}

pub proof fn ff_lemma_nearest_int(x: int)
    ensures nearest18(x, 1) == (x, 0nat)
{
    ff_lemma_round_exact(x * pow10(18), 1, RoundingMode::RoundHalfEven);
    assert((x * pow10(18)) * 1 == x * pow10(18));
    ff_lemma_strip_pow10(x, 0, 18);
}

pub proof fn ff_lemma_nearest_zero(d: int)
    requires d > 0
    ensures nearest18(0, d) == (0int, 0nat)
{
    assert(0 * pow10(18) == 0);
    ff_lemma_round_small(0, d);
}


// ------------------------------------------------------------------ validation of the specification
// (independent of the code: nearest18 has the properties the statement of C13 names)
/// strip keeps the value c / 10^n, never increases the scale, leaves no trailing fractional zero
pub proof fn ff_lemma_strip_value(c: int, n: nat)
    ensures ({
        let s = strip(c, n);
        &&& s.1 <= n
        &&& s.0 * pow10((n - s.1) as nat) == c
        &&& (s.1 == 0 || s.0 % 10 != 0)
    })
    decreases n
{
    if c == 0 {
        assert(0 * pow10(n) == 0);
    } else if n > 0 && c % 10 == 0 {
        let c1 = c / 10;
        ff_lemma_strip_value(c1, (n - 1) as nat);
        let s = strip(c1, (n - 1) as nat);
        let j = (n - 1 - s.1) as nat;
        assert(pow10((n - s.1) as nat) == 10 * pow10(j));
        assert(s.0 * pow10((n - s.1) as nat) == c) by (nonlinear_arith)
            requires s.0 * pow10(j) == c1, pow10((n - s.1) as nat) == 10 * pow10(j), c == 10 * c1;
    } else {
        assert(c * pow10(0) == c) by (nonlinear_arith) requires pow10(0) == 1;
    }
}

/// half-even: the result is a nearest integer to x/d, on a tie the even one, exact when d | x
pub proof fn ff_lemma_he_is_nearest(x: int, d: int)
    requires d > 0
    ensures ({
        let q = round_div(x, d, RoundingMode::RoundHalfEven);
        &&& 2 * abs_int(q * d - x) <= d
        &&& (2 * abs_int(q * d - x) == d ==> q % 2 == 0)
        &&& (x % d == 0 ==> q * d == x)
    })
{
    let f = x / d;
    let r = x % d;
    vstd::arithmetic::div_mod::lemma_fundamental_div_mod(x, d);
    vstd::arithmetic::div_mod::lemma_mod_bound(x, d);
    assert(f * d == d * f) by (nonlinear_arith);
    assert((f + 1) * d == d * f + d) by (nonlinear_arith);
}

/// C13 as stated: the result (c, n) of nearest18 has n <= 18, no trailing fractional zero, c/10^n is a
/// multiple of 10^-18 nearest to num/den (tie: even 18-digit coefficient), equal to num/den whenever
/// num/den has at most 18 fractional digits; integral num/den gives (num/den, 0).
pub proof fn ff_lemma_nearest18_meaning(num: int, den: int)
    requires den > 0
    ensures ({
        let cn = nearest18(num, den);
        let c18 = cn.0 * pow10((18 - cn.1) as nat);       // the same value at scale 18
        &&& cn.1 <= 18
        &&& (cn.1 == 0 || cn.0 % 10 != 0)
        &&& 2 * abs_int(c18 * den - num * pow10(18)) <= den
        &&& (2 * abs_int(c18 * den - num * pow10(18)) == den ==> c18 % 2 == 0)
        &&& ((num * pow10(18)) % den == 0 ==> c18 * den == num * pow10(18))
        &&& (num % den == 0 ==> cn == (num / den, 0nat))
    })
{
    let q = round_div(num * pow10(18), den, RoundingMode::RoundHalfEven);
    ff_lemma_he_is_nearest(num * pow10(18), den);
    ff_lemma_strip_value(q, 18);
    if num % den == 0 {
        let k = num / den;
        vstd::arithmetic::div_mod::lemma_fundamental_div_mod(num, den);
        assert(num * pow10(18) == (k * pow10(18)) * den) by (nonlinear_arith) requires num == den * k;
        ff_lemma_round_exact(k * pow10(18), den, RoundingMode::RoundHalfEven);
        ff_lemma_strip_pow10(k, 0, 18);
    }
}


// ------------------------------------------------------------------ which results leave Decimal::MIN ..= Decimal::MAX
/// a fraction with |numerator| < 2^64 stays far inside the coefficient range
pub proof fn ff_lemma_frac_in_coeff(x: int, d: int)
    requires d >= 1, -0x1_0000_0000_0000_0000 < x < 0x1_0000_0000_0000_0000
    ensures in_coeff(nearest18(x, d).0)
{
    let xx = x * pow10(18);
    let q = round_div(xx, d, RoundingMode::RoundHalfEven);
    lemma_pow10_values();
    ff_lemma_he_is_nearest(xx, d);
    let bound = 0x1_0000_0000_0000_0000 * 1000000000000000000;
    assert(-bound < xx < bound) by (nonlinear_arith)
        requires -0x1_0000_0000_0000_0000 < x < 0x1_0000_0000_0000_0000, xx == x * pow10(18), pow10(18) == 1000000000000000000, bound == 0x1_0000_0000_0000_0000 * 1000000000000000000;
    let t = q * d - xx;
    assert(-d <= 2 * t <= d);
    assert(-bound - 1 <= q <= bound + 1) by (nonlinear_arith)
        requires t == q * d - xx, -d <= 2 * t <= d, d >= 1, -bound < xx < bound, bound > 0;
    ff_lemma_strip_value(q, 18);
    let s = strip(q, 18);
    let j = (18 - s.1) as nat;
    lemma_pow10_pos(j);
    assert(-bound - 1 <= s.0 <= bound + 1) by (nonlinear_arith)
        requires s.0 * pow10(j) == q, pow10(j) >= 1, -bound - 1 <= q <= bound + 1, bound > 0;
}

/// m * 2^e == 2^127 with 2^t <= m < 2^(t+1) forces m == 2^t, e == 127 - t
pub proof fn ff_lemma_pow2_unique(m: int, e: int, t: nat)
    requires p2(t) <= m < p2(t + 1), e >= 0, t <= 127, m * p2(e as nat) == p2(127)
    ensures e == 127 - t, m == p2(t)
{
    let pe = p2(e as nat);
    ff_lemma_p2_mono(0, e as nat);
    ff_lemma_p2_mono(0, t);
    vstd::arithmetic::power2::lemma_pow2_adds(t, e as nat);
    vstd::arithmetic::power2::lemma_pow2_adds(t + 1, e as nat);
    if e + t < 127 {
        ff_lemma_p2_mono(t + 1 + e as nat, 127);
        assert(m * pe < p2(t + 1) * pe) by (nonlinear_arith) requires m < p2(t + 1), pe > 0;
    } else if e + t > 127 {
        ff_lemma_p2_mono(128, t + e as nat);
        vstd::arithmetic::power2::lemma_pow2_strictly_increases(127, 128);
        assert(m * pe >= p2(t) * pe) by (nonlinear_arith) requires m >= p2(t), pe > 0;
    } else {
        assert(m == p2(t)) by (nonlinear_arith) requires m * pe == p2(t) * pe, pe > 0;
    }
}

// ------------------------------------------------------------------ long division (approx_rational)
/// one digit of the long division dd / d
pub proof fn ff_lemma_ar_step(dd: int, d: int, c: int, r: int, k: nat)
    requires d > 0, 0 <= r < d, c >= 0, c * d + r == dd * pow10(k)
    ensures ({
        let q = (r * 10) / d;
        let r2 = (r * 10) % d;
        &&& 0 <= q <= 9
        &&& 0 <= r2 < d
        &&& r2 <= r * 10
        &&& (c * 10 + q) * d + r2 == dd * pow10(k + 1)
        &&& vstd::arithmetic::div_mod::rust_div(r * 10, d) == q
        &&& vstd::arithmetic::div_mod::rust_rem(r * 10, d) == r2
    })
{
    let q = (r * 10) / d;
    let r2 = (r * 10) % d;
    vstd::arithmetic::div_mod::lemma_fundamental_div_mod(r * 10, d);
    vstd::arithmetic::div_mod::lemma_mod_bound(r * 10, d);
    lemma_rust_div(r * 10, d);
    assert(q >= 0) by (nonlinear_arith) requires r * 10 == d * q + r2, r2 < d, r >= 0, d > 0;
    assert(q <= 9) by (nonlinear_arith) requires r * 10 == d * q + r2, r2 >= 0, r < d, d > 0;
    assert(d * q >= 0) by (nonlinear_arith) requires q >= 0, d > 0;
    assert((c * 10 + q) * d + r2 == 10 * (c * d + r)) by (nonlinear_arith) requires r * 10 == d * q + r2;
    assert(dd * pow10(k + 1) == 10 * (dd * pow10(k))) by (nonlinear_arith) requires pow10(k + 1) == 10 * pow10(k);
}

/// when the long division of |x| by d has produced k digits (quotient c, remainder r) and either the
/// remainder is zero or k == 18, the half-even rounded, sign-restored, stripped quotient is nearest18
pub proof fn ff_lemma_ar_final(x: int, d: int, c: int, r: int, k: nat)
    requires x != 0, d > 0, 0 <= r < d, k <= 18, c * d + r == abs_int(x) * pow10(k), r == 0 || k == 18
    ensures nearest18(x, d) == strip(he_up(c, r, d) * sgn(x), k)
{
    let he = RoundingMode::RoundHalfEven;
    let dd = abs_int(x);
    let j = (18 - k) as nat;
    let c18 = round_div(dd * pow10(18), d, he);
    // the rounded coefficient of |x| at scale 18 is he_up(c, r, d) * 10^(18-k)
    if k == 18 {
        ff_lemma_he(c, r, d);
        assert(pow10(j) == 1);
        assert(he_up(c, r, d) * pow10(j) == he_up(c, r, d)) by (nonlinear_arith) requires pow10(j) == 1;
    } else {
        lemma_pow10_add(k, j);
        assert(dd * pow10(18) == (c * pow10(j)) * d) by (nonlinear_arith)
            requires c * d + r == dd * pow10(k), r == 0, pow10(18) == pow10(k) * pow10(j);
        ff_lemma_round_exact(c * pow10(j), d, he);
    }
    let h = he_up(c, r, d);
    assert(c18 == h * pow10(j));
    // sign
    let hs = h * sgn(x);
    if x > 0 {
        assert(x * pow10(18) == dd * pow10(18));
        assert(hs * pow10(j) == c18) by (nonlinear_arith) requires c18 == h * pow10(j), hs == h * sgn(x), sgn(x) == 1;
    } else {
        assert(x * pow10(18) == -(dd * pow10(18))) by (nonlinear_arith) requires x == -dd;
        ff_lemma_he_neg(dd * pow10(18), d);
        assert(hs * pow10(j) == -c18) by (nonlinear_arith) requires c18 == h * pow10(j), hs == h * sgn(x), sgn(x) == -1;
    }
    assert(round_div(x * pow10(18), d, he) == hs * pow10(j));
    ff_lemma_strip_pow10(hs, k, j);
    assert(k + j == 18);
}

// ------------------------------------------------------------------ normalize
pub proof fn ff_lemma_div10_exact(c: int)
    ensures
        (vstd::arithmetic::div_mod::rust_rem(c, 10) == 0) <==> (c % 10 == 0),
        c % 10 == 0 ==> vstd::arithmetic::div_mod::rust_div(c, 10) == c / 10,
        c % 10 == 0 && c != 0 ==> c / 10 != 0,
{
    lemma_rust_div(c, 10);
    lemma_trunc_div_rem(c, 10);
}

// ------------------------------------------------------------------ the three ranges of the exponent
/// |value| < 2^64 * 2^-127: rounds to zero
pub proof fn ff_lemma_float_tiny(neg: bool, m: int, e: int)
    requires 0 <= m < 0x1_0000_0000_0000_0000, e < -126
    ensures dec_of_float(neg, m, e) == Ok::<Decimal, DecimalError>(Decimal { coeff: 0, n_frac_digits: 0 })
{
    let x = fl_num(neg, m, e);
    let d = fl_den(e);
    ff_lemma_p2_values();
    lemma_pow10_values();
    ff_lemma_p2_mono(127, (-e) as nat);
    assert(abs_int(x) == m);
    assert(abs_int(x * pow10(18)) == m * pow10(18)) by (nonlinear_arith) requires abs_int(x) == m, m >= 0, pow10(18) > 0;
    assert(m * pow10(18) < 0x1_0000_0000_0000_0000 * 1000000000000000000) by (nonlinear_arith)
        requires 0 <= m < 0x1_0000_0000_0000_0000, pow10(18) == 1000000000000000000;
    ff_lemma_round_small(x * pow10(18), d);
}

/// integral value: exact, scale 0
pub proof fn ff_lemma_float_int(neg: bool, m: int, e: int)
    requires e >= 0
    ensures nearest18(fl_num(neg, m, e), fl_den(e)) == (fl_num(neg, m, e), 0nat)
{
    ff_lemma_nearest_int(fl_num(neg, m, e));
}
'''


def decode_entry(w):
    """bit fields by shifts/masks == the arithmetic definitions of spec/float.rs"""
    if w == 64:
        return ('let b = f64_bits(f); '
                'assert((b >> 63) == b / 0x8000_0000_0000_0000) by (bit_vector); '
                'assert((b >> 63) <= 1) by (bit_vector); '
                'assert(((b >> 52) & 0x7ff) == (b / 0x10_0000_0000_0000) % 0x800) by (bit_vector); '
                'assert(((b >> 52) & 0x7ff) <= 0x7ff) by (bit_vector); '
                'assert((b & 0xfffffffffffff) == b % 0x10_0000_0000_0000) by (bit_vector); '
                'assert(((b & 0xfffffffffffff) | 0x10000000000000) == (b & 0xfffffffffffff) + 0x10000000000000) by (bit_vector); '
                'assert(1u8 << 1 == 2u8) by (bit_vector); assert(0u8 << 1 == 0u8) by (bit_vector);')
    return ('let b = f32_bits(f); '
            'assert((b >> 31) == b / 0x8000_0000) by (bit_vector); '
            'assert((b >> 31) <= 1) by (bit_vector); '
            'assert(((b >> 23) & 0xff) == (b / 0x80_0000) % 0x100) by (bit_vector); '
            'assert(((b >> 23) & 0xff) <= 0xff) by (bit_vector); '
            'assert((b & 0x7fffff) == b % 0x80_0000) by (bit_vector); '
            'assert(forall|x: u64| x < 0x80_0000 ==> #[trigger] (x | 0x800000) == x + 0x800000) by (bit_vector); '
            'assert(1u8 << 1 == 2u8) by (bit_vector); assert(0u8 << 1 == 0u8) by (bit_vector);')


def decode_contract(w):
    p = 'f%d' % w
    b = '%s_bits(f)' % p
    return C(
        # the callers have excluded NaN / infinity: the explicit assert_ne! must be unreachable
        pre=['%s_finite_bits(%s)' % (p, b)],
        post=[('%s_decode.zero_or_subnormal' % p, '%s_biased(%s) == 0 ==> r == (0u64, 0i16, 0i8)' % (p, b)),
              ('%s_decode.significand' % p, '%s_biased(%s) != 0 ==> r.0 == %s_mant(%s)' % (p, b, p, b)),
              ('%s_decode.exponent' % p, '%s_biased(%s) != 0 ==> r.1 == %s_exp(%s)' % (p, b, p, b)),
              ('%s_decode.sign' % p, '%s_biased(%s) != 0 ==> r.2 == (if %s_neg(%s) { -1int } else { 1int })' % (p, b, p, b))],
        entry=decode_entry(w))


AR_PRE = ['divisor > 0',
          '-0x1_0000_0000_0000_0000 < divident < 0x1_0000_0000_0000_0000',
          'divisor <= 0x4000_0000_0000_0000_0000_0000_0000_0000']

AR_ENTRY = '''
    let x = divident as int; let d = divisor as int; let dd = abs_int(x);
    lemma_pow10_values();
    broadcast use ff_lemma_shl1_i128, ff_lemma_and1_i128;
    if d == 1 { ff_lemma_nearest_int(x); }
    else if x == 0 { ff_lemma_nearest_zero(d); }
    else {
        lemma_rust_div(dd, d);
        vstd::arithmetic::div_mod::lemma_fundamental_div_mod(dd, d);
        vstd::arithmetic::div_mod::lemma_mod_bound(dd, d);
        let c0 = dd / d; let r0 = dd % d;
        assert(c0 >= 0 && c0 <= dd) by (nonlinear_arith) requires dd == d * c0 + r0, 0 <= r0 < d, d >= 1, dd >= 0;
        assert(c0 * d + r0 == dd * pow10(0)) by (nonlinear_arith) requires dd == d * c0 + r0, pow10(0) == 1;
        if r0 == 0 { ff_lemma_ar_final(x, d, c0, r0, 0); }
        assert forall|v: int| #[trigger] (v * sgn(x)) == (if x > 0 { v } else { -v }) by { assert(v * sgn(x) == (if x > 0 { v } else { -v })) by (nonlinear_arith) requires x != 0, sgn(x) == (if x > 0 { 1int } else { -1int }); }
        assert forall|j: nat| j >= 20 implies #[trigger] pow10(j) >= pow10(20) by { lemma_pow10_mono(20, j); }
        assert forall|j: nat| j <= 38 implies #[trigger] pow10(j) <= pow10(38) by { lemma_pow10_mono(j, 38); }
    }
'''

AR_BODY = '''
    let x = divident as int; let d = divisor as int; let dd = abs_int(x);
    let k = n_frac_digits as nat;
    lemma_pow10_values();
    lemma_pow10_mono(k, 17);
    lemma_pow10_mono((magn_coeff + 1) as nat, 37);
    ff_lemma_ar_step(dd, d, coeff as int, rem as int, k);
    let q = (rem * 10) / d; let r2 = (rem * 10) % d;
    if r2 == 0 || k + 1 == 18 { ff_lemma_ar_final(x, d, coeff * 10 + q, r2, k + 1); }
'''

AR_INV = [
    'divisor > 1', 'divident != 0',
    '-0x1_0000_0000_0000_0000 < divident < 0x1_0000_0000_0000_0000',
    'divisor <= 0x4000_0000_0000_0000_0000_0000_0000_0000',
    '0 <= rem < divisor', '0 <= coeff', 'n_frac_digits <= 18',
    'coeff * divisor + rem == abs_int(divident as int) * pow10(n_frac_digits as nat)',
    'rem <= 0xffff_ffff_ffff_ffff * pow10(n_frac_digits as nat)',
    'magn_coeff <= 19 + n_frac_digits',
    'coeff < pow10((magn_coeff + 1) as nat)',
    '(rem == 0 || n_frac_digits == 18) ==> nearest18(divident as int, divisor as int) == '
    'strip(he_up(coeff as int, rem as int, divisor as int) * sgn(divident as int), n_frac_digits as nat)',
]


def contracts():
    d = {}
    RR = 'vstd::arithmetic::div_mod::rust_rem'
    d['normalize'] = C(
        post=[('normalize.strip',
               '(*final(coeff) as int, *final(n_frac_digits) as nat) == strip(*old(coeff) as int, *old(n_frac_digits) as nat)')],
        entry='ff_lemma_div10_exact(*coeff as int);',
        loops=[Loop(inv=['*coeff != 0',
                         '(' + RR + '(*coeff as int, 10) == 0) <==> (*coeff as int % 10 == 0)',
                         'strip(*coeff as int, *n_frac_digits as nat) == strip(*old(coeff) as int, *old(n_frac_digits) as nat)'],
                    dec='*n_frac_digits',
                    body_entry='ff_lemma_div10_exact(*coeff as int); ff_lemma_div10_exact(*coeff as int / 10);')])
    d['from_float::f64_decode'] = decode_contract(64)
    d['from_float::f32_decode'] = decode_contract(32)
    d['from_float::approx_rational'] = C(
        pre=AR_PRE,
        post=[('approx_rational.nearest18', '(r.0 as int, r.1 as nat) == nearest18(divident as int, divisor as int)')],
        entry=AR_ENTRY,
        loops=[Loop(inv=AR_INV, dec='18 - n_frac_digits', body_entry=AR_BODY)])
    return d


MAGNITUDE_STUB = C(
    # proved in unit magnitude (C15)
    post=[('i128_magnitude.zero', 'i == 0 ==> r == 0'),
          ('i128_magnitude.decade', 'i != 0 ==> pow10(r as nat) <= abs_int(i as int) < pow10((r + 1) as nat)')],
    stub=True)


def try_from_entry(w):
    p = 'f%d' % w
    t = {64: '52', 32: '23'}[w]
    only = {64: 'assert(b / 0x8000_0000_0000_0000 == 1 && (b / 0x10_0000_0000_0000) % 0x800 == 1150 && b % 0x10_0000_0000_0000 == 0 ==> b == 0xC7E0_0000_0000_0000) by (bit_vector);',
            32: 'assert(b / 0x8000_0000 == 1 && (b / 0x80_0000) % 0x100 == 254 && b % 0x80_0000 == 0 ==> b == 0xFF00_0000) by (bit_vector);'}[w]
    return '''
    let b = %(p)s_bits(f); let neg = %(p)s_neg(b); let m = %(p)s_mant(b); let e = %(p)s_exp(b);
    ff_lemma_p2_values(); lemma_pow10_values();
    if %(p)s_finite_bits(b) {
        assert(0 <= m < 0x20_0000_0000_0000);
        assert forall|s: int, v: int| (s == 1 ==> #[trigger] (s * v) == v) && (s == -1 ==> s * v == -v) && (s == 0 ==> s * v == 0) by { assert((s == 1 ==> s * v == v) && (s == -1 ==> s * v == -v) && (s == 0 ==> s * v == 0)) by (nonlinear_arith); }
        if e < -126 {
            ff_lemma_float_tiny(neg, m, e);
        } else if e < 0 {
            ff_lemma_shl_usize((-e) as usize);
            ff_lemma_p2_mono((-e) as nat, 126);
            ff_lemma_p2_mono(0, (-e) as nat);
            ff_lemma_frac_in_coeff(fl_num(neg, m, e), fl_den(e));
        } else {
            ff_lemma_float_int(neg, m, e);
            let pe = p2(e as nat);
            assert((-m) * pe == -(m * pe)) by (nonlinear_arith);
            if %(p)s_biased(b) != 0 && neg && m * pe == p2(127) {
                ff_lemma_pow2_unique(m, e, %(t)s);
                %(only)s
            }
            if e < 127 {
                ff_lemma_shl_usize(e as usize);
            } else {
                ff_lemma_shl_usize(127);
                ff_lemma_p2_mono(127, e as nat);
                assert(m * pe >= 2 * p2(127)) by (nonlinear_arith) requires m >= 2, pe >= p2(127), p2(127) > 0;
                assert(m * i128::MIN <= 2 * i128::MIN) by (nonlinear_arith) requires m >= 2;
                assert((-m) * i128::MIN >= -2 * i128::MIN) by (nonlinear_arith) requires m >= 2;
            }
        }
    }
''' % {'p': p, 't': t, 'only': only}


def try_from_contract(w, strict_min=False):
    p = 'f%d' % w
    # proved on the unchanged tree: the only float whose result lies outside Decimal::MIN ..= Decimal::MAX is -2^127
    extra = [('C13.%s.valid_except_neg_2_127' % p,
              'r matches Ok(d_) ==> valid(d_) || %s_bits(f) == %s' % (p, {64: '0xC7E0_0000_0000_0000', 32: '0xFF00_0000'}[w]))]
    if strict_min:
        # reading "i128 coefficient range" as Decimal::MIN ..= Decimal::MAX (|coeff| <= 2^127 - 1, the domain
        # `valid` of every other property): violated by the unchanged tree for f = -2^127 exactly
        # (f64 bits 0xC7E0_0000_0000_0000, f32 bits 0xFF00_0000): Ok(Decimal { coeff: i128::MIN, .. }).
        extra.append(('C13.%s.valid' % p, 'r matches Ok(d_) ==> valid(d_)'))
    return C(
        value='dec_of_%s_bits(%s_bits(f))' % (p, p),
        out_type='Result<Decimal, DecimalError>',
        post=[('C13.%s.value' % p, 'r == dec_of_%s_bits(%s_bits(f))' % (p, p)),
              ('C13.%s.wf' % p, 'r matches Ok(d_) ==> wf(d_)')] + extra,
        entry=try_from_entry(w) + ' ff_lemma_strip_le(round_div(fl_num(neg, m, e) * pow10(18), fl_den(e), RoundingMode::RoundHalfEven), 18);')


def build(strict_min=False):
    u = Unit('from_float_strict' if strict_min else 'from_float', specs=['base.rs', 'rounding.rs', 'decimal.rs', 'std_assumed.rs', 'float.rs', 'std_float.rs'])
    u.raw(LEMMAS, 'from_float-lemmas')
    u.item('core', 'rounding::enum RoundingMode')
    u.item('core', 'const MAX_N_FRAC_DIGITS')
    u.fn('core', 'i128_magnitude', MAGNITUDE_STUB)
    common.add_decimal(u)
    u.item('fpdec', 'errors::enum DecimalError')
    cs = contracts()
    u.fn('fpdec', 'normalize', cs['normalize'])
    u.fn('fpdec', 'from_float::f64_decode', cs['from_float::f64_decode'])
    u.fn('fpdec', 'from_float::f32_decode', cs['from_float::f32_decode'])
    u.item('fpdec', 'from_float::const MAGN_I128_MAX')
    u.fn('fpdec', 'from_float::approx_rational', cs['from_float::approx_rational'])
    u.impl('fpdec', 'from_float::impl TryFrom<f32> for Decimal', {'try_from': try_from_contract(32, strict_min)})
    u.impl('fpdec', 'from_float::impl TryFrom<f64> for Decimal', {'try_from': try_from_contract(64, strict_min)})
    return u


def build_strict():
    """same unit with the additional clause `valid(result)`; fails for f = -2^127 (finding, see report)"""
    return build(strict_min=True)
