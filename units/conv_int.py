"""C14: integer conversions.  `From<int> for Decimal` (9), `TryFrom<u128> for Decimal`,
`TryFrom<Decimal> for i128` and the 9 macro-generated narrowing `TryFrom<Decimal> for T`.
Contracts are generated from the impl headers (count checked: AnchorLost if it changes).

Two units, because Verus has no `requires` channel for `From` / `TryFrom` impls ("trait method
implementation cannot declare requires clauses", vstd's From/TryFromSpecImpl have no `*_req`):

* `conv_int` (build): the 20 real trait impls.  No precondition at all: every clause is proved for
  EVERY Decimal (any coefficient incl. i128::MIN, any n_frac_digits 0..=255) for which the call
  returns.  The only callee with a domain is `ten_pow` (array index): it appears in its total form
  "returns  ==>  n <= 38 && r == 10^n" (the index check panics in every build profile; this is the
  D-form of the contract proved in core_kernel).
* `conv_int_total` (build_total): totality on the quantifier domain.  The same 10 `TryFrom<Decimal>`
  method bodies as free functions (vgen R54: same text, `Self` -> self type) with `requires valid(d)`
  and the F-form callee contracts (`ten_pow requires n <= 38`, `explicit_panic requires false`): no
  panic and the specified value for every valid d.  The nested call `i128::try_from(d)` in the nine
  narrowing bodies resolves to the trait impl, which is a stub there whose specification is guarded
  by `valid(d)` (nothing is known about its result outside the domain on which its own free-function
  copy is proved total), so the callers' value clauses are only provable if the argument is valid.
"""
from vgen import Unit, Contract as C, Loop, parse_impl_header
import rsx
import core_kernel
import common
import runner
import binop_gen as G

SPEC = '''
// ---- C14 (from the statement): d = c / 10^f "is the integer v"  <=>  c == v * 10^f
pub open spec fn is_int_value(d: Decimal, v: int) -> bool { d.coeff == v * pow10(d.n_frac_digits as nat) }

/// Some(v) iff the value of d is the integer v (divisibility form; equivalence with is_int_value below)
pub open spec fn int_value_of(d: Decimal) -> Option<int> {
    let p = pow10(d.n_frac_digits as nat);
    if (d.coeff as int) % p == 0 { Some((d.coeff as int) / p) } else { None }
}

pub proof fn lemma_int_value_of(d: Decimal)
    ensures
        forall|v: int| is_int_value(d, v) <==> int_value_of(d) == Some(v),
        int_value_of(d) matches Some(v) ==> is_int_value(d, v),
{
    let p = pow10(d.n_frac_digits as nat);
    let c = d.coeff as int;
    lemma_pow10_pos(d.n_frac_digits as nat);
    vstd::arithmetic::div_mod::lemma_fundamental_div_mod(c, p);
    assert forall|v: int| is_int_value(d, v) <==> int_value_of(d) == Some(v) by {
        if is_int_value(d, v) {
            lemma_div_mod_unique(c, p, v, 0);
        }
        if int_value_of(d) == Some(v) {
            assert(p * (c / p) == (c / p) * p) by (nonlinear_arith);
        }
    }
    if c % p == 0 { assert(p * (c / p) == (c / p) * p) by (nonlinear_arith); }
}

/// Rust's truncating `%` / `/` agree with the mathematical ones on exact quotients
pub proof fn lemma_exact_quot(c: int, p: int)
    requires p > 0
    ensures
        (trunc_rem(c, p) == 0) <==> (c % p == 0),
        c % p == 0 ==> trunc_div(c, p) == c / p,
        vstd::arithmetic::div_mod::rust_rem(c, p) == trunc_rem(c, p),
        vstd::arithmetic::div_mod::rust_div(c, p) == trunc_div(c, p),
{
    lemma_rust_div(c, p);
    lemma_trunc_div_rem(c, p);
    lemma_trunc_to_floor(c, p);
}

/// the result demanded by the statement for target range lo..=hi (as an int; cast by the caller)
pub open spec fn spec_to_int(d: Decimal, lo: int, hi: int) -> Result<int, TryFromDecimalError> {
    match int_value_of(d) {
        None => Err(TryFromDecimalError::NotAnIntValue),
        Some(v) => if lo <= v <= hi { Ok(v) } else { Err(TryFromDecimalError::ValueOutOfRange) },
    }
}
'''

INTS = G.INTS
ENTRY_D = ('lemma_pow10_values(); lemma_pow10_pos(d.n_frac_digits as nat); '
           'lemma_exact_quot(d.coeff as int, pow10(d.n_frac_digits as nat)); lemma_int_value_of(d);')


def from_int_contract(T):
    return C(value='Decimal { coeff: i as i128, n_frac_digits: 0 }',
             post=[('C14.from.exact', 'r.coeff == i'), ('C14.from.scale', 'r.n_frac_digits == 0')])


def try_from_u128_contract():
    return C(value='if i <= i128::MAX { Ok(Decimal { coeff: i as i128, n_frac_digits: 0 }) } '
                   'else { Err(DecimalError::InternalOverflow) }',
             out_type='Result<Decimal, DecimalError>',
             post=[('C14.try_from_u128.ok_iff', 'r is Ok <==> i <= i128::MAX'),
                   ('C14.try_from_u128.exact', 'r is Ok ==> r->Ok_0.coeff == i && r->Ok_0.n_frac_digits == 0'),
                   ('C14.try_from_u128.error_kind', 'i > i128::MAX ==> r == Err::<Decimal, DecimalError>(DecimalError::InternalOverflow)')])


def to_int_value(T, guard=None):
    v = ('match spec_to_int(d, %s::MIN as int, %s::MAX as int) { Ok(v) => Ok(v as %s), Err(e) => Err(e) }' % (T, T, T))
    if guard:
        v = 'if %s { %s } else { arbitrary() }' % (guard, v)
    return v


def to_int_posts(T):
    R = 'Result<%s, TryFromDecimalError>' % T
    rng = '%s::MIN <= v <= %s::MAX' % (T, T)
    return [
        # Ok(v) exactly when d's value is the integer v and v is in T's range
        ('C14.try_from.ok_iff_integral_in_range',
         'forall|v: int| (r is Ok && r->Ok_0 == v) <==> (is_int_value(d, v) && %s)' % rng),
        # not integral: NotAnIntValue whatever the range
        ('C14.try_from.not_an_int', '(forall|v: int| !is_int_value(d, v)) ==> r == Err::<%s, TryFromDecimalError>(TryFromDecimalError::NotAnIntValue)' % T),
        # integral but outside T
        ('C14.try_from.out_of_range',
         'forall|v: int| is_int_value(d, v) && !(%s) ==> r == Err::<%s, TryFromDecimalError>(TryFromDecimalError::ValueOutOfRange)' % (rng, T)),
    ]


def to_int_contract(T, total):
    c = C(pre=(['valid(d)'] if total else []),
          value=to_int_value(T), out_type='Result<%s, TryFromDecimalError>' % T,
          post=[('C14.try_from.value', 'r == (%s)' % to_int_value(T))] + to_int_posts(T),
          entry=ENTRY_D)
    return c


def families(idx):
    """(key, hp, T) for the three families, from the impl headers."""
    frm, tfd = [], []
    for k, it, hp in G.impls_of(idx, 'from_int', 'From'):
        T = hp['trait_args'][1:-1].strip()
        if hp['self_ty'] != 'Decimal' or T not in INTS:
            raise rsx.AnchorLost('from_int: unexpected impl %s' % k)
        frm.append((k, hp, T))
    for k, it, hp in G.impls_of(idx, 'into_int', 'TryFrom'):
        T = hp['self_ty']
        if hp['trait_args'] != '<Decimal>' or T not in INTS:
            raise rsx.AnchorLost('into_int: unexpected impl %s' % k)
        tfd.append((k, hp, T))
    tfu = G.impls_of(idx, 'from_int', 'TryFrom')
    if len(frm) != 9 or len(tfd) != 10 or len(tfu) != 1 or sorted(T for _, _, T in tfd) != sorted(INTS) \
            or tfu[0][2]['trait_args'] != '<u128>' or tfu[0][2]['self_ty'] != 'Decimal':
        raise rsx.AnchorLost('C14: expected 9 From<int>, 1 TryFrom<u128> for Decimal, 10 TryFrom<Decimal> for int; found %d/%d/%d'
                             % (len(frm), len(tfu), len(tfd)))
    # i128 first: the narrowing impls call it
    tfd.sort(key=lambda x: x[2] != 'i128')
    return frm, tfu[0][0], tfd


def _ten_pow_total(u):
    """`ten_pow` in its total form (returns ==> n <= 38): D-form of the contract proved in core_kernel."""
    tp = core_kernel.contracts()['powers_of_ten::ten_pow']
    u.fn('core', 'powers_of_ten::ten_pow', C(post=list(tp.ok) + list(tp.post), stub=True))


def _prelude(name):
    u = Unit(name, specs=['base.rs', 'decimal.rs', 'std_assumed.rs', 'std_conv.rs'],
             uses=['use core::convert::TryFrom;'])
    u.item('fpdec', 'struct Decimal')
    u.item('fpdec', 'errors::enum DecimalError')
    u.item('fpdec', 'errors::enum TryFromDecimalError')
    u.raw(SPEC, 'conv-int-spec')
    return u


def build():
    u = _prelude('conv_int')
    _ten_pow_total(u)
    idx = runner.load_sources(('fpdec',))['fpdec']
    frm, tfu, tfd = families(idx)
    for k, hp, T in frm:
        u.impl('fpdec', k, {'from': from_int_contract(T)})
    u.impl('fpdec', tfu, {'try_from': try_from_u128_contract()})
    for k, hp, T in tfd:
        u.impl('fpdec', k, {'try_from': to_int_contract(T, total=False)})
    return u


def build_total():
    u = _prelude('conv_int_total')
    tp = core_kernel.contracts()['powers_of_ten::ten_pow']
    tp.stub = True
    u.fn('core', 'powers_of_ten::ten_pow', tp)
    idx = runner.load_sources(('fpdec',))['fpdec']
    frm, tfu, tfd = families(idx)
    for k, hp, T in tfd:
        if T == 'i128':
            # the trait impl the narrowing bodies call: stub, specification guarded by the domain
            u.impl('fpdec', k, {'try_from': C(value=to_int_value(T, guard='valid(d)'),
                                              out_type='Result<%s, TryFromDecimalError>' % T, stub=True)})
        u.method_fn('fpdec', k, 'try_from', to_int_contract(T, total=True), 'try_from_decimal_for_%s' % T)
    return u
