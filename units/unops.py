"""C15: floor / ceil / trunc / fract / abs / neg / magnitude / eq_zero / eq_one / is_negative /
is_positive (and the private helper trait DivModInt for i128).

Value semantics: d = c / 10^f with c = d.coeff, f = d.n_frac_digits, p = 10^f; every inequality of
the statement is cross-multiplied by p (spec/unops.rs).  `i128_magnitude` is a stub here carrying
the contract proved in unit `magnitude`; the fpdec-core kernels (`ten_pow`) carry the contracts
proved in unit `core_kernel`.
"""
from vgen import Unit, Contract as C, Loop
import core_kernel
import common
import magnitude

P = 'pow10(self.n_frac_digits as nat)'
CI = '(self.coeff as int)'

DIV_PRE = ['rhs != 0', '!(self == i128::MIN && rhs == -1)']
DIV_ENTRY = ('lemma_rust_div(self as int, rhs as int); lemma_trunc_div_rem(self as int, rhs as int); '
             'lemma_mul_step(trunc_div(self as int, rhs as int), rhs as int);')

POW_ENTRY = 'lemma_pow10_values(); lemma_pow10_pos(self.n_frac_digits as nat);'


def divmodint_contracts():
    return {
        'divmod': C(pre=DIV_PRE,
                    post=[('C15.divmod.quot', 'r.0 == trunc_div(self as int, rhs as int)'),
                          ('C15.divmod.rem', 'r.1 == trunc_rem(self as int, rhs as int)')],
                    entry=DIV_ENTRY),
        'div_floor': C(pre=DIV_PRE,
                       post=[('C15.div_floor.floor', 'is_floor_q(self as int, rhs as int, r as int)')],
                       entry=DIV_ENTRY),
        'div_ceil': C(pre=DIV_PRE,
                      post=[('C15.div_ceil.ceil', 'is_ceil_q(self as int, rhs as int, r as int)')],
                      entry=DIV_ENTRY),
    }


def neg_contract(S):
    """S: spec expression of the operand as a Decimal (`self` or `(*self)`)."""
    val = 'Decimal { coeff: (-(%s.coeff as int)) as i128, n_frac_digits: %s.n_frac_digits }' % (S, S)
    # domain of the property: valid Decimals (coeff > i128::MIN), where negation cannot overflow.
    # (-Decimal{coeff: i128::MIN} panics only under overflow-checks; it is outside Decimal::MIN..=MAX.)
    return C(pre=['valid(%s)' % S],
             value=val, out_type='Decimal',
             post=[('C15.neg.exact', 'r.coeff == -(%s.coeff as int)' % S),
                   ('C15.neg.scale', 'r.n_frac_digits == %s.n_frac_digits' % S)])


def unops_contracts():
    trunc_entry = POW_ENTRY + (' lemma_rust_div(%s, %s); lemma_trunc_is_trunc(%s, %s);' % (CI, P, CI, P))
    return {
        'abs': C(pre=['valid(*self)'],
                 post=[('C15.abs.exact', 'r.coeff == abs_int(%s)' % CI),
                       ('C15.abs.scale', 'r.n_frac_digits == self.n_frac_digits')]),
        'floor': C(pre=['valid(*self)'],
                   post=[('C15.floor.integral', 'r.n_frac_digits == 0'),
                         ('C15.floor.bounds', 'is_floor(%s, %s, r.coeff as int)' % (CI, P))],
                   entry=POW_ENTRY),
        'ceil': C(pre=['valid(*self)'],
                  post=[('C15.ceil.integral', 'r.n_frac_digits == 0'),
                        ('C15.ceil.bounds', 'is_ceil(%s, %s, r.coeff as int)' % (CI, P))],
                  entry=POW_ENTRY),
        'trunc': C(pre=['valid(*self)'],
                   post=[('C15.trunc.integral', 'r.n_frac_digits == 0'),
                         ('C15.trunc.toward_zero', 'is_trunc(%s, %s, r.coeff as int)' % (CI, P))],
                   entry=trunc_entry),
        'fract': C(pre=['valid(*self)'],
                   post=[('C15.fract.scale', 'r.n_frac_digits == self.n_frac_digits'),
                         ('C15.fract.sign', '(self.coeff >= 0 ==> r.coeff >= 0) && (self.coeff <= 0 ==> r.coeff <= 0)'),
                         # trunc(d) + fract(d) == d at scale f, for *the* value satisfying trunc's statement
                         ('C15.fract.trunc_plus_fract',
                          'forall|t: int| is_trunc(%s, %s, t) ==> t * %s + r.coeff == self.coeff' % (CI, P, P)),
                         ('C15.fract.below_one', 'abs_int(r.coeff as int) < %s' % P)],
                   entry=trunc_entry + (
                       ' lemma_trunc_div_rem(%(c)s, %(p)s);'
                       ' assert forall|t: int| is_trunc(%(c)s, %(p)s, t) implies t == trunc_div(%(c)s, %(p)s) by'
                       ' { lemma_trunc_unique(%(c)s, %(p)s, t); }' % {'c': CI, 'p': P})),
    }


ZERO = 'Decimal { coeff: 0, n_frac_digits: 0 }'
ONE = 'Decimal { coeff: 1, n_frac_digits: 0 }'


def predicate_contracts():
    return {
        'eq_zero': C(pre=['valid(*self)'], post=[('C15.eq_zero.value', 'r == (val_cmp(*self, %s) == 0)' % ZERO)]),
        'eq_one': C(pre=['valid(*self)'], post=[('C15.eq_one.value', 'r == (val_cmp(*self, %s) == 0)' % ONE)],
                    entry='lemma_pow10_values(); assert(1 * pow10(self.n_frac_digits as nat) == pow10(self.n_frac_digits as nat)); '
                          'assert(max_u8(self.n_frac_digits, 0) == self.n_frac_digits);'),
        'is_negative': C(pre=['valid(*self)'], post=[('C15.is_negative.value', 'r == (val_cmp(*self, %s) < 0)' % ZERO)]),
        'is_positive': C(pre=['valid(*self)'], post=[('C15.is_positive.value', 'r == (val_cmp(*self, %s) > 0)' % ZERO)]),
    }


def base_contracts():
    m = {}
    for c in common.DEC_CONSTS:
        m[c] = None
    # debug_assert! in new_raw: panics in the dev profile only (C20 dimension); the value is exact
    m['new_raw'] = C(ok=[('new_raw.scale_in_range', 'n_frac_digits <= 18')],
                     post=[('new_raw.value', 'r.coeff == coeff && r.n_frac_digits == n_frac_digits')])
    m['coefficient'] = C(post=[('coefficient.value', 'r == self.coeff')])
    m['n_frac_digits'] = C(post=[('n_frac_digits.value', 'r == self.n_frac_digits')])
    m['magnitude'] = C(
        pre=['valid(self)'],
        post=[
            # 10^m <= |c| / 10^f < 10^(m+1)  <=>  10^(m+f) <= |c| < 10^(m+f+1)  (m + f >= 0 follows from |c| >= 1)
            ('C15.magnitude.msd',
             'self.coeff != 0 ==> r + self.n_frac_digits >= 0 && '
             'pow10((r + self.n_frac_digits) as nat) <= abs_int(self.coeff as int) < pow10((r + self.n_frac_digits + 1) as nat)'),
            # every representation of zero (coeff == 0, any scale)
            ('C15.magnitude.zero', 'self.coeff == 0 ==> r == 0'),
        ])
    return m


def add_decimal_base(u):
    """struct Decimal, consts, new_raw, accessors, magnitude (lib.rs `impl Decimal`)."""
    u.item('fpdec', 'struct Decimal')
    u.inherent('fpdec', 'impl Decimal', base_contracts())


def build():
    u = Unit('unops', specs=['base.rs', 'rounding.rs', 'decimal.rs', 'std_assumed.rs', 'std_conv.rs', 'unops.rs'])
    core_kernel.add_core_items(u)
    magnitude.add_magnitude_items(u)
    add_decimal_base(u)
    u.trait('fpdec', 'unops::trait DivModInt')
    u.impl('fpdec', 'unops::impl DivModInt for i128', divmodint_contracts())
    u.impl('fpdec', 'unops::impl Neg for Decimal', {'neg': neg_contract('self')})
    u.impl('fpdec', 'unops::impl Neg for &Decimal', {'neg': neg_contract('(*self)')})
    u.inherent('fpdec', 'unops::impl Decimal', unops_contracts())
    u.inherent('fpdec', 'binops::cmp::impl Decimal', predicate_contracts())
    return u


# ---------------------------------------------------------------------------------------------
# feature num-traits: Zero / One / Num / Signed for Decimal  (expansion with --features num-traits)
# ---------------------------------------------------------------------------------------------
# The traits live in the external crate num-traits (0.2.19), which is not part of the single-file
# Verus program.  The impls of /repo are kept verbatim; what is added is a *stand-in declaration* of
# each trait (required methods only, signatures as in num-traits 0.2.19 src/identities.rs, src/lib.rs,
# src/sign.rs; supertrait bounds and provided methods omitted) carrying the ghost pre/post members
# that vgen generates for crate traits.  If an impl in /repo did not match these signatures rustc
# would reject the generated file (frontend error => undecided, never a pass).
import vgen
import rsx

NUM_TRAITS = {
    'Zero': ('', ['fn zero() -> Self', 'fn is_zero(&self) -> bool']),
    'One': ('', ['fn one() -> Self', 'fn is_one(&self) -> bool']),
    'Num': ('    type FromStrRadixErr;\n',
            ['fn from_str_radix(str: &str, radix: u32) -> Result<Self, Self::FromStrRadixErr>']),
    'Signed': ('', ['fn abs(&self) -> Self', 'fn abs_sub(&self, other: &Self) -> Self', 'fn signum(&self) -> Self',
                    'fn is_positive(&self) -> bool', 'fn is_negative(&self) -> bool']),
}


def standin_trait(u, name):
    assoc, sigs = NUM_TRAITS[name]
    out = '// stand-in for num_traits::%s (num-traits 0.2.19), required methods only\npub trait %s: Sized {\n%s' % (name, name, assoc)
    for sig in sigs:
        sig = vgen.rewrite_body(sig)
        decl, req, ens, plist, ret = vgen.ghost_decls(sig)
        out += decl
        out += '    %s\n        requires %s,\n        ensures %s;\n' % (
            sig.replace('-> %s' % ret, '-> (r: %s)' % ret), req, ', '.join(ens))
    out += '}\n'
    u.raw(out, 'standin-' + name)
    u.crate_traits.add(name)


NT_SPEC = '''
/// the result of `<Decimal as FromStr>::from_str` is a function of the characters of its argument
/// (the function itself is specified and verified in C06; here only "same call, same result" is used)
pub uninterp spec fn from_str_result(s: Seq<char>) -> Result<Decimal, ParseDecimalError>;
'''

ZERO_V = 'Decimal { coeff: 0, n_frac_digits: 0 }'
ONE_V = 'Decimal { coeff: 1, n_frac_digits: 0 }'


def num_traits_contracts():
    V = 'valid(*self)'
    return {
        'Zero': {
            'zero': C(post=[('C15.num.zero', 'r == %s' % ZERO_V)]),
            'is_zero': C(pre=[V], post=[('C15.num.is_zero', 'r == (val_cmp(*self, %s) == 0)' % ZERO_V)]),
        },
        'One': {
            'one': C(post=[('C15.num.one', 'r == %s' % ONE_V)]),
            'is_one': C(pre=[V], post=[('C15.num.is_one', 'r == (val_cmp(*self, %s) == 0)' % ONE_V)]),
        },
        'Num': {
            'from_str_radix': C(post=[
                ('C15.num.from_str_radix.radix10', 'radix == 10 ==> r == from_str_result(str@)'),
                ('C15.num.from_str_radix.other_radix',
                 'radix != 10 ==> r == Err::<Decimal, ParseDecimalError>(ParseDecimalError::Invalid)')]),
        },
        'Signed': {
            'abs': C(pre=[V], post=[('C15.num.abs.exact', 'r.coeff == abs_int(self.coeff as int)'),
                                    ('C15.num.abs.scale', 'r.n_frac_digits == self.n_frac_digits')]),
            # max(x - y, 0); the difference panics exactly when it is not representable (C01)
            # (`self - other` on two `&Decimal` is emitted as `Sub::sub(self, other)`, vgen R62)
            'abs_sub': C(pre=[V, 'valid(*other)'],
                         ok=[('C15.num.abs_sub.panics_iff_unrepresentable', 'val_cmp(*self, *other) > 0 ==> ok_sub(*self, *other)')],
                         post=[('C15.num.abs_sub.value',
                                'r == (if val_cmp(*self, *other) <= 0 { %s } else { spec_sub(*self, *other) })' % ZERO_V),
                               ('C15.num.abs_sub.wf', 'wf(r)')]),
            'signum': C(pre=[V], post=[('C15.num.signum', 'r.n_frac_digits == 0 && r.coeff == sgn(self.coeff as int)'),
                                       ('C15.num.signum.by_value', 'r.coeff == val_cmp(*self, %s)' % ZERO_V)],
                        entry='assert(max_u8(self.n_frac_digits, 0) == self.n_frac_digits); '
                              'assert(0 * pow10(self.n_frac_digits as nat) == 0);'),
            'is_positive': C(pre=[V], post=[('C15.num.is_positive', 'r == (val_cmp(*self, %s) > 0)' % ZERO_V)]),
            'is_negative': C(pre=[V], post=[('C15.num.is_negative', 'r == (val_cmp(*self, %s) < 0)' % ZERO_V)]),
        },
    }


def _stubbed(cs):
    for c in cs.values():
        if c is not None:
            c.stub = True
            c.entry = None
    return cs


def build_num_traits():
    import conv_int
    import add_sub
    import runner
    u = Unit('num_traits', specs=['base.rs', 'rounding.rs', 'decimal.rs', 'std_assumed.rs', 'std_conv.rs', 'unops.rs', 'binops.rs'],
             uses=['use core::str::FromStr;'])
    core_kernel.add_core_items(u)
    u.item('core', 'parser::enum ParseDecimalError')
    u.item('fpdec', 'struct Decimal')
    m = {'const ZERO': None, 'const ONE': None}
    m['coefficient'] = C(post=[('coefficient.value', 'r == self.coeff')], stub=True)
    u.inherent('fpdec', 'impl Decimal', m)
    u.raw(NT_SPEC, 'num-traits-spec')
    # callees: contracts proved in units unops / conv_int / add_sub (C01) / parser (C06), stubs here
    abs_c = {'abs': unops_contracts()['abs']}
    u.inherent('fpdec', 'unops::impl Decimal', _stubbed(abs_c))
    u.inherent('fpdec', 'binops::cmp::impl Decimal', _stubbed(predicate_contracts()))
    u.impl('fpdec', 'from_int::impl From<i128> for Decimal', _stubbed({'from': conv_int.from_int_contract('i128')}))
    u.impl('fpdec', 'binops::add_sub::impl Add<Self> for Decimal',
           _stubbed({'add': add_sub.op_contract('ok_add', 'spec_add')('self', 'rhs', 'dec', 'dec', None)}))
    subc = add_sub.op_contract('ok_sub', 'spec_sub')
    u.impl('fpdec', 'binops::add_sub::impl Sub<Self> for Decimal', _stubbed({'sub': subc('self', 'rhs', 'dec', 'dec', None)}))
    u.impl('fpdec', 'binops::add_sub::impl Sub<&Decimal> for &Decimal where Decimal: Sub<Decimal>',
           _stubbed({'sub': subc('(*self)', '(*rhs)', 'dec', 'dec', None)}))
    # comparison by value on the domain (C08); nothing is known outside it
    BOTH = 'valid(*self) && valid(*other)'
    u.impl('fpdec', 'binops::cmp::impl PartialEq<Decimal> for Decimal', {'eq': C(
        value='if %s { val_cmp(*self, *other) == 0 } else { arbitrary() }' % BOTH, stub=True)})
    u.impl('fpdec', 'binops::cmp::impl PartialOrd<Decimal> for Decimal', {'partial_cmp': C(
        value='if %s { Some(ord_of(val_cmp(*self, *other))) } else { arbitrary() }' % BOTH, stub=True)})
    u.impl('fpdec', 'from_str::impl FromStr for Decimal',
           {'from_str': C(post=[('from_str.function_of_chars', 'r == from_str_result(lit@)')], stub=True)})
    cs = num_traits_contracts()
    idx = runner.load_sources(('fpdec',), ('num-traits',))['fpdec']
    n = 0
    for k, it in idx.items():
        if isinstance(it, list) or it.kind != 'impl' or it.path != 'num_traits':
            continue
        t = vgen.parse_impl_header(it.header)['trait']
        if t not in cs:
            raise rsx.AnchorLost('num_traits: unexpected impl %s' % k)
        standin_trait(u, t)
        u.impl('fpdec', k, cs[t])
        n += 1
    if n != 4:
        raise rsx.AnchorLost('num_traits: expected 4 impls (Zero, One, Num, Signed), found %d' % n)
    return u
