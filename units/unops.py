"""C15: floor / ceil / trunc / fract / abs / neg / magnitude / eq_zero / eq_one / is_negative /
is_positive (and the private helper trait DivModInt for i128).

Value semantics: d = c / 10^f with c = d.coeff, f = d.n_frac_digits, p = 10^f; every inequality of
the statement is cross-multiplied by p (spec/unops.rs).  `i128_magnitude` is a stub here carrying
the contract proved in unit `magnitude`; the fpdec-core kernels (`ten_pow`) carry the contracts
proved in unit `core_kernel`.
"""
from vgen import Unit, Contract as C, Loop
import core_kernel
import common
import magnitude

P = 'pow10(self.n_frac_digits as nat)'
CI = '(self.coeff as int)'

DIV_PRE = ['rhs != 0', '!(self == i128::MIN && rhs == -1)']
DIV_ENTRY = ('lemma_rust_div(self as int, rhs as int); lemma_trunc_div_rem(self as int, rhs as int); '
             'lemma_mul_step(trunc_div(self as int, rhs as int), rhs as int);')

POW_ENTRY = 'lemma_pow10_values(); lemma_pow10_pos(self.n_frac_digits as nat);'


def divmodint_contracts():
    return {
        'divmod': C(pre=DIV_PRE,
                    post=[('C15.divmod.quot', 'r.0 == trunc_div(self as int, rhs as int)'),
                          ('C15.divmod.rem', 'r.1 == trunc_rem(self as int, rhs as int)')],
                    entry=DIV_ENTRY),
        'div_floor': C(pre=DIV_PRE,
                       post=[('C15.div_floor.floor', 'is_floor_q(self as int, rhs as int, r as int)')],
                       entry=DIV_ENTRY),
        'div_ceil': C(pre=DIV_PRE,
                      post=[('C15.div_ceil.ceil', 'is_ceil_q(self as int, rhs as int, r as int)')],
                      entry=DIV_ENTRY),
    }


def neg_contract(S):
    """S: spec expression of the operand as a Decimal (`self` or `(*self)`)."""
    val = 'Decimal { coeff: (-(%s.coeff as int)) as i128, n_frac_digits: %s.n_frac_digits }' % (S, S)
    return C(pre=['%s.n_frac_digits <= 18' % S],
             ok=[('C15.neg.panics_iff_min', '%s.coeff > i128::MIN' % S)],
             value=val, out_type='Decimal',
             post=[('C15.neg.exact', 'r.coeff == -(%s.coeff as int)' % S),
                   ('C15.neg.scale', 'r.n_frac_digits == %s.n_frac_digits' % S)])


def unops_contracts():
    trunc_entry = POW_ENTRY + (' lemma_rust_div(%s, %s); lemma_trunc_is_trunc(%s, %s);' % (CI, P, CI, P))
    return {
        'abs': C(pre=['valid(*self)'],
                 post=[('C15.abs.exact', 'r.coeff == abs_int(%s)' % CI),
                       ('C15.abs.scale', 'r.n_frac_digits == self.n_frac_digits')]),
        'floor': C(pre=['valid(*self)'],
                   post=[('C15.floor.integral', 'r.n_frac_digits == 0'),
                         ('C15.floor.bounds', 'is_floor(%s, %s, r.coeff as int)' % (CI, P))],
                   entry=POW_ENTRY),
        'ceil': C(pre=['valid(*self)'],
                  post=[('C15.ceil.integral', 'r.n_frac_digits == 0'),
                        ('C15.ceil.bounds', 'is_ceil(%s, %s, r.coeff as int)' % (CI, P))],
                  entry=POW_ENTRY),
        'trunc': C(pre=['valid(*self)'],
                   post=[('C15.trunc.integral', 'r.n_frac_digits == 0'),
                         ('C15.trunc.toward_zero', 'is_trunc(%s, %s, r.coeff as int)' % (CI, P))],
                   entry=trunc_entry),
        'fract': C(pre=['valid(*self)'],
                   post=[('C15.fract.scale', 'r.n_frac_digits == self.n_frac_digits'),
                         ('C15.fract.sign', '(self.coeff >= 0 ==> r.coeff >= 0) && (self.coeff <= 0 ==> r.coeff <= 0)'),
                         # trunc(d) + fract(d) == d at scale f, for *the* value satisfying trunc's statement
                         ('C15.fract.trunc_plus_fract',
                          'forall|t: int| is_trunc(%s, %s, t) ==> t * %s + r.coeff == self.coeff' % (CI, P, P)),
                         ('C15.fract.below_one', 'abs_int(r.coeff as int) < %s' % P)],
                   entry=trunc_entry + (
                       ' lemma_trunc_div_rem(%(c)s, %(p)s);'
                       ' assert forall|t: int| is_trunc(%(c)s, %(p)s, t) implies t == trunc_div(%(c)s, %(p)s) by'
                       ' { lemma_trunc_unique(%(c)s, %(p)s, t); }' % {'c': CI, 'p': P})),
    }


ZERO = 'Decimal { coeff: 0, n_frac_digits: 0 }'
ONE = 'Decimal { coeff: 1, n_frac_digits: 0 }'


def predicate_contracts():
    return {
        'eq_zero': C(pre=['valid(*self)'], post=[('C15.eq_zero.value', 'r == (val_cmp(*self, %s) == 0)' % ZERO)]),
        'eq_one': C(pre=['valid(*self)'], post=[('C15.eq_one.value', 'r == (val_cmp(*self, %s) == 0)' % ONE)],
                    entry='lemma_pow10_values();'),
        'is_negative': C(pre=['valid(*self)'], post=[('C15.is_negative.value', 'r == (val_cmp(*self, %s) < 0)' % ZERO)]),
        'is_positive': C(pre=['valid(*self)'], post=[('C15.is_positive.value', 'r == (val_cmp(*self, %s) > 0)' % ZERO)]),
    }


def base_contracts():
    m = {}
    for c in common.DEC_CONSTS:
        m[c] = None
    # debug_assert! in new_raw: panics in the dev profile only (C20 dimension); the value is exact
    m['new_raw'] = C(ok=[('new_raw.scale_in_range', 'n_frac_digits <= 18')],
                     post=[('new_raw.value', 'r.coeff == coeff && r.n_frac_digits == n_frac_digits')])
    m['coefficient'] = C(post=[('coefficient.value', 'r == self.coeff')])
    m['n_frac_digits'] = C(post=[('n_frac_digits.value', 'r == self.n_frac_digits')])
    m['magnitude'] = C(
        pre=['valid(self)'],
        post=[
            # 10^m <= |c| / 10^f < 10^(m+1)  <=>  10^(m+f) <= |c| < 10^(m+f+1)  (m + f >= 0 follows from |c| >= 1)
            ('C15.magnitude.msd',
             'self.coeff != 0 ==> r + self.n_frac_digits >= 0 && '
             'pow10((r + self.n_frac_digits) as nat) <= abs_int(self.coeff as int) < pow10((r + self.n_frac_digits + 1) as nat)'),
            # every representation of zero (coeff == 0, any scale)
            ('C15.magnitude.zero', 'self.coeff == 0 ==> r == 0'),
        ])
    return m


def add_decimal_base(u):
    """struct Decimal, consts, new_raw, accessors, magnitude (lib.rs `impl Decimal`)."""
    u.item('fpdec', 'struct Decimal')
    u.inherent('fpdec', 'impl Decimal', base_contracts())


def build():
    u = Unit('unops', specs=['base.rs', 'rounding.rs', 'decimal.rs', 'std_assumed.rs', 'std_conv.rs', 'unops.rs'])
    core_kernel.add_core_items(u)
    magnitude.add_magnitude_items(u)
    add_decimal_base(u)
    u.trait('fpdec', 'unops::trait DivModInt')
    u.impl('fpdec', 'unops::impl DivModInt for i128', divmodint_contracts())
    u.impl('fpdec', 'unops::impl Neg for Decimal', {'neg': neg_contract('self')})
    u.impl('fpdec', 'unops::impl Neg for &Decimal', {'neg': neg_contract('(*self)')})
    u.inherent('fpdec', 'unops::impl Decimal', unops_contracts())
    u.inherent('fpdec', 'binops::cmp::impl Decimal', predicate_contracts())
    return u
