"""C10 / C17: Rem, RemAssign, CheckedRem in all operand forms; kernel `binops::rem::rem`; `fract` (divisor-one shortcut)."""
from vgen import Unit, Contract as C, Loop
import core_kernel
import common
import binop_gen as G
import runner

SPECS = ['base.rs', 'rounding.rs', 'decimal.rs', 'std_assumed.rs', 'binops.rs', 'rem.rs']

X = 'Decimal { coeff: divident_coeff, n_frac_digits: divident_n_frac_digits }'
Y = 'Decimal { coeff: divisor_coeff, n_frac_digits: divisor_n_frac_digits }'

CX = 'divident_coeff as int'
CY = 'divisor_coeff as int'
SHIFT0 = '(divisor_n_frac_digits - divident_n_frac_digits) as nat'

KERNEL_ENTRY = '''
        let cx = %(cx)s; let cy = %(cy)s;
        let p = divident_n_frac_digits; let q = divisor_n_frac_digits;
        lemma_rust_div(cx, cy);
        if p > q {
            let k = pow10((p - q) as nat);
            if in_i128(cy * k) {
                lemma_at_scale_nonzero(%(Y)s, p);
                lemma_rust_div(cx, cy * k);
            } else {
                lemma_trunc_rem_divisor_out_of_range(cx, cy * k);
            }
        }
        if p < q {
            let k = pow10((q - p) as nat);
            lemma_mul_pow10_not_min(cx, (q - p) as nat);
            if in_i128(cx * k) {
                lemma_rust_div(cx * k, cy);
            } else {
                lemma_rem_shifted_zero(cx, cy);
                lemma_rem_shifted_zero_stays_all(cx, cy, (q - p) as nat);
            }
        }
''' % {'cx': CX, 'cy': CY, 'Y': Y}


def kernel_contract():
    return C(
        pre=['valid(%s)' % X, 'valid(%s)' % Y, 'divisor_coeff != 0'],
        post=[('C10.kernel.ok_if_rescalable', 'ok_rem(%s, %s) ==> r.is_ok()' % (X, Y)),
              ('C10.kernel.exact',
               'match r { Ok(v) => v.0 == rem_exact(%s, %s) && v.1 == rem_scale(%s, %s), Err(_) => true }' % (X, Y, X, Y))],
        entry=KERNEL_ENTRY,
        loops=[Loop(
            inv=['divisor_coeff != 0',
                 'divident_n_frac_digits < divisor_n_frac_digits',
                 'shift <= divisor_n_frac_digits - divident_n_frac_digits',
                 '!in_i128(%s * pow10(%s))' % (CX, SHIFT0),
                 'rem == rem_shifted(%s, %s, (divisor_n_frac_digits - divident_n_frac_digits - shift) as nat)' % (CX, CY),
                 'forall|j: nat| j <= %s && #[trigger] rem_shifted(%s, %s, j) == 0 ==> rem_shifted(%s, %s, %s) == 0' % (
                     SHIFT0, CX, CY, CX, CY, SHIFT0)],
            dec='shift',
            body_entry=('lemma_rem_shifted_step(%s, %s, (divisor_n_frac_digits - divident_n_frac_digits - shift) as nat); '
                        'lemma_rust_div(rem * 10, %s);' % (CX, CY, CY)))])


def fract_contract(stub=False):
    n = 'self.n_frac_digits'
    return C(pre=['%s <= 38' % n],
             post=[('C10.fract.trunc_rem',
                    'r == (Decimal { coeff: trunc_rem(self.coeff as int, pow10(%s as nat)) as i128, n_frac_digits: %s })' % (n, n))],
             entry=('lemma_pow10_values(); lemma_pow10_pos(%s as nat); lemma_rust_div(self.coeff as int, pow10(%s as nat)); '
                    'lemma_trunc_div_rem(self.coeff as int, pow10(%s as nat)); '
                    'if %s == 0 { lemma_trunc_rem_by_one(self.coeff as int); }' % (n, n, n, n)),
             stub=stub)


def op_entry(L, R):
    return ('let x__ = %s; let y__ = %s; lemma_pow10_values(); '
            'if y__.coeff != 0 { '
            'if x__.coeff == 0 { lemma_rem_zero_dividend(x__, y__); } '
            'if is_one(y__) { lemma_rem_by_one(x__, y__); if x__.n_frac_digits == 0 { lemma_rem_zero_dividend(Decimal { coeff: 0, n_frac_digits: 0 }, y__); } } '
            'lemma_rem_general(x__, y__); }' % (L, R))


def rem_contract(L, R, lk, rk, hp):
    return C(pre=['valid(%s)' % L, 'valid(%s)' % R],
             ok=[('C10.rem.panics_only_if', 'ok_rem(%s, %s)' % (L, R))],
             ok_d=[('C10.rem.panics_only_if', 'ok_rem_ret(%s, %s)' % (L, R))],
             value='spec_rem(%s, %s)' % (L, R), out_type='Decimal',
             post=[('C10.rem.exact', 'rem_result_ok(%s, %s, r)' % (L, R)),
                   ('C10.rem.wf', 'wf(r)'),
                   ('C10.rem.scale_general',
                    '(%s.coeff != 0 && !is_one(%s)) ==> r.n_frac_digits == rem_scale(%s, %s)' % (L, R, L, R)),
                   ('C10.rem.canonical', 'r == spec_rem(%s, %s)' % (L, R))],
             entry=op_entry(L, R))


def checked_rem_contract(L, R, lk, rk, hp):
    return C(pre=['valid(%s)' % L, 'valid(%s)' % R],
             post=[('C10.checked_rem.some_if_rescalable', 'ok_rem(%s, %s) ==> r.is_some()' % (L, R)),
                   ('C10.checked_rem.none_if_zero_divisor', 'r.is_some() ==> ok_rem_ret(%s, %s)' % (L, R)),
                   ('C10.checked_rem.exact', 'r.is_some() ==> rem_result_ok(%s, %s, r.unwrap())' % (L, R)),
                   ('C10.checked_rem.wf', 'r.is_some() ==> wf(r.unwrap())'),
                   ('C10.checked_rem.same_as_operator', 'r.is_some() ==> r.unwrap() == spec_rem(%s, %s)' % (L, R))],
             entry=op_entry(L, R))


def base(u, kernel_stub, fract_stub):
    core_kernel.add_core_items(u)
    common.add_decimal(u)
    common.add_accessors(u)
    common.add_predicates(u)
    u.item('fpdec', 'errors::enum DecimalError')
    u.inherent('fpdec', 'unops::impl Decimal', {'fract': fract_contract(stub=fract_stub)})
    c = kernel_contract()
    c.stub = kernel_stub
    u.fn('fpdec', 'binops::rem::rem', c)


def build():
    u = Unit('rem', specs=SPECS)
    base(u, kernel_stub=False, fract_stub=False)
    idx = runner.load_sources(('fpdec',))['fpdec']
    G.add_family(u, idx, 'binops::rem', 'Rem', 'rem', rem_contract, expect=76)
    G.add_op_assign(u, idx, 'binops::rem', 'RemAssign', 'rem_assign', 'Rem', 'rem')
    return u


def build_checked():
    u = Unit('checked_rem', specs=SPECS)
    base(u, kernel_stub=True, fract_stub=True)
    idx = runner.load_sources(('fpdec',))['fpdec']
    u.trait('fpdec', 'binops::checked_rem::trait CheckedRem')
    G.add_family(u, idx, 'binops::checked_rem', 'CheckedRem', 'checked_rem', checked_rem_contract, expect=76)
    return u
