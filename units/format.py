"""C07 / C11: `From<Decimal> for String`, `Debug for Decimal`, `Display for Decimal` (src/format.rs).

`core::fmt` is outside Verus (rule R7, lib/r7fmt.py): `format!`/`write!`/`to_string` calls become stubs whose
postcondition is generated from the format-string literal, `fmt::Formatter` becomes the stand-in
`R7Formatter` (spec/std_format.rs) with an uninterpreted precision and a ghost log of what was emitted.
What is proved with the real bodies: the *arguments* handed to these primitives yield exactly the strings
of the property statements (`canonical`, `display_body`).
"""
from vgen import Unit, Contract as C, Loop
import core_kernel
import common
import r7fmt
from rsx import AnchorLost

SPEC = '''
// ---- C11: what `{:.P}` has to print (from the statement; c = coefficient, f = its fractional digits)
/// number of fractional digits printed: d's own when no precision is given, else min(P, 18)
pub open spec fn display_prec(f: nat, p: Option<usize>) -> nat {
    match p { None => f, Some(pp) => if pp <= 18 { pp as nat } else { 18 } }
}

/// |d| rounded to p fractional digits (zero-extended for p >= f), as an integer multiple of 10^-p
pub open spec fn display_coeff(c: int, f: nat, p: nat, mode: RoundingMode) -> nat {
    if p >= f { (abs_int(c) * pow10((p - f) as nat)) as nat }
    else { abs_int(round_div(c, pow10((f - p) as nat), mode)) as nat }
}

/// the digits: integer part, and iff p > 0 a point and exactly p digits
pub open spec fn display_body(c: int, f: nat, p: nat, mode: RoundingMode) -> Seq<char> {
    canonical_abs(display_coeff(c, f, p, mode), p)
}

// ---- lemmas connecting the mathematics (strings.rs) with the model of core::fmt (std_format.rs)
pub proof fn lemma_zero_pad_int_fixed(r: int, w: nat)
    requires 0 <= r < pow10(w), w >= 1
    ensures r7_zero_pad_int(r, w) == fixed(r as nat, w)
{
    lemma_zero_pad_digits(r as nat, w);
}

/// canonical(c, f) in the vocabulary of the format model
pub proof fn lemma_canonical_shape(c: int, f: nat)
    ensures ({
        let a = abs_int(c);
        let q = a / pow10(f);
        let r = a % pow10(f);
        &&& q >= 0 && 0 <= r < pow10(f)
        &&& f > 0 ==> canonical(c, f) == sign_str(c) + (r7_display_int(q) + (seq!['.'] + r7_zero_pad_int(r, f)))
        &&& f == 0 ==> canonical(c, f) == r7_display_int(c)
    })
{
    let a = abs_int(c);
    lemma_split_pow10(a as nat, f);
    let q = a / pow10(f);
    let r = a % pow10(f);
    if f > 0 {
        lemma_zero_pad_int_fixed(r, f);
    } else {
        assert(pow10(0) == 1) by { reveal_with_fuel(pow10, 2); }
        assert(q == a);
        assert(canonical(c, f) =~= r7_display_int(c));
    }
}

pub proof fn lemma_round_div_range(num: int, den: int, mode: RoundingMode)
    requires den >= 2, -i128::MAX <= num <= i128::MAX
    ensures -i128::MAX <= round_div(num, den, mode) <= i128::MAX
{
    let fl = num / den;
    let r = num % den;
    vstd::arithmetic::div_mod::lemma_fundamental_div_mod(num, den);
    vstd::arithmetic::div_mod::lemma_mod_bound(num, den);
    assert(num == den * fl + r);
    assert(fl <= round_div(num, den, mode) <= fl + 1);
    if num >= 0 {
        assert(fl >= 0) by (nonlinear_arith) requires num == den * fl + r, 0 <= r < den, num >= 0, den >= 2;
        assert(2 * fl <= num) by (nonlinear_arith) requires num == den * fl + r, 0 <= r, fl >= 0, den >= 2;
    } else {
        assert(fl >= num && fl < 0) by (nonlinear_arith) requires num == den * fl + r, 0 <= r < den, num < 0, den >= 2;
    }
}

/// C11: the three ways display_body(c, f, p) is composed, in the vocabulary of the format model
pub proof fn lemma_display_shape(c: int, f: nat, p: nat, mode: RoundingMode)
    requires -i128::MAX <= c <= i128::MAX, f <= 18, p <= 18
    ensures ({
        let a = abs_int(c);
        let q = a / pow10(f);
        let r = a % pow10(f);
        let body = display_body(c, f, p, mode);
        &&& q >= 0 && 0 <= r < pow10(f)
        &&& f == 0 ==> q == a && r == 0
        &&& p == f ==> body == (if p > 0 { r7_display_int(q) + (seq!['.'] + r7_zero_pad_int(r, p)) } else { r7_display_int(a) })
        &&& p > f ==> {
            let e = pow10((p - f) as nat);
            &&& 0 <= r * e < pow10(p) && pow10(p) <= pow10(18) && e <= pow10(18)
            &&& body == r7_display_int(q) + (seq!['.'] + r7_zero_pad_int(r * e, p))
        }
        &&& p < f ==> {
            let k = round_div(c, pow10((f - p) as nat), mode);
            let qq = abs_int(k) / pow10(p);
            let rr = abs_int(k) % pow10(p);
            &&& -i128::MAX <= k <= i128::MAX
            &&& qq >= 0 && 0 <= rr < pow10(p)
            &&& body == (if p > 0 { r7_display_int(qq) + (seq!['.'] + r7_zero_pad_int(rr, p)) } else { r7_display_int(qq) })
        }
    })
{
    let a = abs_int(c);
    lemma_split_pow10(a as nat, f);
    lemma_pow10_pos(p);
    let q = a / pow10(f);
    let r = a % pow10(f);
    assert(pow10(0) == 1) by { reveal_with_fuel(pow10, 2); }
    if f == 0 { assert(q == a && r == 0); }
    if p == f {
        assert(a * 1 == a);
        assert(display_coeff(c, f, p, mode) == a);
        if p > 0 { lemma_zero_pad_int_fixed(r, p); }
    } else if p > f {
        let e = pow10((p - f) as nat);
        let ff = pow10(f);
        lemma_pow10_pos((p - f) as nat);
        lemma_pow10_add(f, (p - f) as nat);
        assert(f + ((p - f) as nat) == p);
        assert(ff * e == pow10(p));
        lemma_pow10_mono(p, 18);
        lemma_pow10_mono((p - f) as nat, 18);
        assert(a * e == q * pow10(p) + r * e) by (nonlinear_arith) requires a == q * ff + r, ff * e == pow10(p);
        assert(0 <= r * e < pow10(p)) by (nonlinear_arith) requires 0 <= r < ff, e >= 1, ff * e == pow10(p);
        assert(a * e >= 0) by (nonlinear_arith) requires a >= 0, e >= 1;
        lemma_canonical_abs_parts((a * e) as nat, p, q, r * e);
        lemma_zero_pad_int_fixed(r * e, p);
    } else {
        let den = pow10((f - p) as nat);
        lemma_pow10_mono(1, (f - p) as nat);
        assert(pow10(1) == 10) by { reveal_with_fuel(pow10, 2); }
        lemma_round_div_range(c, den, mode);
        let k = round_div(c, den, mode);
        lemma_split_pow10(abs_int(k) as nat, p);
        if p > 0 { lemma_zero_pad_int_fixed(abs_int(k) % pow10(p), p); }
    }
}

/// C07 for to_string(): without a precision, sign and digits together are the canonical string
pub proof fn lemma_display_plain(c: int, f: nat, mode: RoundingMode)
    ensures r7_pad_integral_plain(c >= 0, display_body(c, f, f, mode)) == canonical(c, f)
{
    assert(pow10(0) == 1) by { reveal_with_fuel(pow10, 2); }
    assert(abs_int(c) * 1 == abs_int(c));
}
'''

SEQ_HINT = ('broadcast use lemma_seq_add_assoc, lemma_seq_empty_add; '
            'reveal_strlit(""); reveal_strlit("-"); '
            'assert(""@ =~= Seq::<char>::empty()); assert("-"@ =~= seq![\'-\']); '
            'lemma_pow10_values(); ')

CANON = 'canonical(%s.coeff as int, %s.n_frac_digits as nat)'
BODY = ('display_body(self.coeff as int, self.n_frac_digits as nat, '
        'display_prec(self.n_frac_digits as nat, old(form).precision_spec()), thread_default_mode())')


def string_from_contract():
    return C(pre=['valid(d)'], ret='s',
             post=[('C07.string_from.canonical', 's@ == ' + CANON % ('d', 'd'))],
             entry=SEQ_HINT + 'lemma_canonical_shape(d.coeff as int, d.n_frac_digits as nat);')


def debug_contract():
    return C(pre=['valid(*self)'],
             post=[('C07.debug.writes_exactly_Dec_canonical',
                    'final(form).log() == old(form).log().push(R7Event::Write('
                    "seq!['D', 'e', 'c', '!', '('] + " + CANON % ('self', 'self') + " + seq![')'])) ")],
             entry=SEQ_HINT + 'lemma_canonical_shape(self.coeff as int, self.n_frac_digits as nat);')


def display_contract():
    return C(pre=['valid(*self)'],
             post=[('C11.display.one_pad_integral_with_rounded_digits',
                    'final(form).log() == old(form).log().push(R7Event::PadIntegral('
                    'self.coeff >= 0, Seq::<char>::empty(), ' + BODY + '))'),
                   ('C07.to_string.canonical',
                    'old(form).precision_spec().is_none() ==> r7_pad_integral_plain(self.coeff >= 0, ' + BODY + ') == '
                    + CANON % ('self', 'self'))],
             entry=SEQ_HINT +
             'let c__ = self.coeff as int; let f__ = self.n_frac_digits as nat; '
             'let p__ = display_prec(f__, form.precision_spec()); let m__ = thread_default_mode(); '
             'assert(eff_mode(None::<RoundingMode>) == m__); '
             'lemma_display_shape(c__, f__, p__, m__); lemma_display_plain(c__, f__, m__);')


def pre_member(params, expr):
    """The quantifier domain of a method of an R7 stand-in trait (Verus: no `requires` on trait impls)."""
    return '    open spec fn r7_pre(%s) -> bool { %s }\n' % (params, expr)


def build():
    u = Unit('format', specs=['base.rs', 'rounding.rs', 'decimal.rs', 'strings.rs', 'std_format.rs'])
    u.raw(lambda mode: r7fmt.reset(), 'R7-reset')
    core_kernel.add_core_items(u)
    common.add_decimal(u, consts=False)
    common.add_accessors(u)
    u.raw(SPEC, 'format-spec')
    sf, db, dp = string_from_contract(), debug_contract(), display_contract()
    u.impl('fpdec', 'format::impl From<Decimal> for String', {'from': sf}, spec_impl='',
           extra=pre_member('d: Decimal', ' && '.join(sf.pre)))
    u.impl('fpdec', 'format::impl fmt::Debug for Decimal', {'fmt': db}, extra=pre_member('&self', ' && '.join(db.pre)))
    u.impl('fpdec', 'format::impl fmt::Display for Decimal', {'fmt': dp}, extra=pre_member('&self', ' && '.join(dp.pre)))
    # the stubs for the format literals met while rewriting the three impls (must come after them)
    u.raw(lambda mode: r7fmt.stubs_text(), 'R7-stubs')
    return u


def serde_delegation_check(idx):
    """C07, serde-as-str: `idx` is the item index of the `--features serde-as-str` expansion of fpdec.
    The derive output must delegate to String::from(Decimal) / TryFrom<String>; raises AnchorLost otherwise."""
    ser = [k for k in idx if 'Serialize for Decimal' in k and '::' not in k.split('Serialize for Decimal')[1]]
    de = [k for k in idx if 'Deserialize<' in k and k.endswith('for Decimal')]
    if len(ser) != 1 or len(de) != 1:
        raise AnchorLost('serde-as-str: Serialize/Deserialize impls for Decimal not found (%s / %s)' % (ser, de))
    st = idx[ser[0]].text
    dt = idx[de[0]].text
    import re
    if not re.search(r'_serde::Serialize::serialize\(\s*&_serde::__private\d*::Into::<String>::into\(\s*_serde::__private\d*::Clone::clone\(self\)\)', st):
        raise AnchorLost('serde-as-str: Serialize for Decimal does not serialize Into::<String>::into(self.clone())')
    if not re.search(r'<String as _serde::Deserialize>::deserialize\(__deserializer\)', dt) or \
            not re.search(r'<Self as _serde::__private\d*::TryFrom<String>>::try_from\(', dt):
        raise AnchorLost('serde-as-str: Deserialize for Decimal does not go through String and TryFrom<String>')
    return {'serialize': ser[0], 'deserialize': de[0]}
