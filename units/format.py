"""C07 / C11: `From<Decimal> for String`, `Debug for Decimal`, `Display for Decimal` (src/format.rs).

`core::fmt` is outside Verus (rule R7, lib/r7fmt.py): `format!`/`write!`/`to_string` calls become stubs whose
postcondition is generated from the format-string literal, `fmt::Formatter` becomes the stand-in
`R7Formatter` (spec/std_format.rs) with an uninterpreted precision and a ghost log of what was emitted.
What is proved with the real bodies: the *arguments* handed to these primitives yield exactly the strings
of the property statements (`canonical`, `display_body`).
"""
import re

import vgen
import rsx
from vgen import Unit, Contract as C, Loop
import core_kernel
import common
import r7fmt
from rsx import AnchorLost

SPEC = '''
// ---- C11: what `{:.P}` has to print (from the statement; c = coefficient, f = its fractional digits)
/// number of fractional digits printed: d's own when no precision is given, else min(P, 18)
pub open spec fn display_prec(f: nat, p: Option<usize>) -> nat {
    match p { None => f, Some(pp) => if pp <= 18 { pp as nat } else { 18 } }
}

/// |d| rounded to p fractional digits (zero-extended for p >= f), as an integer multiple of 10^-p
pub open spec fn display_coeff(c: int, f: nat, p: nat, mode: RoundingMode) -> nat {
    if p >= f { (abs_int(c) * pow10((p - f) as nat)) as nat }
    else { abs_int(round_div(c, pow10((f - p) as nat), mode)) as nat }
}

/// the digits: integer part, and iff p > 0 a point and exactly p digits
pub open spec fn display_body(c: int, f: nat, p: nat, mode: RoundingMode) -> Seq<char> {
    canonical_abs(display_coeff(c, f, p, mode), p)
}

// ---- lemmas connecting the mathematics (strings.rs) with the model of core::fmt (std_format.rs)
pub proof fn lemma_zero_pad_int_fixed(r: int, w: nat)
    requires 0 <= r < pow10(w), w >= 1
    ensures r7_zero_pad_int(r, w) == fixed(r as nat, w)
{
    lemma_zero_pad_digits(r as nat, w);
}

/// canonical(c, f) in the vocabulary of the format model
pub proof fn lemma_canonical_shape(c: int, f: nat)
    ensures ({
        let a = abs_int(c);
        let q = a / pow10(f);
        let r = a % pow10(f);
        &&& q >= 0 && 0 <= r < pow10(f)
        &&& f > 0 ==> canonical(c, f) == sign_str(c) + (r7_display_int(q) + (seq!['.'] + r7_zero_pad_int(r, f)))
        &&& f == 0 ==> canonical(c, f) == r7_display_int(c)
    })
{
    let a = abs_int(c);
    lemma_split_pow10(a as nat, f);
    let q = a / pow10(f);
    let r = a % pow10(f);
    if f > 0 {
        lemma_zero_pad_int_fixed(r, f);
    } else {
        assert(pow10(0) == 1) by { reveal_with_fuel(pow10, 2); }
        assert(q == a);
        assert(canonical(c, f) =~= r7_display_int(c));
    }
}

pub proof fn lemma_round_div_range(num: int, den: int, mode: RoundingMode)
    requires den >= 2, -i128::MAX <= num <= i128::MAX
    ensures -i128::MAX <= round_div(num, den, mode) <= i128::MAX
{
    let fl = num / den;
    let r = num % den;
    vstd::arithmetic::div_mod::lemma_fundamental_div_mod(num, den);
    vstd::arithmetic::div_mod::lemma_mod_bound(num, den);
    assert(num == den * fl + r);
    assert(fl <= round_div(num, den, mode) <= fl + 1);
    if num >= 0 {
        assert(fl >= 0) by (nonlinear_arith) requires num == den * fl + r, 0 <= r < den, num >= 0, den >= 2;
        assert(2 * fl <= num) by (nonlinear_arith) requires num == den * fl + r, 0 <= r, fl >= 0, den >= 2;
    } else {
        assert(fl >= num && fl < 0) by (nonlinear_arith) requires num == den * fl + r, 0 <= r < den, num < 0, den >= 2;
    }
}

/// C11: the three ways display_body(c, f, p) is composed, in the vocabulary of the format model
pub proof fn lemma_display_shape(c: int, f: nat, p: nat, mode: RoundingMode)
    requires -i128::MAX <= c <= i128::MAX, f <= 18, p <= 18
    ensures ({
        let a = abs_int(c);
        let q = a / pow10(f);
        let r = a % pow10(f);
        let body = display_body(c, f, p, mode);
        &&& q >= 0 && 0 <= r < pow10(f)
        &&& f == 0 ==> q == a && r == 0
        &&& p == f ==> body == (if p > 0 { r7_display_int(q) + (seq!['.'] + r7_zero_pad_int(r, p)) } else { r7_display_int(a) })
        &&& p > f ==> {
            let e = pow10((p - f) as nat);
            &&& 0 <= r * e < pow10(p) && pow10(p) <= pow10(18) && e <= pow10(18)
            &&& body == r7_display_int(q) + (seq!['.'] + r7_zero_pad_int(r * e, p))
        }
        &&& p < f ==> {
            let k = round_div(c, pow10((f - p) as nat), mode);
            let qq = abs_int(k) / pow10(p);
            let rr = abs_int(k) % pow10(p);
            &&& -i128::MAX <= k <= i128::MAX
            &&& qq >= 0 && 0 <= rr < pow10(p)
            &&& body == (if p > 0 { r7_display_int(qq) + (seq!['.'] + r7_zero_pad_int(rr, p)) } else { r7_display_int(qq) })
        }
    })
{
    let a = abs_int(c);
    lemma_split_pow10(a as nat, f);
    lemma_pow10_pos(p);
    let q = a / pow10(f);
    let r = a % pow10(f);
    assert(pow10(0) == 1) by { reveal_with_fuel(pow10, 2); }
    if f == 0 { assert(q == a && r == 0); }
    if p == f {
        assert(a * 1 == a);
        assert(display_coeff(c, f, p, mode) == a);
        if p > 0 { lemma_zero_pad_int_fixed(r, p); }
    } else if p > f {
        let e = pow10((p - f) as nat);
        let ff = pow10(f);
        lemma_pow10_pos((p - f) as nat);
        lemma_pow10_add(f, (p - f) as nat);
        assert(f + ((p - f) as nat) == p);
        assert(ff * e == pow10(p));
        lemma_pow10_mono(p, 18);
        lemma_pow10_mono((p - f) as nat, 18);
        assert(a * e == q * pow10(p) + r * e) by (nonlinear_arith) requires a == q * ff + r, ff * e == pow10(p);
        assert(0 <= r * e < pow10(p)) by (nonlinear_arith) requires 0 <= r < ff, e >= 1, ff * e == pow10(p);
        assert(a * e >= 0) by (nonlinear_arith) requires a >= 0, e >= 1;
        lemma_canonical_abs_parts((a * e) as nat, p, q, r * e);
        lemma_zero_pad_int_fixed(r * e, p);
    } else {
        let den = pow10((f - p) as nat);
        lemma_pow10_mono(1, (f - p) as nat);
        assert(pow10(1) == 10) by { reveal_with_fuel(pow10, 2); }
        lemma_round_div_range(c, den, mode);
        let k = round_div(c, den, mode);
        lemma_split_pow10(abs_int(k) as nat, p);
        if p > 0 { lemma_zero_pad_int_fixed(abs_int(k) % pow10(p), p); }
    }
}

/// C07 for to_string(): without a precision, sign and digits together are the canonical string
pub proof fn lemma_display_plain(c: int, f: nat, mode: RoundingMode)
    ensures r7_pad_integral_plain(c >= 0, display_body(c, f, f, mode)) == canonical(c, f)
{
    assert(pow10(0) == 1) by { reveal_with_fuel(pow10, 2); }
    assert(abs_int(c) * 1 == abs_int(c));
}
'''

SEQ_HINT = ('broadcast use lemma_seq_add_assoc, lemma_seq_empty_add; '
            'reveal_strlit(""); reveal_strlit("-"); '
            'assert(""@ =~= Seq::<char>::empty()); assert("-"@ =~= seq![\'-\']); '
            'lemma_pow10_values(); ')

CANON = 'canonical(%s.coeff as int, %s.n_frac_digits as nat)'
BODY = ('display_body(self.coeff as int, self.n_frac_digits as nat, '
        'display_prec(self.n_frac_digits as nat, old(form).precision_spec()), thread_default_mode())')


def string_from_contract():
    return C(pre=['valid(d)'], ret='s',
             post=[('C07.string_from.canonical', 's@ == ' + CANON % ('d', 'd'))],
             entry=SEQ_HINT + 'lemma_canonical_shape(d.coeff as int, d.n_frac_digits as nat);')


def debug_contract():
    return C(pre=['valid(*self)'],
             post=[('C07.debug.writes_exactly_Dec_canonical',
                    'final(form).log() == old(form).log().push(R7Event::Write('
                    "seq!['D', 'e', 'c', '!', '('] + " + CANON % ('self', 'self') + " + seq![')'])) ")],
             entry=SEQ_HINT + 'lemma_canonical_shape(self.coeff as int, self.n_frac_digits as nat);')


def display_contract():
    return C(pre=['valid(*self)'],
             post=[('C11.display.one_pad_integral_with_rounded_digits',
                    'final(form).log() == old(form).log().push(R7Event::PadIntegral('
                    'self.coeff >= 0, Seq::<char>::empty(), ' + BODY + '))'),
                   ('C07.to_string.canonical',
                    'old(form).precision_spec().is_none() ==> r7_pad_integral_plain(self.coeff >= 0, ' + BODY + ') == '
                    + CANON % ('self', 'self'))],
             entry=SEQ_HINT +
             'let c__ = self.coeff as int; let f__ = self.n_frac_digits as nat; '
             'let p__ = display_prec(f__, form.precision_spec()); let m__ = thread_default_mode(); '
             'assert(eff_mode(None::<RoundingMode>) == m__); '
             'lemma_display_shape(c__, f__, p__, m__); lemma_display_plain(c__, f__, m__);')


R7_TRAITS = {'Debug': 'R7Debug', 'Display': 'R7Display', 'From': 'R7From'}
R7_POSTS = 2


class FmtUnit(Unit):
    """The three impls are impls of the stand-in traits R7Debug / R7Display / R7From (spec/std_format.rs),
    whose contract is carried by the ghost members r7_pre / r7_post<i> (same mechanism as vgen uses for the
    crate's own traits, but with `&mut` parameters split into their value before / after the call)."""

    def __init__(self, *a, **k):
        Unit.__init__(self, *a, **k)
        self.crate_traits |= set(R7_TRAITS)

    def _ghost_defs(self, ch, c, mode):
        text = vgen.rewrite_body(vgen.strip_attrs_and_comments(ch.text))
        sig, _ = rsx.fn_parts(text)
        ps = vgen.parse_sig(sig)
        plist = []
        subst = []
        for nm, ty, slf in ps['params']:
            if slf:
                plist.append(slf)
            elif ty.startswith('&mut '):
                t = ty[len('&mut '):].strip()
                plist += ['%s__before: %s' % (nm, t), '%s__after: %s' % (nm, t)]
                subst += [(r'old\(%s\)' % nm, nm + '__before'), (r'final\(%s\)' % nm, nm + '__after')]
            else:
                plist.append('%s: %s' % (nm, ty))
        pre = list(c.pre) + ([x for (_, x) in c.ok] if c.ok is not None and mode == 'F' else [])
        post = ([x for (_, x) in c.ok] if c.ok is not None and mode != 'F' else []) + [x for (_, x) in c.post]
        if len(post) > R7_POSTS:
            raise AnchorLost('more than %d post clauses on an R7 trait method' % R7_POSTS)
        # the precondition is over the non-&mut parameters only (an expression naming one does not resolve)
        pre_params = [p for p in plist if '__before: ' not in p and '__after: ' not in p]
        out = '    open spec fn r7_pre(%s) -> bool { %s }\n' % (', '.join(pre_params), vgen._conj(pre))
        ret = ps['ret'] or '()'
        for i in range(R7_POSTS):
            e = post[i] if i < len(post) else 'true'
            for a, b in subst:
                e = re.sub(a, b, e)
            if re.search(r'\b(old|final)\(', e):
                raise AnchorLost('R7 trait post clause: old()/final() of something that is not a &mut parameter')
            out += '    open spec fn r7_post%d(%s) -> bool { %s }\n' % (
                i, ', '.join(plist + ['%s: %s' % (c.ret, ret)]), e)
        return out

    def generate(self, sources, mode):
        text, linemap, meta = Unit.generate(self, sources, mode)
        # name the trait-level `ensures` lines so that a failing clause is reported by its contract name
        for n, line in enumerate(text.split('\n'), 1):
            m = re.search(r'// @(post\d+) (R7\w+)\s*$', line)
            if m:
                linemap[n] = ('ens', 'trait ' + m.group(2), m.group(1))
        return text, linemap, meta


def build():
    u = FmtUnit('format', specs=['base.rs', 'rounding.rs', 'decimal.rs', 'strings.rs', 'std_format.rs'],
                uses=['use core::cmp::min;'])   # format.rs: `use core::cmp::{min, Ordering}`
    # the global commutativity broadcast (vgen) costs this unit its resource limit (string/sequence reasoning
    # plus many product terms in the digit lemmas): switched off here
    u.mul_comm = False
    u.raw(lambda mode: r7fmt.reset(), 'R7-reset')
    core_kernel.add_core_items(u)
    common.add_decimal(u, consts=False)
    common.add_accessors(u)
    u.raw(SPEC, 'format-spec')
    u.impl('fpdec', 'format::impl From<Decimal> for String', {'from': string_from_contract()}, spec_impl='')
    u.impl('fpdec', 'format::impl fmt::Debug for Decimal', {'fmt': debug_contract()})
    u.impl('fpdec', 'format::impl fmt::Display for Decimal', {'fmt': display_contract()})
    # the stubs for the format literals met while rewriting the three impls (must come after them)
    u.raw(lambda mode: r7fmt.stubs_text(), 'R7-stubs')
    return u


ROUNDTRIP = '''
// ---- C07 round trip: the canonical string read by the C06 literal grammar (spec/parse.rs) gives back (c, f).
// Pure mathematics (no code of /repo involved); the parser's own contract (units/parser.py) states that
// `Decimal::from_str` computes parse_decimal_spec of the string's bytes.

/// the bytes of a string of ASCII characters (for these, UTF-8 is one byte per character, the code point)
pub open spec fn ascii_bytes(s: Seq<char>) -> Seq<u8> { Seq::new(s.len(), |i: int| s[i] as u8) }

pub proof fn lemma_ascii_digits(s: Seq<char>)
    requires all_digit_chars(s)
    ensures all_digits(ascii_bytes(s)), digits_value(ascii_bytes(s)) == dec_value(s)
    decreases s.len()
{
    let b = ascii_bytes(s);
    assert forall|i: int| 0 <= i < b.len() implies is_digit(#[trigger] b[i]) by { assert(is_digit_char(s[i])); }
    if s.len() > 0 {
        let t = s.drop_last();
        assert forall|i: int| 0 <= i < t.len() implies is_digit_char(#[trigger] t[i]) by { assert(t[i] == s[i]); }
        lemma_ascii_digits(t);
        assert(b.drop_last() =~= ascii_bytes(t));
        assert(is_digit_char(s[s.len() - 1]));
        assert(digit_val(b.last()) == digit_char_val(s.last()));
    }
}

/// k digits followed by a non-digit or the end: the digit run is exactly k
pub proof fn lemma_digit_run_exact(s: Seq<u8>, k: int)
    requires 0 <= k <= s.len(), all_digits(s.take(k)), k < s.len() ==> !is_digit(s[k])
    ensures digit_run(s) == k
{
    lemma_digit_run_split(s, k);
    if k < s.len() { assert(s.skip(k)[0] == s[k]); }
}

pub proof fn lemma_round_trip(c: int, f: nat)
    requires -max_coeff() <= c <= max_coeff(), f <= 18
    ensures parse_decimal_spec(ascii_bytes(canonical(c, f))) == Some((c, f as int))
{
    lemma_canonical_is_literal(c, f);
    let m = abs_int(c) as nat;
    let ip = digits((m as int / pow10(f)) as nat);
    let fp = fixed((m as int % pow10(f)) as nat, f);
    let b = ascii_bytes(canonical(c, f));
    let ipb = ascii_bytes(ip);
    let fpb = ascii_bytes(fp);
    lemma_ascii_digits(ip);
    lemma_ascii_digits(fp);
    let sg: Seq<u8> = if c < 0 { seq![0x2du8] } else { Seq::<u8>::empty() };
    let tail: Seq<u8> = if f > 0 { seq![0x2eu8] + fpb } else { Seq::<u8>::empty() };
    assert(b =~= sg + (ipb + tail));
    assert(is_digit(ipb[0]));
    let s1 = after_sign(b);
    assert(s1 =~= ipb + tail);
    let ni = ip.len() as int;
    assert(s1.take(ni) =~= ipb);
    lemma_digit_run_exact(s1, ni);
    let s2 = s1.skip(ni);
    assert(s2 =~= tail);
    let s3 = if f > 0 { s2.skip(1) } else { s2 };
    assert(s3 =~= fpb);
    let nf = f as int;
    assert(s3.take(nf) =~= fpb);
    lemma_digit_run_exact(s3, nf);
    assert(s3.skip(nf).len() == 0);
    assert forall|i: int| 0 <= i < (ip + fp).len() implies is_digit_char(#[trigger] (ip + fp)[i]) by {
        if i < ip.len() { assert((ip + fp)[i] == ip[i]); } else { assert((ip + fp)[i] == fp[i - ip.len()]); }
    }
    lemma_ascii_digits(ip + fp);
    assert(ipb + fpb =~= ascii_bytes(ip + fp));
    assert(pow10(0) == 1) by { reveal_with_fuel(pow10, 2); }
    assert(abs_int(c) * 1 == abs_int(c));
}

/// UTF-8 encodes an ASCII character as the single byte of its code point (definition of UTF-8).  `utf8`
/// (spec/std_parse.rs) is what `str::as_bytes` returns; it is uninterpreted there, this is the one fact used.
#[verifier::external_body]
pub proof fn axiom_utf8_ascii(s: Seq<char>)
    requires forall|i: int| 0 <= i < s.len() ==> (#[trigger] s[i]) as u32 <= 0x7f
    ensures utf8(s) == ascii_bytes(s)
{
}

/// C07: what `Decimal::from_str` has to return (its contract, C06) for the bytes of the canonical string
pub proof fn lemma_round_trip_str(c: int, f: nat)
    requires -max_coeff() <= c <= max_coeff(), f <= 18
    ensures parse_decimal_spec(utf8(canonical(c, f))) == Some((c, f as int))
{
    lemma_canonical_is_literal(c, f);
    lemma_round_trip(c, f);
    let m = abs_int(c) as nat;
    let ip = digits((m as int / pow10(f)) as nat);
    let fp = fixed((m as int % pow10(f)) as nat, f);
    let s = canonical(c, f);
    let sg = if c < 0 { seq!['-'] } else { Seq::<char>::empty() };
    let tail = if fp.len() > 0 { seq!['.'] + fp } else { Seq::<char>::empty() };
    assert(s == sg + (ip + tail));
    assert forall|i: int| 0 <= i < s.len() implies (#[trigger] s[i]) as u32 <= 0x7f by {
        if i < sg.len() {
            assert(s[i] == '-');
        } else if i < sg.len() + ip.len() {
            assert(s[i] == ip[i - sg.len()]);
            assert(is_digit_char(ip[i - sg.len()]));
        } else {
            let j = i - sg.len() - ip.len();
            assert(s[i] == tail[j]);
            if j > 0 { assert(tail[j] == fp[j - 1]); assert(is_digit_char(fp[j - 1])); }
        }
    }
    axiom_utf8_ascii(s);
}
'''


def build_roundtrip():
    # C07, second sentence: spec-level lemma only, independent of /repo's text
    u = Unit('format_roundtrip', specs=['base.rs', 'strings.rs', 'parse.rs', 'std_parse.rs'])
    u.raw(ROUNDTRIP, 'roundtrip')
    # serde-as-str half of C07: inspection fact on the feature's expansion (AnchorLost -> exit 2 if it changes)
    u.raw(_serde_note, 'serde-as-str')
    return u


def _serde_note(mode):
    import runner
    serde_delegation_check(runner.load_sources(('fpdec',), ('serde-as-str',))['fpdec'])
    return ('// serde-as-str (checked on the --features serde-as-str expansion): Serialize = serialize(&Into::<String>::into('
            'self.clone())), Deserialize = String::deserialize(..).and_then(TryFrom::<String>::try_from), '
            'TryFrom<String> = Self::from_str(lit.as_str())')


def serde_delegation_check(idx):
    """C07, serde-as-str: `idx` is the item index of the `--features serde-as-str` expansion of fpdec
    (runner.load_sources(('fpdec',), ('serde-as-str',))['fpdec']).  Inspection fact, checked mechanically:
    the derive output (`#[serde(into = "String", try_from = "String")]`) serializes
    `Into::<String>::into(self.clone())` - i.e. `String::from(Decimal)` via the blanket `Into` - and
    deserializes a `String` which it hands to `TryFrom<String> for Decimal`, which in turn is
    `Self::from_str(lit.as_str())`.  serde's derive output and the (de)serializer are trusted dependencies.
    Raises AnchorLost if the expansion no longer has this shape."""
    blocks = idx.get('const _')
    if blocks is None:
        raise AnchorLost('serde-as-str: no derive output (`const _: () = {..}`) in the expansion')
    blocks = blocks if isinstance(blocks, list) else [blocks]
    texts = [rsx.ws_norm(b.text) for b in blocks]
    ser = [t for t in texts if re.search(r'impl _serde::Serialize for Decimal\b', t)]
    de = [t for t in texts if re.search(r"impl<'de> _serde::Deserialize<'de> for Decimal\b", t)]
    if len(ser) != 1 or len(de) != 1:
        raise AnchorLost('serde-as-str: Serialize / Deserialize impls for Decimal not found (%d / %d)' % (len(ser), len(de)))
    if not re.search(r'_serde::Serialize::serialize\(\s*&\s*_serde::__private\d*::Into::<String>::into\(\s*'
                     r'_serde::__private\d*::Clone::clone\(self\)\s*\)\s*,\s*__serializer\s*\)', ser[0]):
        raise AnchorLost('serde-as-str: Serialize for Decimal is not serialize(&Into::<String>::into(self.clone()), ..)')
    if not re.search(r'Result::and_then\(\s*<String as _serde::Deserialize>::deserialize\(__deserializer\)\s*,\s*'
                     r'\|v\|\s*_serde::__private\d*::TryFrom::try_from\(v\)\.map_err\(_serde::de::Error::custom\)\s*\)', de[0]):
        raise AnchorLost('serde-as-str: Deserialize for Decimal is not String::deserialize(..).and_then(TryFrom::try_from)')
    for k in ('format::impl From<Decimal> for String::from', 'from_str::impl TryFrom<String> for Decimal::try_from'):
        if k not in idx or isinstance(idx[k], list):
            raise AnchorLost('serde-as-str: %s missing or ambiguous' % k)
    if len([k for k in idx if re.search(r'impl (<.*> )?(Into<String> for Decimal|From<Decimal> for String)$', k)]) != 1:
        raise AnchorLost('serde-as-str: more than one conversion Decimal -> String')
    tf = rsx.ws_norm(vgen.strip_attrs_and_comments(idx['from_str::impl TryFrom<String> for Decimal::try_from'].text))
    if not re.search(r'\{\s*(?:Self|Decimal|<Decimal as (?:core::str::)?FromStr>)::from_str\(\s*&?\s*[a-z_][a-z0-9_]*\.as_str\(\)\s*\)\s*\}$', tf):
        raise AnchorLost('serde-as-str: TryFrom<String> for Decimal is not Self::from_str(lit.as_str())')
    return True
