"""Items of crate fpdec shared by most units."""
from vgen import Unit, Contract as C, Loop

DEC_CONSTS = ['const ZERO', 'const ONE', 'const NEG_ONE', 'const TWO', 'const TEN', 'const MAX', 'const MIN', 'const DELTA']


def add_decimal(u, consts=True, new_raw=False):
    u.item('fpdec', 'struct Decimal')
    members = {}
    if consts:
        for c in DEC_CONSTS:
            members[c] = None
    if members:
        u.inherent('fpdec', 'impl Decimal', members)


def add_accessors(u):
    u.inherent('fpdec', 'impl Decimal', {
        'coefficient': C(post=[('coefficient', 'r == self.coeff')]),
        'n_frac_digits': C(post=[('n_frac_digits', 'r == self.n_frac_digits')]),
    })


def predicate_contracts():
    return {
        'eq_zero': C(post=[('C15.eq_zero', 'r <==> self.coeff == 0')]),
        'eq_one': C(pre=['self.n_frac_digits <= 38'],
                    post=[('C15.eq_one', 'r <==> self.coeff == pow10(self.n_frac_digits as nat)')]),
        'is_negative': C(post=[('C15.is_negative', 'r <==> self.coeff < 0')]),
        'is_positive': C(post=[('C15.is_positive', 'r <==> self.coeff > 0')]),
    }


def add_predicates(u, verify=False):
    cs = predicate_contracts()
    if not verify:
        for c in cs.values():
            c.stub = True
    u.inherent('fpdec', 'binops::cmp::impl Decimal', cs)


NORMALIZE_SPEC = """
pub proof fn lemma_strip_props(c: int, n: nat)
    ensures
        strip(c, n).1 <= n,
        c != 0 ==> strip(c, n).0 != 0,
        abs_int(strip(c, n).0) <= abs_int(c),
    decreases n
{
    if c != 0 && n > 0 && c % 10 == 0 {
        lemma_strip_props(c / 10, (n - 1) as nat);
    }
}
"""


def normalize_contract():
    return C(
        post=[('C03.normalize.strip', '(*final(coeff) as int, *final(n_frac_digits) as nat) == strip(*old(coeff) as int, *old(n_frac_digits) as nat)')],
        ret='r',
        loops=[Loop(inv=['*coeff != 0',
                         'strip(*coeff as int, *n_frac_digits as nat) == strip(*old(coeff) as int, *old(n_frac_digits) as nat)'],
                    dec='*n_frac_digits')])


def add_normalize(u, verify=False):
    c = normalize_contract()
    if not verify:
        c.stub = True
    u.fn('fpdec', 'normalize', c)
