"""Items of crate fpdec shared by most units."""
from vgen import Unit, Contract as C, Loop

DEC_CONSTS = ['const ZERO', 'const ONE', 'const NEG_ONE', 'const TWO', 'const TEN', 'const MAX', 'const MIN', 'const DELTA']


def add_decimal(u, consts=True, new_raw=False):
    u.item('fpdec', 'struct Decimal')
    members = {}
    if consts:
        for c in DEC_CONSTS:
            members[c] = None
    if members:
        u.inherent('fpdec', 'impl Decimal', members)


def add_accessors(u):
    u.inherent('fpdec', 'impl Decimal', {
        'coefficient': C(post=[('coefficient', 'r == self.coeff')]),
        'n_frac_digits': C(post=[('n_frac_digits', 'r == self.n_frac_digits')]),
    })


def predicate_contracts():
    return {
        'eq_zero': C(post=[('C15.eq_zero', 'r <==> self.coeff == 0')]),
        'eq_one': C(pre=['self.n_frac_digits <= 38'],
                    post=[('C15.eq_one', 'r <==> self.coeff == pow10(self.n_frac_digits as nat)')]),
        'is_negative': C(post=[('C15.is_negative', 'r <==> self.coeff < 0')]),
        'is_positive': C(post=[('C15.is_positive', 'r <==> self.coeff > 0')]),
    }


def add_predicates(u, verify=False):
    cs = predicate_contracts()
    if not verify:
        for c in cs.values():
            c.stub = True
    u.inherent('fpdec', 'binops::cmp::impl Decimal', cs)
