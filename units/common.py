"""Items of crate fpdec shared by most units."""
from vgen import Unit, Contract as C, Loop

DEC_CONSTS = ['const ZERO', 'const ONE', 'const NEG_ONE', 'const TWO', 'const TEN', 'const MAX', 'const MIN', 'const DELTA']


def add_decimal(u, consts=True, new_raw=False):
    u.item('fpdec', 'struct Decimal')
    members = {}
    if consts:
        for c in DEC_CONSTS:
            members[c] = None
    if members:
        u.inherent('fpdec', 'impl Decimal', members)
