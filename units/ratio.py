"""C09: gcd_special, AsIntegerRatio for Decimal (as_integer_ratio / numerator / denominator),
Hash for Decimal.

Mathematics: spec/numtheory.rs (divides, is_gcd, gcd, reduced fractions; all proved).
Assumed std semantics: spec/std_ratio.rs (i128::abs, i128::trailing_zeros, cmp::min, tuple Hash).
"""
from vgen import Unit, Contract as C, Loop
import core_kernel
import common

SPEC = '''
// ---- C09 vocabulary: the reduced fraction of a Decimal (value = coeff / 10^n_frac_digits)

/// p = (n, d) is the value of `x` in lowest terms: n/d == coeff/10^scale, d > 0, gcd(|n|, d) == 1
pub open spec fn is_reduced_of(x: Decimal, p: (int, int)) -> bool {
    is_reduced_ratio(x.coeff as int, x.n_frac_digits as nat, p.0, p.1)
}

/// *the* reduced fraction of x (unique by lemma_reduced_pair_unique, exists by lemma_reduced_pair_exists)
pub open spec fn reduced_pair(x: Decimal) -> (int, int) {
    choose|p: (int, int)| is_reduced_of(x, p)
}

/// the reduced fraction as the pair of machine integers that is handed to the hasher
pub open spec fn hashed_pair(x: Decimal) -> (i128, i128) {
    (reduced_pair(x).0 as i128, reduced_pair(x).1 as i128)
}

pub proof fn lemma_reduced_pair_exists(x: Decimal)
    ensures is_reduced_of(x, reduced_pair(x))
{
    let c = x.coeff as int;
    let f = x.n_frac_digits as nat;
    lemma_pow10_pos(f);
    lemma_gcd_is_gcd(abs_int(c) as nat, pow10(f) as nat);
    let g = gcd(abs_int(c) as nat, pow10(f) as nat) as int;
    lemma_reduced_by_gcd(c, f, g);
    assert(is_reduced_of(x, (trunc_div(c, g), pow10(f) / g)));
}

pub proof fn lemma_reduced_pair_unique(x: Decimal, p: (int, int))
    requires is_reduced_of(x, p)
    ensures p == reduced_pair(x)
{
    let q = reduced_pair(x);
    let f = x.n_frac_digits as nat;
    lemma_equal_value_cross(x.coeff as int, f, x.coeff as int, f, f, p.0, p.1, q.0, q.1);
    lemma_reduced_fraction_unique(p.0, p.1, q.0, q.1);
}

/// equal value ==> equal reduced fraction (any two representations: trailing zeros, 0 at any scale)
pub proof fn lemma_equal_value_equal_ratio(x: Decimal, y: Decimal)
    requires val_cmp(x, y) == 0
    ensures reduced_pair(x) == reduced_pair(y), hashed_pair(x) == hashed_pair(y)
{
    lemma_reduced_pair_exists(x);
    lemma_reduced_pair_exists(y);
    let p = reduced_pair(x);
    let q = reduced_pair(y);
    let m = max_u8(x.n_frac_digits, y.n_frac_digits);
    let fx = x.n_frac_digits as nat;
    let fy = y.n_frac_digits as nat;
    assert(pow10(0) == 1);
    assert(x.coeff * 1 == x.coeff && y.coeff * 1 == y.coeff);
    assert(at_scale(x, m) == x.coeff * pow10((m - fx) as nat));
    assert(at_scale(y, m) == y.coeff * pow10((m - fy) as nat));
    lemma_equal_value_cross(x.coeff as int, fx, y.coeff as int, fy, m as nat, p.0, p.1, q.0, q.1);
    lemma_reduced_fraction_unique(p.0, p.1, q.0, q.1);
}

/// C09 "equal ==> same hash": Decimals that compare equal put any hasher into the same state
pub proof fn lemma_equal_value_equal_hash<S>(x: Decimal, y: Decimal, s: S)
    requires val_cmp(x, y) == 0
    ensures hash_fed::<(i128, i128), S>(s, hashed_pair(x)) == hash_fed::<(i128, i128), S>(s, hashed_pair(y))
{
    lemma_equal_value_equal_ratio(x, y);
}

/// C09 "hash(d) == hash(d.as_integer_ratio())": a pair r with the postcondition of as_integer_ratio
/// is hashed_pair(d), so feeding r puts the hasher into the state that `Hash::hash for Decimal` ensures
pub proof fn lemma_hash_is_hash_of_ratio<S>(x: Decimal, r: (i128, i128), s: S)
    requires is_reduced_of(x, (r.0 as int, r.1 as int))
    ensures r == hashed_pair(x), hash_fed::<(i128, i128), S>(s, r) == hash_fed::<(i128, i128), S>(s, hashed_pair(x))
{
    lemma_reduced_pair_unique(x, (r.0 as int, r.1 as int));
}

/// what the three methods compute from g = gcd(|coeff|, 10^scale), in the machine's truncating division
pub open spec fn ratio_by_gcd(x: Decimal, g: int) -> bool {
    let c = x.coeff as int;
    let p = pow10(x.n_frac_digits as nat);
    &&& g > 0
    &&& vstd::arithmetic::div_mod::rust_div(c, g) == trunc_div(c, g)
    &&& vstd::arithmetic::div_mod::rust_div(p, g) == p / g
    &&& (trunc_div(c, g), p / g) == reduced_pair(x)
    &&& abs_int(trunc_div(c, g)) <= abs_int(c)
    &&& 0 < p / g <= p
}

pub proof fn lemma_ratio_by_gcd(x: Decimal, g: int)
    requires is_gcd(abs_int(x.coeff as int), pow10(x.n_frac_digits as nat), g)
    ensures ratio_by_gcd(x, g)
{
    let c = x.coeff as int;
    let f = x.n_frac_digits as nat;
    lemma_pow10_pos(f);
    lemma_reduced_by_gcd(c, f, g);
    lemma_reduced_pair_unique(x, (trunc_div(c, g), pow10(f) / g));
    lemma_rust_div(c, g);
    lemma_rust_div(pow10(f), g);
}

/// integers (scale 0) and zero (at any scale) reduce to (coeff, 1)
pub proof fn lemma_ratio_integer(x: Decimal)
    requires x.n_frac_digits == 0 || x.coeff == 0
    ensures reduced_pair(x) == (x.coeff as int, 1int)
{
    let c = x.coeff as int;
    lemma_divides_refl(abs_int(c));
    lemma_divides_refl(1);
    assert(is_gcd(abs_int(c), 1, 1));
    assert(pow10(0) == 1);
    assert(c * 1 == c);
    assert(0 * pow10(x.n_frac_digits as nat) == 0);
    lemma_reduced_pair_unique(x, (c, 1));
}
'''

# ---- gcd_special -----------------------------------------------------------------------------

SHIFT_FACTS = (
    'assert forall|x__: i128, k__: u32| x__ >= 0 && k__ < 128 implies #[trigger] (x__ >> k__) == (x__ as int) / pow2i(k__ as nat) '
    'by { lemma_i128_shr(x__, k__); } ')
SHL_FACTS = (
    'assert forall|x__: i128, k__: u32| x__ >= 0 && k__ < 128 && x__ * pow2i(k__ as nat) <= i128::MAX implies '
    '#[trigger] (x__ << k__) == x__ * pow2i(k__ as nat) by { lemma_i128_shl(x__, k__); } ')

GCD_ENTRY = (
    'let a__ = abs_int(numer as int); let e__ = denom_exp as nat; '
    'lemma_pow10_values(); lemma_pow10_split(e__); lemma_pow5_odd(e__); '
    'assert forall|k__: nat| #[trigger] exact_pow2(a__, k__) implies gcd_pow10_split(a__, e__, k__) by { lemma_gcd_pow10(a__, e__, k__); } '
    + SHIFT_FACTS + SHL_FACTS)

GCD_BODY = (
    'assert forall|k__: nat| #[trigger] exact_pow2(v as int, k__) implies gcd_strip_subtract(u as nat, v as nat, k__) '
    'by { lemma_gcd_strip_subtract(u as nat, v as nat, k__); } '
    + SHIFT_FACTS)

GCD_LOOP = Loop(
    inv=['numer != 0', 'numer > i128::MIN', 'denom_exp <= 38', 'utz < 128',
         'exact_pow2(abs_int(numer as int), utz as nat)',
         'u > 0', 'is_odd(u as int)', 'v >= 0',
         # gcd(u, v) is constant: it is gcd(|numer| / 2^utz, 5^denom_exp)
         'gcd(u as nat, v as nat) == gcd((abs_int(numer as int) / pow2i(utz as nat)) as nat, pow5(denom_exp as nat) as nat)'],
    dec='u + v',
    body_entry=GCD_BODY)


def gcd_special_contract():
    return C(
        pre=['numer != 0', 'numer > i128::MIN', 'denom_exp <= 38'],
        post=[('C09.gcd_special.is_gcd', 'is_gcd(abs_int(numer as int), pow10(denom_exp as nat), r as int)')],
        entry=GCD_ENTRY, loops=[GCD_LOOP])


# ---- AsIntegerRatio for Decimal ------------------------------------------------------------------

RATIO_ENTRY = (
    'let c__ = self.coeff as int; let f__ = self.n_frac_digits as nat; '
    'lemma_pow10_values(); lemma_pow10_mono(f__, 18); lemma_pow10_pos(f__); '
    'lemma_reduced_pair_exists(self); '
    'assert forall|g__: int| #[trigger] is_gcd(abs_int(c__), pow10(f__), g__) implies ratio_by_gcd(self, g__) by { lemma_ratio_by_gcd(self, g__); } '
    'if self.n_frac_digits == 0 || self.coeff == 0 { lemma_ratio_integer(self); }')


def ratio_contracts():
    return {
        'as_integer_ratio': C(
            pre=['valid(self)'],
            post=[('C09.ratio.value', 'r.0 * pow10(self.n_frac_digits as nat) == self.coeff * r.1'),
                  ('C09.ratio.denominator_positive', 'r.1 > 0'),
                  ('C09.ratio.lowest_terms', 'is_gcd(abs_int(r.0 as int), r.1 as int, 1)'),
                  ('C09.ratio.unique', '(r.0 as int, r.1 as int) == reduced_pair(self)')],
            entry=RATIO_ENTRY),
        'numerator': C(
            pre=['valid(self)'],
            post=[('C09.numerator', 'r == reduced_pair(self).0')],
            entry=RATIO_ENTRY),
        'denominator': C(
            pre=['valid(self)'],
            post=[('C09.denominator', 'r == reduced_pair(self).1')],
            entry=RATIO_ENTRY),
    }


# ---- the trait's default method `as_integer_ratio` = (self.numerator(), self.denominator()) --------------
# At trait level the three methods only have the abstract ghost contracts (<m>_pre / <m>_post<i>).
# The default body is verified against them under one extra ghost member, a proof obligation that
# every impl has to discharge: wherever as_integer_ratio may be called, numerator and denominator
# may be called, and the pair of their results satisfies the contract of as_integer_ratio.

def _trait_ghost():
    import vgen
    n = range(vgen.TRAIT_POSTS)
    num = ' && '.join('self.numerator_post%d(n)' % i for i in n)
    den = ' && '.join('self.denominator_post%d(d)' % i for i in n)
    rat = ' && '.join('self.as_integer_ratio_post%d((n, d))' % i for i in n)
    return (
        '    proof fn default_as_integer_ratio_consistent(self)\n'
        '        ensures\n'
        '            self.as_integer_ratio_pre() ==> self.numerator_pre() && self.denominator_pre(),\n'
        '            forall|n: i128, d: i128| #![trigger self.numerator_post0(n), self.denominator_post0(d)]\n'
        '                self.as_integer_ratio_pre() && %s && %s\n'
        '                ==> %s;\n' % (num, den, rat))


DECIMAL_CONSISTENT = '''
    proof fn default_as_integer_ratio_consistent(self) {
        lemma_reduced_pair_exists(self);
    }
'''


# ---- blanket impl for the primitive integers (T with i128: From<T>): numerator = the integer, denominator = 1.
# Not part of C09's quantifier (Decimals); included because it shares the trait and uses the default
# `as_integer_ratio`.  `i128::from` is specified by vstd's FromSpec (+ spec/std_assumed.rs for the unsigned sources).
FROM_OBEYS = '<i128 as vstd::std_specs::convert::FromSpec<T>>::obeys_from_spec()'
FROM_SPEC = '<i128 as vstd::std_specs::convert::FromSpec<T>>::from_spec(self)'


def int_contracts():
    return {
        'numerator': C(post=[('C09.int.numerator', '%s ==> r == %s' % (FROM_OBEYS, FROM_SPEC))]),
        'denominator': C(post=[('C09.int.denominator', 'r == 1')]),
    }


def _int_extra():
    import vgen
    out = '    open spec fn as_integer_ratio_pre(self) -> bool { true }\n'
    out += ('    open spec fn as_integer_ratio_post0(self, r: (i128, i128)) -> bool { r.1 == 1 && (%s ==> r.0 == %s) }\n'
            % (FROM_OBEYS, FROM_SPEC))
    for i in range(1, vgen.TRAIT_POSTS):
        out += '    open spec fn as_integer_ratio_post%d(self, r: (i128, i128)) -> bool { true }\n' % i
    out += '    proof fn default_as_integer_ratio_consistent(self) { }\n'
    return out


HASH_ENTRY = 'lemma_reduced_pair_exists(*self);'


def hash_contracts():
    return {
        'hash': C(
            pre=['valid(*self)'],
            post=[('C09.hash.feeds_reduced_pair',
                   '*final(state) == hash_fed::<(i128, i128), H>(*old(state), hashed_pair(*self))')],
            entry=HASH_ENTRY, impl_requires=True),
    }


def build():
    u = Unit('ratio', specs=['base.rs', 'rounding.rs', 'decimal.rs', 'numtheory.rs', 'std_assumed.rs', 'std_ratio.rs'],
             uses=['use core::{cmp::min, mem};', 'use core::hash::{Hash, Hasher};'])
    core_kernel.add_core_items(u)
    common.add_decimal(u)
    u.raw(SPEC, 'ratio-spec')
    u.fn('fpdec', 'as_integer_ratio::gcd_special', gcd_special_contract())
    u.trait('fpdec', 'as_integer_ratio::trait AsIntegerRatio',
            methods={'as_integer_ratio': C(entry='self.default_as_integer_ratio_consistent();')},
            ghost=_trait_ghost())
    u.impl('fpdec', 'as_integer_ratio::impl<T> AsIntegerRatio for T where T: Copy + Sized, i128: From<T>',
           int_contracts(), extra=_int_extra())
    u.impl('fpdec', 'as_integer_ratio::impl AsIntegerRatio for Decimal', ratio_contracts(), extra=DECIMAL_CONSISTENT)
    u.impl('fpdec', 'impl Hash for Decimal', hash_contracts())
    return u
