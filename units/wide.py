"""C16: results stay correct when intermediates exceed 128 bits.

fpdec-core: 128x128 -> 256 bit multiplication (u128_hi/lo, u128_mul_u128), 256/64 bit long division
(u256_idiv_u64), 256/128 bit division (u128_msb, u256_idiv_u128_special = Knuth D for 4/2 limbs,
u256_idiv_u128 dispatcher), the floor sign fix-ups on top of them (i128_shifted_div_mod_floor,
i256_div_mod_floor) and the two rounded callers used by mul/div (C02/C03/C04).  Every function is
verified with its real body; nothing is assumed (vstd specifies wrapping_mul/add/sub, so there is no
spec/std_wide.rs).  Mathematics and lemmas: spec/wide.rs.

Contracts (`contracts()`) are reusable as callee contracts: `add_wide_items(u)` emits the four public
entry points as external_body stubs into another unit (bodies are verified here, in the home unit).

How the proofs are attached without touching bodies: straight-line functions get one lemma call over the
parameters at entry (schoolbook multiplication / long division stated in mathematics); the Knuth function
gets loop invariants in terms of spec predicates (digit_ctx / digit_inv / digit_done / norm_ok) and
broadcast lemmas triggered on exactly those predicate terms (group_knuth), plus one explicit lemma call
at the head of each correction-loop body.

Findings on the unfixed tree (do not weaken the contracts):
 * D5: C16.shifted.quot/.rem and C16.i256.quot/.rem fail: for an exact negative quotient the fix-ups
   return (-q-1, y) instead of (-q, 0)   (fix: fixes/D5.diff).
 * same fix-up, documented negative-divisor case x >= 0, y < 0: `r -= y` must be `r += y`
   (C16.shifted.neg_divisor.quot/.rem fail, and `r -= y` can overflow); not reachable from fpdec itself,
   which always passes a positive divisor (also in fixes/D5.diff).
 * D10 (fix: fixes/D10.diff): the rounded callers handed every floor quotient to round_quot, whose
   `quot + 1` overflows when the floor quotient is exactly i128::MAX with a non-zero remainder and the mode
   rounds up (dev: panic "attempt to add with overflow", also inside checked_div; release: i128::MIN), e.g.
   Decimal(119098828422328462212181112601118874009, 0).div_rounded(Decimal(7, 0), 1) under RoundUp.  Before
   the fix this shows as "precondition not satisfied" (round_quot: rem > 0 ==> quot < i128::MAX) in both
   rounded callers plus their none_iff clause; after it `checked_round_quot` is verified here with its body.
"""
from vgen import Unit, Contract as C, Loop
import core_kernel
import runner

X256 = 'u256(*old(xh) as int, *old(xl) as int)'
Q256 = 'u256(*final(xh) as int, *final(xl) as int)'

BV = 'broadcast use lemma_shr64, lemma_lo64, lemma_shl64;'

# numerator / modulus of the two sign fix-ups
N_SH = '(x * pow10(p as nat))'
N_MUL = '(x1 * x2)'


def _floor_posts(tag, num, den, neg_divisor=False):
    """Property statement: num = q*m + r with 0 <= r < m for every positive m, i.e. (q, r) is *the*
    floor quotient and remainder (uniqueness: lemma_div_mod_unique; product form:
    lemma_floor_div_props), or the quotient is reported as too large.
    neg_divisor: the function also documents negative divisors (m < r <= 0): separate clauses."""
    g = '%s > 0 ==> ' % den if neg_divisor else ''
    posts = [
        ('C16.%s.quot' % tag, '%sr.is_some() ==> r.unwrap().0 == floor_quot(%s, %s as int)' % (g, num, den)),
        ('C16.%s.rem' % tag, '%sr.is_some() ==> r.unwrap().1 == floor_rem(%s, %s as int)' % (g, num, den)),
    ]
    if neg_divisor:
        posts += [
            ('C16.%s.neg_divisor.quot' % tag,
             '%s < 0 ==> r.is_some() ==> r.unwrap().0 == floor_quot(%s, %s as int)' % (den, num, den)),
            ('C16.%s.neg_divisor.rem' % tag,
             '%s < 0 ==> r.is_some() ==> r.unwrap().1 == floor_rem(%s, %s as int)' % (den, num, den)),
        ]
    posts += [
        # exactly when None is returned: the quotient of the magnitudes does not fit
        ('C16.%s.none_iff' % tag, 'r.is_none() <==> abs_int(%s) / abs_int(%s as int) > i128::MAX' % (num, den)),
        # overflow is signalled only if the floor quotient is not a valid coefficient (|q| > i128::MAX)
        ('C16.%s.none_only_if_unrepresentable' % tag,
         'r.is_none() ==> abs_int(floor_quot(%s, %s as int)) > i128::MAX' % (num, den)),
    ]
    return posts


def contracts():
    """key -> Contract (source 'core')."""
    d = {}
    d['u128_hi'] = C(
        post=[('u128_hi.value', 'r == (u as int) / B64()'), ('u128_hi.limb', 'r < B64()')],
        entry=BV)
    d['u128_lo'] = C(
        post=[('u128_lo.value', 'r == (u as int) % B64()'), ('u128_lo.limb', 'r < B64()'),
              # the low limb is what gets shifted back up: state the value and the range of `r << 64` here, so that
              # every caller has them at the call site (no trigger has to fire for the overflow check of `lo + (r << 64)`)
              ('u128_lo.shl', '(r << 64) == r * B64()'),
              ('u128_lo.shl_bound', '(r << 64) <= 0xffffffffffffffff_0000000000000000u128')],
        entry=BV)
    d['u128_mul_u128'] = C(
        post=[('C16.mul.exact', 'r.0 * B128() + r.1 == x * y')],
        entry=BV + ' lemma_mul_limbs(x as int, y as int);')
    d['u256_idiv_u64'] = C(
        pre=['y > 0'],
        post=[('C16.div64.quot', '%s == %s / (y as int)' % (Q256, X256)),
              ('C16.div64.rem', 'r == %s %% (y as int)' % X256)],
        entry=BV + ' lemma_long_div4(*xh as int, *xl as int, y as int); lemma_div_by_one(u256(*xh as int, *xl as int));')
    d['u128_msb'] = C(
        pre=['i != 0'],
        post=[('u128_msb.range', 'r < 128'), ('u128_msb.msb', 'is_msb(i, r as int)')],
        entry='broadcast use group_msb; reveal(is_msb);')
    def digit_loop(q, u32, u1):
        args = '%s as int, rhat as int, %s as int, %s as int, y as int, yn1 as int, yn0 as int' % (q, u32, u1)
        done = 'digit_done(%s as int, %s as int, %s as int, y as int)' % (q, u32, u1)
        return Loop(
            inv=['B as int == B64()',
                 'digit_ctx(%s as int, %s as int, y as int, yn1 as int, yn0 as int)' % (u32, u1)],
            invariant_except_break=['digit_inv(%s)' % args],
            ensures=[done],
            dec=q,
            body_entry='lemma_b128(); lemma_digit_step(%s);' % args)
    d['u256_idiv_u128_special'] = C(
        pre=['*old(xh) < y', 'y >= B64()'],
        post=[('C16.div128s.hi_zero', '*final(xh) == 0'),
              ('C16.div128s.quot', '*final(xl) == %s / (y as int)' % X256),
              ('C16.div128s.rem', 'r == %s %% (y as int)' % X256),
              ('C16.div128s.identity', '*final(xl) * y + r == %s && r < y' % X256)],
        entry=('broadcast use group_knuth; lemma_b128(); '
               'assert((1u128 << 64) == 0x1_0000_0000_0000_0000u128) by (bit_vector); '
               'lemma_div_forms(u256(*xh as int, *xl as int), y as int);'),
        loops=[digit_loop('q1', 'xn32', 'xn1'), digit_loop('q0', 't', 'xn0')])
    d['u256_idiv_u128'] = C(
        pre=['y > 0'],
        post=[('C16.div128.quot', '%s == %s / (y as int)' % (Q256, X256)),
              ('C16.div128.rem', 'r == %s %% (y as int)' % X256),
              ('C16.div128.identity', '%s * y + r == %s && r < y' % (Q256, X256))],
        entry=BV + ' lemma_b128(); lemma_div_2step(*xh as int, *xl as int, y as int);')
    d['i128_shifted_div_mod_floor'] = C(
        pre=['y != 0'],
        ok=[('shifted.p_in_range', 'p <= 38')],
        post=_floor_posts('shifted', N_SH, 'y', neg_divisor=True),
        entry=('lemma_b128(); lemma_pow10_pos(p as nat); lemma_abs_mul(x as int, pow10(p as nat)); '
               'lemma_floor_from_abs(%s, y as int);' % N_SH))
    d['i256_div_mod_floor'] = C(
        pre=['y > 0'],
        post=_floor_posts('i256', N_MUL, 'y'),
        entry='lemma_b128(); lemma_abs_mul(x1 as int, x2 as int); lemma_floor_from_abs(%s, y as int);' % N_MUL)
    # ---- rounded callers (rounding.rs)
    vq = 'round_div(quot * (divisor as int) + rem as int, divisor as int, eff_mode(mode))'
    d['rounding::checked_round_quot'] = C(
        pre=['0 < divisor <= i128::MAX as u128', 'rem < divisor'],
        post=[('checked_round_quot.value', 'r.is_some() ==> r.unwrap() == %s' % vq),
              ('checked_round_quot.none_iff', 'r.is_none() <==> !in_i128(%s)' % vq)],
        entry=('lemma_floor_form(quot as int, rem as int, divisor as int); '
               'if rem > 0 { lemma_round_at_max(rem as int, divisor as int, eff_mode(mode)); }'))
    nsh = '((if divisor < 0 { -(divident as int) } else { divident as int }) * pow10(p as nat))'
    dsh = 'abs_int(divisor as int)'
    rsh = 'round_div(%s, %s, eff_mode(mode))' % (nsh, dsh)
    d['rounding::i128_shifted_div_rounded'] = C(
        pre=['divisor != 0', 'divident > i128::MIN', 'divisor > i128::MIN'],
        ok=[('shifted_div_rounded.p_in_range', 'p <= 38')],
        post=[('C16.shifted_div_rounded.value', 'r.is_some() ==> r.unwrap() == %s' % rsh),
              ('C16.shifted_div_rounded.none_iff',
               'r.is_none() <==> (abs_int(%s) / %s > i128::MAX || !in_i128(%s))' % (nsh, dsh, rsh)),
              ('C16.shifted_div_rounded.none_only_if_unrepresentable', 'r.is_none() ==> abs_int(%s) > i128::MAX' % rsh)],
        entry=('lemma_abs_mul(divident as int, pow10(p as nat)); lemma_abs_mul(-(divident as int), pow10(p as nat)); '
               'lemma_floor_div_props(%s, %s); '
               'if abs_int(%s) / %s > i128::MAX { lemma_round_div_big(%s, %s, eff_mode(mode)); }'
               % (nsh, dsh, nsh, dsh, nsh, dsh)))
    nm = '(x * y)'
    dm = 'pow10(p as nat)'
    rm = 'round_div(%s, %s, eff_mode(mode))' % (nm, dm)
    d['rounding::i128_mul_div_ten_pow_rounded'] = C(
        ok=[('mul_div_ten_pow_rounded.p_in_range', 'p <= 38')],
        post=[('C16.mul_div_ten_pow_rounded.value', 'r.is_some() ==> r.unwrap() == %s' % rm),
              ('C16.mul_div_ten_pow_rounded.none_iff',
               'r.is_none() <==> (abs_int(%s) / %s > i128::MAX || !in_i128(%s))' % (nm, dm, rm)),
              ('C16.mul_div_ten_pow_rounded.none_only_if_unrepresentable', 'r.is_none() ==> abs_int(%s) > i128::MAX' % rm)],
        entry=('lemma_pow10_pos(p as nat); lemma_pow10_values(); if p <= 38 { lemma_pow10_mono(p as nat, 38); '
               'lemma_floor_div_props(%s, %s); '
               'if abs_int(%s) / %s > i128::MAX { lemma_round_div_big(%s, %s, eff_mode(mode)); } }'
               % (nm, dm, nm, dm, nm, dm)))
    return d


# present only once fixes/D10.diff is in the tree
CRQ = 'rounding::checked_round_quot'
INTERNAL = ['u128_msb', 'u128_hi', 'u128_lo', 'u128_mul_u128', 'u256_idiv_u64', 'u256_idiv_u128_special',
            'u256_idiv_u128']
PUBLIC = ['i128_shifted_div_mod_floor', 'i256_div_mod_floor',
          'rounding::i128_shifted_div_rounded', 'rounding::i128_mul_div_ten_pow_rounded']


def add_wide_items(u, verify=False, internal=None):
    """Emit the wide-arithmetic functions of fpdec-core into unit `u` (after core_kernel.add_core_items).

    verify=False (other units): the four public entry points as external_body stubs carrying the
    contracts whose bodies are verified in the home unit `wide`; their contracts only use spec/base.rs
    and spec/rounding.rs vocabulary (floor_quot, floor_rem, abs_int, pow10, round_div, eff_mode).
    verify=True (home unit): all functions with their real bodies (needs spec/wide.rs)."""
    cs = contracts()
    if internal is None:
        internal = verify
    keys = list(INTERNAL) if internal else []
    if internal and CRQ in runner.load_sources(('core',))['core']:
        keys.append(CRQ)
    for k in keys + PUBLIC:
        c = cs[k]
        if not verify:
            c.stub = True
        u.fn('core', k, c)
    return cs


def build():
    u = Unit('wide', specs=['base.rs', 'rounding.rs', 'std_assumed.rs', 'wide.rs'])
    cs = core_kernel.contracts()
    u.item('core', 'rounding::enum RoundingMode')
    u.raw(core_kernel.R5_DEFAULT, 'R5')
    u.item('core', 'powers_of_ten::const POWERS_OF_10')
    tp = cs['powers_of_ten::ten_pow']
    tp.stub = True
    u.fn('core', 'powers_of_ten::ten_pow', tp)
    rq = cs['rounding::round_quot']     # body verified in its home unit core_kernel
    rq.stub = True
    u.fn('core', 'rounding::round_quot', rq)
    add_wide_items(u, verify=True)
    return u
