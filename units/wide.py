"""C16: results stay correct when intermediates exceed 128 bits.

fpdec-core: 128x128 -> 256 bit multiplication, 256/64 and 256/128 bit division, the floor
sign fix-ups on top of them, and the two rounded callers used by mul/div (C02/C03/C04).
"""
from vgen import Unit, Contract as C, Loop
import core_kernel

X256 = 'u256(*old(xh) as int, *old(xl) as int)'
Q256 = 'u256(*final(xh) as int, *final(xl) as int)'

BV = 'broadcast use lemma_shr64, lemma_lo64, lemma_shl64;'


def contracts():
    """key -> Contract (source 'core')."""
    d = {}
    d['u128_hi'] = C(
        post=[('u128_hi.value', 'r == (u as int) / B64()'), ('u128_hi.limb', 'r < B64()')],
        entry=BV)
    d['u128_lo'] = C(
        post=[('u128_lo.value', 'r == (u as int) % B64()'), ('u128_lo.limb', 'r < B64()')],
        entry=BV)
    d['u128_mul_u128'] = C(
        post=[('C16.mul.exact', 'r.0 * B128() + r.1 == x * y')],
        entry=BV + ' lemma_mul_limbs(x as int, y as int);')
    d['u256_idiv_u64'] = C(
        pre=['y > 0'],
        post=[('C16.div64.quot', '%s == %s / (y as int)' % (Q256, X256)),
              ('C16.div64.rem', 'r == %s %% (y as int)' % X256)],
        entry=BV + ' lemma_long_div4(*xh as int, *xl as int, y as int); lemma_div_by_one(u256(*xh as int, *xl as int));')
    return d


ORDER = ['u128_hi', 'u128_lo', 'u128_mul_u128', 'u256_idiv_u64']


def add_wide_items(u, verify=False):
    cs = contracts()
    for k in ORDER:
        c = cs[k]
        if not verify:
            c.stub = True
        u.fn('core', k, c)
    return cs


def build():
    u = Unit('wide', specs=['base.rs', 'rounding.rs', 'std_assumed.rs', 'wide.rs'])
    core_kernel.add_core_items(u)
    add_wide_items(u, verify=True)
    return u
