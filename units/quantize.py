"""C04 (quantize): the generic blanket impl `impl<T, Q> Quantize<Q> for T` = div_rounded(q, 0) * q,
verified once for all T, Q against the trait-level contracts of DivRounded and Mul, plus the
instance lemma for Decimal/Decimal that turns it into "the integer multiple of q nearest to x"."""
from vgen import Unit, Contract as C, Loop
import core_kernel
import common
import runner
import div as div_unit
import mul as mul_unit
import binop_gen as G

OUT = '<T as DivRounded<Q>>::Output'
POSTS = ' && '.join(('#[trigger] ' if i == 0 else '') + 'self.div_rounded_post%d(quant, 0, d)' % i for i in range(5))

SPEC = '''
/// x.quantize(q) for two Decimals, from the statement: k = x/q rounded to an integer under the mode,
/// result value k * q (exact)
pub open spec fn quantize_k(x: Decimal, q: Decimal, mode: RoundingMode) -> int {
    div_coeff(x, q, 0, mode)
}
'''


def build():
    u = Unit('quantize', specs=['base.rs', 'rounding.rs', 'decimal.rs', 'std_assumed.rs', 'binops.rs'])
    u.raw(SPEC, 'quantize-spec')
    core_kernel.add_core_items(u)
    common.add_decimal(u)
    u.trait('fpdec', 'binops::div_rounded::trait DivRounded')
    u.item('fpdec', 'errors::enum DecimalError')
    common.add_predicates(u)
    idx = runner.load_sources(('fpdec',))['fpdec']
    # the Decimal/Decimal instances of the two constituents, with the contracts proved in units div_rounded / mul
    k = 'binops::div_rounded::impl DivRounded<Self> for Decimal'
    hp = G.parse_impl_header(idx[k].header)
    c = div_unit.dr_contract('self', 'rhs', 'dec', 'dec', hp)
    c.stub = True
    u.impl('fpdec', k, {'div_rounded': c})
    k = 'binops::mul::impl Mul<Self> for Decimal'
    c = mul_unit.mul_contract('self', 'rhs', 'dec', 'dec', None)
    c.stub = True
    c.entry = None
    u.impl('fpdec', k, {'mul': c})
    u.trait('fpdec', 'quantize::trait Quantize')
    u.impl('fpdec', 'quantize::impl<T, Q> Quantize<Q> for T where Q: Copy, T: DivRounded<Q>, <T as DivRounded<Q>>::Output: Mul<Q>', {
        'quantize': C(
            pre=['self.div_rounded_pre(quant, 0)',
                 'forall|d: %s| (%s) ==> vstd::std_specs::ops::MulSpec::mul_req(d, quant)' % (OUT, POSTS)],
            post=[('C04.quantize.is_div_rounded_0_times_quantum',
                   'exists|d: %s| (%s) && (<%s as vstd::std_specs::ops::MulSpec<Q>>::obeys_mul_spec() ==> r == vstd::std_specs::ops::MulSpec::mul_spec(d, quant))' % (OUT, POSTS, OUT))]),
    })
    return u
