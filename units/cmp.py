"""C08: PartialEq / PartialOrd / Ord for Decimal and the comparisons with the 9 integer types."""
from vgen import Unit, Contract as C, Loop, parse_impl_header
import core_kernel
import common
import binop_gen as G
import runner
import rsx

SPEC = '''
/// |c * 10^k| exceeds every i128 when c != 0 and the scaled coefficient does not fit
pub proof fn lemma_scaled_overflow_dominates(c: int, k: nat, o: int)
    requires in_i128(c), in_i128(o), !in_i128(c * pow10(k))
    ensures c > 0 ==> c * pow10(k) > o, c <= 0 ==> c * pow10(k) < o, c != 0
{
    lemma_pow10_pos(k);
    if c == 0 { assert(c * pow10(k) == 0) by (nonlinear_arith) requires c == 0; }
    if c > 0 {
        assert(c * pow10(k) >= 0) by (nonlinear_arith) requires c > 0, pow10(k) >= 1;
    } else {
        assert(c * pow10(k) <= 0) by (nonlinear_arith) requires c <= 0, pow10(k) >= 1;
    }
}

pub proof fn lemma_scale_sign(c: int, k: nat)
    ensures
        c > 0 ==> c * pow10(k) > 0,
        c < 0 ==> c * pow10(k) < 0,
        c == 0 ==> c * pow10(k) == 0,
{
    lemma_pow10_pos(k);
    if c > 0 { assert(c * pow10(k) > 0) by (nonlinear_arith) requires c > 0, pow10(k) >= 1; }
    if c < 0 { assert(c * pow10(k) < 0) by (nonlinear_arith) requires c < 0, pow10(k) >= 1; }
    if c == 0 { assert(c * pow10(k) == 0) by (nonlinear_arith) requires c == 0; }
}
'''


def lifted(hp, other='other'):
    L, lk = G.lift(hp['self_ty'], '(*self)')
    rt = G.rhs_type(hp)
    if rt == 'Self':
        rt = hp['self_ty']
    R, rk = G.lift(rt, '(*%s)' % other)
    return L, R


def eq_contract(hp):
    L, R = lifted(hp)
    return C(post=[('C08.eq.by_value', '(valid(%s) && valid(%s)) ==> (r <==> val_cmp(%s, %s) == 0)' % (L, R, L, R))],
             entry=ENTRY % {'L': L, 'R': R})


def pcmp_contract(hp):
    L, R = lifted(hp)
    return C(post=[('C08.partial_cmp.never_none', 'r.is_some()'),
                   ('C08.partial_cmp.by_value',
                    '(valid(%s) && valid(%s)) ==> r == Some(ord_of(val_cmp(%s, %s)))' % (L, R, L, R))],
             entry=ENTRY % {'L': L, 'R': R})


ENTRY = ('let l__ = %(L)s; let r__ = %(R)s; '
         'if l__.n_frac_digits <= r__.n_frac_digits { lemma_scale_sign(l__.coeff as int, (r__.n_frac_digits - l__.n_frac_digits) as nat); } '
         'if r__.n_frac_digits <= l__.n_frac_digits { lemma_scale_sign(r__.coeff as int, (l__.n_frac_digits - r__.n_frac_digits) as nat); } '
         'if l__.n_frac_digits < r__.n_frac_digits && in_i128(r__.coeff as int) && in_i128(l__.coeff as int) '
         '&& !in_i128(l__.coeff * pow10((r__.n_frac_digits - l__.n_frac_digits) as nat)) '
         '{ lemma_scaled_overflow_dominates(l__.coeff as int, (r__.n_frac_digits - l__.n_frac_digits) as nat, r__.coeff as int); } '
         'if r__.n_frac_digits < l__.n_frac_digits && in_i128(r__.coeff as int) && in_i128(l__.coeff as int) '
         '&& !in_i128(r__.coeff * pow10((l__.n_frac_digits - r__.n_frac_digits) as nat)) '
         '{ lemma_scaled_overflow_dominates(r__.coeff as int, (l__.n_frac_digits - r__.n_frac_digits) as nat, l__.coeff as int); }')


def build():
    u = Unit('cmp', specs=['base.rs', 'rounding.rs', 'decimal.rs', 'std_assumed.rs', 'order.rs'])
    u.raw(SPEC, 'cmp-spec')
    core_kernel.add_core_items(u)
    common.add_decimal(u)
    common.add_accessors(u)
    common.add_predicates(u, verify=True)
    idx = runner.load_sources(('fpdec',))['fpdec']
    n = 0
    for k, it, hp in G.impls_of(idx, 'binops::cmp', 'PartialEq'):
        u.impl('fpdec', k, {'eq': eq_contract(hp)})
        n += 1
    for k, it, hp in G.impls_of(idx, 'binops::cmp', 'PartialOrd'):
        u.impl('fpdec', k, {'partial_cmp': pcmp_contract(hp)})
        n += 1
    if n != 38:
        raise rsx.AnchorLost('binops::cmp: expected 38 PartialEq/PartialOrd impls, found %d' % n)
    u.impl('fpdec', 'binops::cmp::impl Eq for Decimal', {})
    u.impl('fpdec', 'binops::cmp::impl Ord for Decimal', {
        'cmp': C(post=[('C08.cmp.by_value', '(valid(*self) && valid(*other)) ==> r == ord_of(val_cmp(*self, *other))')])})
    return u


RKYV_SPEC = '''
/// the Decimal an archived value stands for (same coefficient, same number of fractional digits)
pub open spec fn adec(a: ArchivedDecimal) -> Decimal { Decimal { coeff: a.coeff, n_frac_digits: a.n_frac_digits } }

pub assume_specification [Ordering::reverse](o: Ordering) -> (r: Ordering)
    ensures r == (match o { Ordering::Less => Ordering::Greater, Ordering::Equal => Ordering::Equal, Ordering::Greater => Ordering::Less });
'''


def build_rkyv():
    """feature rkyv: ArchivedDecimal compares (with itself and with Decimal) like the value it archives"""
    u = Unit('cmp_rkyv', specs=['base.rs', 'rounding.rs', 'decimal.rs', 'std_assumed.rs', 'order.rs'])
    u.raw(SPEC, 'cmp-spec')
    u.raw(RKYV_SPEC, 'rkyv-spec')
    core_kernel.add_core_items(u)
    common.add_decimal(u)
    idx = runner.load_sources(('fpdec',), ('rkyv',))['fpdec']
    u.item('fpdec', 'struct ArchivedDecimal')
    n = 0
    for k, it, hp in G.impls_of(idx, 'binops::cmp', 'PartialEq'):
        if 'ArchivedDecimal' not in k:
            c = eq_contract(hp)
            c.stub = True
            c.entry = None
            u.impl('fpdec', k, {'eq': c}) if k.endswith('impl PartialEq<Decimal> for Decimal') else None
            continue
        u.impl('fpdec', k, {'eq': eq_contract(hp)})
        n += 1
    for k, it, hp in G.impls_of(idx, 'binops::cmp', 'PartialOrd'):
        if 'ArchivedDecimal' not in k:
            continue
        u.impl('fpdec', k, {'partial_cmp': pcmp_contract(hp)})
        n += 1
    if n != 6:
        raise rsx.AnchorLost('binops::cmp (feature rkyv): expected 6 ArchivedDecimal comparison impls, found %d' % n)
    # C15 (rkyv variants of the predicates) and the accessors of the archived type
    u.inherent('fpdec', 'binops::cmp::impl ArchivedDecimal', {
        'eq_zero': C(post=[('C15.rkyv.eq_zero', 'r <==> self.coeff == 0')]),
        'eq_one': C(pre=['self.n_frac_digits <= 38'],
                    post=[('C15.rkyv.eq_one', 'r <==> self.coeff == pow10(self.n_frac_digits as nat)')]),
        'is_negative': C(post=[('C15.rkyv.is_negative', 'r <==> self.coeff < 0')]),
        'is_positive': C(post=[('C15.rkyv.is_positive', 'r <==> self.coeff > 0')]),
    })
    u.inherent('fpdec', 'impl ArchivedDecimal', {
        'coefficient': C(post=[('rkyv.coefficient', 'r == self.coeff')]),
        'n_frac_digits': C(post=[('rkyv.n_frac_digits', 'r == self.n_frac_digits')]),
    })
    u.impl('fpdec', 'binops::cmp::impl Eq for ArchivedDecimal', {})
    u.impl('fpdec', 'binops::cmp::impl Ord for ArchivedDecimal', {
        'cmp': C(post=[('C08.rkyv.cmp.by_value',
                        '(valid(adec(*self)) && valid(adec(*other))) ==> r == ord_of(val_cmp(adec(*self), adec(*other)))')])})
    return u
