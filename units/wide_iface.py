"""Interface contracts of the 256-bit paths used by mul/div units.
The bodies are verified in unit `wide` (property C16); here they are stubs."""
from vgen import Contract as C


def contracts():
    d = {}
    num = 'if divisor < 0 { -(divident * pow10(p as nat)) } else { divident * pow10(p as nat) }'
    d['rounding::i128_shifted_div_rounded'] = C(
        pre=['divisor != 0', 'divisor > i128::MIN', 'divident > i128::MIN', 'p <= 38'],
        post=[('shifted_div_rounded.value',
               'r.is_some() ==> r.unwrap() == round_div(%s, abs_int(divisor as int), eff_mode(mode))' % num),
              ('shifted_div_rounded.none_only_if_unrepresentable',
               'r.is_none() ==> !in_coeff(round_div(%s, abs_int(divisor as int), eff_mode(mode)))' % num)],
        stub=True)
    d['rounding::i128_mul_div_ten_pow_rounded'] = C(
        pre=['x > i128::MIN', 'y > i128::MIN', 'p <= 38'],
        post=[('mul_div_ten_pow_rounded.value',
               'r.is_some() ==> r.unwrap() == round_div(x * y, pow10(p as nat), eff_mode(mode))'),
              ('mul_div_ten_pow_rounded.none_only_if_unrepresentable',
               'r.is_none() ==> !in_coeff(round_div(x * y, pow10(p as nat), eff_mode(mode)))')],
        stub=True)
    return d


def add_wide_items(u):
    for k, c in contracts().items():
        u.fn('core', k, c)
