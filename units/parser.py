"""C06: parsing accepts exactly the literal grammar and never yields a wrong value.

fpdec-core `parser` (AsciiDecLit methods, str_to_dec) and fpdec `from_str` (FromStr, TryFrom<&str>,
TryFrom<String>) against the grammar recogniser `lit_parse` of spec/parse.rs.

Trusted in this unit (listed in spec/std_parse.rs resp. below):
  * R6  `skip_n` (get_unchecked) and `read_u64_unchecked` (ptr::read_unaligned): external_body with
        `requires n <= len` / `requires len >= 8`; every call site is verified against these
        preconditions - that is the "never reads outside the string" part of C06.
  * K   `chunk_contains_8_digits`, `chunk_to_u64`: external_body with the contract proved by Kani on the
        full u64 domain (kani/swar.py, same statement).
  * R8  `<str as AsRef<[u8]>>::as_ref` returns the (uninterpreted) UTF-8 bytes of the string.
  * kernel `checked_mul_pow_ten`: contract proved in unit core_kernel.
"""
from vgen import Unit, Contract as C, Loop
import core_kernel
import common

IMPL = "parser::impl<'a> AsciiDecLit<'a>"

SPEC = r'''
// ---- proof scaffolding for the parser unit (vocabulary of the intermediate contracts)

/// number of leading '0' bytes
pub open spec fn zero_run(s: Seq<u8>) -> nat
    decreases s.len()
{
    if s.len() > 0 && s[0] == 0x30 { 1 + zero_run(s.skip(1)) } else { 0 }
}

/// saturation at u128::MAX
pub open spec fn sat128(v: int) -> int { if v > u128::MAX { u128::MAX as int } else { v } }

/// saturating multiply-add
pub open spec fn sat_madd(c: int, m: int, a: int) -> int { sat128(c * m + a) }

/// what is left of a digit accumulation that stops accumulating at `cap`: exact below the cap, otherwise
/// some value between the cap and the exact value
pub open spec fn capped(v: int, exact: int, cap: int) -> bool {
    &&& exact < cap ==> v == exact
    &&& exact >= cap ==> cap <= v <= exact
}

pub proof fn lemma_zero_run(s: Seq<u8>)
    ensures
        zero_run(s) <= s.len(),
        forall|i: int| 0 <= i < zero_run(s) ==> s[i] == 0x30,
        all_digits(s.take(zero_run(s) as int)),
        digits_value(s.take(zero_run(s) as int)) == 0,
    decreases s.len()
{
    if s.len() > 0 && s[0] == 0x30 {
        let t = s.skip(1);
        lemma_zero_run(t);
        let n = zero_run(s) as int;
        assert forall|i: int| 0 <= i < n implies s[i] == 0x30 by {
            if i > 0 { assert(s[i] == t[i - 1]); }
        }
        assert forall|i: int| 0 <= i < n implies is_digit(#[trigger] s.take(n)[i]) by { assert(s.take(n)[i] == s[i]); }
        assert forall|i: int| 0 <= i < s.take(n).len() implies s.take(n)[i] == 0x30 by { assert(s.take(n)[i] == s[i]); }
        lemma_digits_value_zeros(s.take(n));
    } else {
        assert(s.take(0).len() == 0);
    }
}

pub proof fn lemma_sat_madd(v: int, m: int, a: int)
    requires v >= 0, m >= 1, a >= 0
    ensures sat_madd(sat128(v), m, a) == sat_madd(v, m, a)
{
    if v > u128::MAX {
        let mx = u128::MAX as int;
        assert(mx * m >= mx) by (nonlinear_arith) requires m >= 1, mx >= 0;
        assert(v * m >= v) by (nonlinear_arith) requires m >= 1, v >= 0;
    }
}

/// one more digit: the loop step of the byte-wise loops (B = bytes at function entry, k consumed so far)
pub proof fn lemma_digit_step(b: Seq<u8>, k: int, c0: int)
    requires 0 <= k < b.len(), is_digit(b[k])
    ensures
        b.skip(k).skip(1) == b.skip(k + 1),
        digit_run(b.skip(k)) == 1 + digit_run(b.skip(k + 1)),
        digits_value(b.take(k + 1)) == 10 * digits_value(b.take(k)) + digit_val(b[k]),
        c0 * pow10((k + 1) as nat) == 10 * (c0 * pow10(k as nat)),
{
    lemma_skip_skip(b, k, 1);
    assert(b.skip(k)[0] == b[k]);
    lemma_digits_value_push(b, k);
    let p = pow10(k as nat);
    assert(pow10((k + 1) as nat) == 10 * p);
    assert(c0 * (10 * p) == 10 * (c0 * p)) by (nonlinear_arith);
}

/// eight more digits at once: the loop step of the SWAR loop
pub proof fn lemma_chunk_step(b: Seq<u8>, k: int, w: u64, c0: int)
    requires 0 <= k, k + 8 <= b.len(), le_word_of(w, b.skip(k)), word_all_digits(w)
    ensures
        b.skip(k).skip(8) == b.skip(k + 8),
        digit_run(b.skip(k)) == 8 + digit_run(b.skip(k + 8)),
        digits_value(b.take(k + 8)) == 100000000 * digits_value(b.take(k)) + word_digits_value(w),
        0 <= word_digits_value(w) < 100000000,
        c0 * pow10((k + 8) as nat) == 100000000 * (c0 * pow10(k as nat)),
{
    let t = b.skip(k);
    lemma_skip_skip(b, k, 8);
    assert(t[0] == b[k] && t[1] == b[k + 1] && t[2] == b[k + 2] && t[3] == b[k + 3]
        && t[4] == b[k + 4] && t[5] == b[k + 5] && t[6] == b[k + 6] && t[7] == b[k + 7]);
    assert forall|i: int| 0 <= i < 8 implies is_digit(#[trigger] t.take(8)[i]) by {
        assert(t.take(8)[i] == t[i]);
    }
    lemma_digit_run_split(t, 8);
    lemma_digits_value_push(b, k);
    lemma_digits_value_push(b, k + 1);
    lemma_digits_value_push(b, k + 2);
    lemma_digits_value_push(b, k + 3);
    lemma_digits_value_push(b, k + 4);
    lemma_digits_value_push(b, k + 5);
    lemma_digits_value_push(b, k + 6);
    lemma_digits_value_push(b, k + 7);
    let p = pow10(k as nat);
    lemma_pow10_add(k as nat, 8);
    lemma_pow10_values();
    assert(pow10((k + 8) as nat) == p * 100000000);
    assert(c0 * (p * 100000000) == 100000000 * (c0 * p)) by (nonlinear_arith);
}

// the named parts of a literal as `lit_parse` (spec/parse.rs) defines them
pub open spec fn lp_s1(s: Seq<u8>) -> Seq<u8> { after_sign(s) }
pub open spec fn lp_ni(s: Seq<u8>) -> int { digit_run(lp_s1(s)) as int }
pub open spec fn lp_s2(s: Seq<u8>) -> Seq<u8> { lp_s1(s).skip(lp_ni(s)) }
pub open spec fn lp_point(s: Seq<u8>) -> bool { lp_s2(s).len() > 0 && lp_s2(s)[0] == 0x2e }
pub open spec fn lp_s3(s: Seq<u8>) -> Seq<u8> { if lp_point(s) { lp_s2(s).skip(1) } else { lp_s2(s) } }
pub open spec fn lp_nf(s: Seq<u8>) -> int { if lp_point(s) { digit_run(lp_s3(s)) as int } else { 0 } }
pub open spec fn lp_s4(s: Seq<u8>) -> Seq<u8> { lp_s3(s).skip(lp_nf(s)) }
pub open spec fn lp_digits(s: Seq<u8>) -> int { digits_value(lp_s1(s).take(lp_ni(s)) + lp_s3(s).take(lp_nf(s))) }
pub open spec fn lp_s6(s: Seq<u8>) -> Seq<u8> { after_sign(lp_s4(s).skip(1)) }
pub open spec fn lp_ne(s: Seq<u8>) -> int { digit_run(lp_s6(s)) as int }
pub open spec fn lp_e(s: Seq<u8>) -> int { digits_value(lp_s6(s).take(lp_ne(s))) }

/// Everything `str_to_dec` needs to know about its input, stated on the parts above.  The function skips
/// the leading zeros of the integral part before accumulating (`cur1`, `r1`), and accumulates with
/// saturation; this lemma connects that to the literal's digit count and value.
pub proof fn lemma_str_to_dec_path(s: Seq<u8>)
    ensures ({
        let s1 = lp_s1(s);
        let z = zero_run(s1) as int;
        let cur1 = s1.skip(z);
        let r1 = digit_run(cur1) as int;
        let c1 = sat_madd(0, pow10(r1 as nat), digits_value(cur1.take(r1)));
        let nf = lp_nf(s);
        &&& 0 <= z <= s1.len()
        &&& 0 <= r1 <= cur1.len()
        &&& lp_ni(s) == z + r1
        &&& cur1.skip(r1) == lp_s2(s)
        &&& lp_s2(s).skip(0) == lp_s2(s)
        &&& 0 <= nf <= lp_s3(s).len()
        &&& 0 <= lp_ne(s) <= lp_s6(s).len()
        &&& lp_digits(s) >= 0
        &&& lp_e(s) >= 0
        &&& lp_point(s) ==> sat_madd(c1, pow10(nf as nat), digits_value(lp_s3(s).take(nf))) == sat128(lp_digits(s))
        &&& !lp_point(s) ==> c1 == sat128(lp_digits(s))
    }),
{
    let s1 = lp_s1(s);
    let z = zero_run(s1) as int;
    lemma_zero_run(s1);
    let cur1 = s1.skip(z);
    let r1 = digit_run(cur1) as int;
    lemma_digit_run_bound(cur1);
    lemma_digit_run_split(s1, z);
    lemma_skip_skip(s1, z, r1);
    let ni = lp_ni(s);
    let s2 = lp_s2(s);
    assert(s2.skip(0) =~= s2);
    let s3 = lp_s3(s);
    let nf = lp_nf(s);
    lemma_digit_run_bound(s3);
    lemma_digit_run_bound(lp_s6(s));
    lemma_digits_value_nonneg(lp_s6(s).take(lp_ne(s)));
    let zs = s1.take(z);
    let i1 = cur1.take(r1);
    let i = s1.take(ni);
    let f = s3.take(nf);
    assert(i =~= zs + i1);
    lemma_digits_value_concat(zs, i1);
    assert(0 * pow10(i1.len()) == 0);
    assert(digits_value(i) == digits_value(i1));
    lemma_digits_value_concat(i, f);
    lemma_digits_value_nonneg(i1);
    assert(all_digits(f)) by { if !lp_point(s) { assert(f.len() == 0); } }
    lemma_digits_value_nonneg(f);
    lemma_pow10_pos(nf as nat);
    let dvi = digits_value(i);
    let p = pow10(nf as nat);
    assert(0 * pow10(r1 as nat) == 0);
    assert(dvi * p >= 0) by (nonlinear_arith) requires dvi >= 0, p >= 1;
    if lp_point(s) {
        lemma_sat_madd(dvi, p, digits_value(f));
    } else {
        assert(pow10(0) == 1);
        assert(dvi * 1 == dvi);
        assert(digits_value(f) == 0);
    }
}
'''

BYTES = 'self.bytes@'
B0 = 'old(self).bytes@'
K = '(start_len - self.bytes@.len())'


# a function returning its `&mut self`: the caller's final value is whatever the returned reference ends with
MUTREF = ('mutref.same', '*final(r) == *final(self)')


def exp_cap(src_core):
    """the value at which accum_exp stops accumulating (the code's own constant)"""
    if src_core is not None and 'parser::const MAX_ACCUM_EXP' in src_core:
        return 'MAX_ACCUM_EXP as int', True
    return '0x1000000', False


def lit_contracts(cap, fixed):
    d = {}
    cap_hint = 'assert(0x20000000000000000 <= MAX_ACCUM_EXP && MAX_ACCUM_EXP <= 0x1000000000000000000000000000000) by (compute_only); ' if fixed else ''
    d['new'] = C(post=[('new.bytes', 'r.bytes@ == bytes@')])
    d['is_empty'] = C(post=[('is_empty.value', 'r == (self.bytes@.len() == 0)')])
    d['len'] = C(post=[('len.value', 'r == self.bytes@.len()')])
    # R6: raw-memory primitives
    d['skip_n'] = C(pre=[('n <= old(self).bytes@.len()')],
                    post=[('skip_n.bytes', 'r.bytes@ == old(self).bytes@.skip(n as int)'), MUTREF], stub=True)
    d['read_u64_unchecked'] = C(pre=['self.bytes@.len() >= 8'],
                                post=[('read_u64_unchecked.word', 'le_word_of(r, self.bytes@)')], stub=True)
    d['skip_1'] = C(pre=['1 <= old(self).bytes@.len()'],
                    post=[('skip_1.bytes', 'r.bytes@ == old(self).bytes@.skip(1)'), MUTREF])
    d['first'] = C(post=[('first.value',
                          'r == (if self.bytes@.len() == 0 { None::<&u8> } else { Some(&self.bytes@[0]) })')])
    d['first_eq'] = C(post=[('first_eq.value', 'r == (self.bytes@.len() > 0 && self.bytes@[0] == b)')])
    d['first_is_digit'] = C(post=[('first_is_digit.value', 'r == (self.bytes@.len() > 0 && is_digit(self.bytes@[0]))')])
    d['read_u64'] = C(post=[('read_u64.none_iff', 'r is None <==> self.bytes@.len() < 8'),
                            ('read_u64.word', 'r is Some ==> le_word_of(r->Some_0, self.bytes@)')])
    kz = '(%s.len() - %s.len())' % (B0, BYTES)
    d['skip_leading_zeroes'] = C(
        post=[('skip_leading_zeroes.bytes', 'r.bytes@ == %s.skip(zero_run(%s) as int)' % (B0, B0)), MUTREF],
        loops=[Loop(inv=['%s.len() <= %s.len()' % (BYTES, B0),
                         '%s == %s.skip(%s)' % (BYTES, B0, kz),
                         'zero_run(%s) == %s + zero_run(%s)' % (B0, kz, BYTES)],
                    dec='%s.len()' % BYTES,
                    body_entry='lemma_skip_skip(%s, %s, 1);' % (B0, kz))])
    inv = ['start_len == %s.len()' % B0,
           '%s.len() <= start_len' % BYTES,
           '%s == %s.skip(%s)' % (BYTES, B0, K),
           'digit_run(%s) == %s + digit_run(%s)' % (B0, K, BYTES)]
    inv_c = inv + ['*coeff == sat_madd(*old(coeff) as int, pow10(%s as nat), digits_value(%s.take(%s)))' % (K, B0, K)]
    d['accum_coeff'] = C(
        post=[('accum_coeff.count', 'r == digit_run(%s)' % B0),
              ('accum_coeff.bytes', 'final(self).bytes@ == %s.skip(r as int)' % B0),
              ('accum_coeff.value',
               '*final(coeff) == sat_madd(*old(coeff) as int, pow10(r as nat), digits_value(%s.take(r as int)))' % B0)],
        loops=[Loop(inv=inv_c, dec='%s.len()' % BYTES,
                    body_entry='if word_all_digits(k) { lemma_chunk_step(%s, %s, k, *old(coeff) as int); }' % (B0, K)),
               Loop(inv=inv_c, dec='%s.len()' % BYTES, ensures=['digit_run(%s) == 0' % BYTES],
                    body_entry='if is_digit(*c) { lemma_digit_step(%s, %s, *old(coeff) as int); }' % (B0, K))])
    exact = '*old(exp) * pow10(%s as nat) + digits_value(%s.take(%s))' % (K, B0, K)
    d['accum_exp'] = C(
        pre=['0 <= *old(exp) <= %s' % cap],
        post=[('accum_exp.count', 'r == digit_run(%s)' % B0),
              ('accum_exp.bytes', 'final(self).bytes@ == %s.skip(r as int)' % B0),
              ('accum_exp.value',
               'capped(*final(exp) as int, *old(exp) * pow10(r as nat) + digits_value(%s.take(r as int)), %s)' % (B0, cap)),
              ('accum_exp.bound', '0 <= *final(exp) <= 10 * (%s) + 9' % cap)],
        loops=[Loop(inv=inv + ['capped(*exp as int, %s, %s)' % (exact, cap),
                               '0 <= *exp <= 10 * (%s) + 9' % cap, '0 <= *old(exp)', '0 <= digits_value(%s.take(%s))' % (B0, K)],
                    dec='%s.len()' % BYTES, ensures=['digit_run(%s) == 0' % BYTES],
                    body_entry=cap_hint + 'if is_digit(*c) { lemma_digit_step(%s, %s, *old(exp) as int); }' % (B0, K))])
    return d


S = 'utf8(lit@)'

STR_TO_DEC_ENTRY = '''
    let s__ = utf8(lit@);
    lemma_str_to_dec_path(s__);
'''


def str_to_dec_contract(cap, fixed):
    entry = STR_TO_DEC_ENTRY
    if fixed:
        entry += '    assert(0x20000000000000000 <= MAX_ACCUM_EXP && MAX_ACCUM_EXP <= 0x1000000000000000000000000000000) by (compute_only);\n'
    return C(
        post=[('C06.str_to_dec.ok', 'r is Ok ==> str_to_dec_spec(%s) == Some((r->Ok_0.0 as int, r->Ok_0.1 as int))' % S),
              ('C06.str_to_dec.err', 'r is Err ==> str_to_dec_spec(%s) is None' % S),
              ('C06.str_to_dec.empty_iff', '(r is Err && r->Err_0 is Empty) <==> %s.len() == 0' % S)],
        entry=entry,
        # ~15 return paths x the unfolding of lit_parse over nested suffixes: needs about 1.5x the default
        # resource limit (5 s); no mid-body hints are allowed, so the limit is raised instead
        rlimit=40)


def parse_posts(prefix):
    return [('%s.ok' % prefix,
             'r is Ok ==> parse_decimal_spec(%s) == Some((r->Ok_0.coeff as int, r->Ok_0.n_frac_digits as int))' % S),
            ('%s.err' % prefix, 'r is Err ==> parse_decimal_spec(%s) is None' % S),
            ('%s.empty_iff' % prefix, '(r is Err && r->Err_0 is Empty) <==> %s.len() == 0' % S)]


FROM_STR_ENTRY = '''
    let s__ = utf8(lit@);
    lemma_parse_fold(s__);
    lemma_pow10_values();
    if str_to_dec_spec(s__) is Some {
        let c__ = str_to_dec_spec(s__)->Some_0.0;
        let x__ = str_to_dec_spec(s__)->Some_0.1;
        if x__ >= 0 { lemma_not_i128_min(c__, x__ as nat); }
    }
'''


# Spec validation (independent of /repo): the recogniser evaluated on concrete literals, among them the
# inputs of D1/D2/D7 and the corner cases of the grammar.  Expected values are read off the statement:
# None = must be an error, (c, n) = Ok(Decimal { coeff: c, n_frac_digits: n }).
EXAMPLES = [
    ('', None), ('+', None), ('-', None), ('.', None), ('+.', None), ('e5', None), ('+e3', None), (' ', None),
    ('-4.33.2', None), ('2.87 e3', None), ('.4e3 ', None), ('1e', None), ('1e+', None), ('1e-', None), ('2.5e-', None),
    ('1e+-5', None), ('1_0', None), ('1e5x', None), ('0x10', None),
    ('0', (0, 0)), ('-0', (0, 0)), ('0.', (0, 0)), ('0e0', (0, 0)), ('0e5', (0, 0)), ('0.0e40', (0, 1 - 1)),
    ('0e50', (0, 0)), ('0.00', (0, 2)), ('.5', (5, 1)), ('-.5', (-5, 1)), ('5.', (5, 0)), ('5.e1', (50, 0)),
    ('1957945', (1957945, 0)), ('-17.5', (-175, 1)), ('+.75', (75, 2)), ('17e-5', (17, 5)), ('+217e3', (217000, 0)),
    ('-533.7e-2', (-5337, 3)), ('700004.002E13', (7000040020000000000, 0)), ('+00028.700', (28700, 3)),
    ('1e003', (1000, 0)), ('1e-18', (1, 18)), ('1e-19', None), ('1e38', (10 ** 38, 0)), ('1e39', None), ('1e40', None),
    ('2e38', None), ('1e50', None), ('1e-99999999999999999999', None),
    ('0.000000000000000000001', None), ('17.4e-38', None),
    ('0.000000000000000000000000000000000000001e25', (1, 14)),
    ('170141183460469231731687303715884105727', (2 ** 127 - 1, 0)),
    ('-170141183460469231731687303715884105727', (-(2 ** 127 - 1), 0)),
    ('170141183460469231731687303715884105728', None),
    ('17014118346046923173168730371588410572.7e1', (2 ** 127 - 1, 0)),
    ('340282366920938463463374607431768211456', None),
    ('440282366920938463463374607431768211456', None),          # D1: 2^128 + 10^38
    ('115792089237316195423570985008687907853269984665640564039457584007913129639936', None),   # 2^256
    ('123456789012345678901234567890123.4567890', None),
]


def examples_text():
    out = ['// ---- spec validation: lit_parse / parse_decimal_spec on concrete literals (by computation)']
    for i, (lit, exp) in enumerate(EXAMPLES):
        bs = ', '.join('0x%02xu8' % b for b in lit.encode())
        sq = 'seq![%s]' % bs if bs else 'Seq::<u8>::empty()'
        if exp is None:
            rhs = 'None::<(int, int)>'
        else:
            rhs = 'Some((%dint, %dint))' % exp
        out.append('// %r' % lit)
        out.append('proof fn c06_example_%d() { assert(parse_decimal_spec(%s) == %s) by (compute); }' % (i, sq, rhs))
    return '\n'.join(out) + '\n'


def build():
    import runner
    try:
        core = runner.load_sources(('core',))['core']
    except Exception:
        core = None
    cap, fixed = exp_cap(core)
    u = Unit('parser', specs=['base.rs', 'parse.rs', 'std_parse.rs'],
             uses=['use core::str::FromStr;', 'use core::convert::TryFrom;'])
    u.raw(SPEC, 'parser-proof-scaffolding')
    u.raw(examples_text(), 'parser-spec-examples')
    # the only kernel item from_str needs: checked_mul_pow_ten, as a stub with the contract proved in unit
    # core_kernel (core_kernel.add_core_items would drag in the whole rounding kernel and its spec library)
    u.item('core', 'const MAX_N_FRAC_DIGITS')
    ck = core_kernel.contracts()['powers_of_ten::checked_mul_pow_ten']
    ck.stub = True
    u.fn('core', 'powers_of_ten::checked_mul_pow_ten', ck)
    common.add_decimal(u, consts=False)
    u.item('core', 'parser::enum ParseDecimalError')
    # K: proved by Kani on the full u64 domain (kani/swar.py)
    u.fn('core', 'parser::chunk_contains_8_digits',
         C(post=[('chunk_contains_8_digits.iff', 'r == word_all_digits(chunk)')], stub=True))
    u.fn('core', 'parser::chunk_to_u64',
         C(post=[('chunk_to_u64.value', 'word_all_digits(chunk) ==> r == word_digits_value(chunk)')], stub=True))
    if fixed:
        u.item('core', 'parser::const MAX_ACCUM_EXP')
    u.item('core', 'parser::struct AsciiDecLit')
    # trust anchors: the two raw-memory primitives are external_body stubs; their unsafe bodies must be these texts
    u.pin('core', IMPL + '::skip_n', sha='3dc410d2c797b00d')
    u.pin('core', IMPL + '::read_u64_unchecked', sha='183fe8505d19344e')
    u.inherent('core', IMPL, lit_contracts(cap, fixed))
    u.fn('core', 'parser::str_to_dec', str_to_dec_contract(cap, fixed))
    u.impl('fpdec', 'from_str::impl FromStr for Decimal',
           {'from_str': C(post=parse_posts('C06.from_str'), entry=FROM_STR_ENTRY)})
    u.impl('fpdec', 'from_str::impl TryFrom<&str> for Decimal',
           {'try_from': C(post=parse_posts('C06.try_from_str'))})
    u.impl('fpdec', 'from_str::impl TryFrom<String> for Decimal',
           {'try_from': C(post=parse_posts('C06.try_from_string'))})
    return u
