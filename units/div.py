"""C03 / C04 (division half) / C17: checked_div_rounded, DivRounded, Div, DivAssign, CheckedDiv in all operand forms."""
from vgen import Unit, Contract as C, Loop
import core_kernel
import common
import binop_gen as G
import runner
import wide as wide_iface

SPEC = '''
pub open spec fn sgn_adj(c: int, d: int) -> int { if d < 0 { -c } else { c } }

/// what each of the three scale cases of a correctly rounding division has to compute
pub proof fn lemma_div_branches(cx: int, p: nat, cy: int, q: nat, n: nat, mode: RoundingMode)
    requires cy != 0
    ensures
        ({
            let x = Decimal { coeff: cx as i128, n_frac_digits: p as u8 };
            let y = Decimal { coeff: cy as i128, n_frac_digits: q as u8 };
            let c = round_div(sgn_adj(cx, cy) * pow10(q + n), abs_int(cy) * pow10(p), mode);
            let m = abs_int(cy);
            &&& (p == n + q ==> c == round_div(sgn_adj(cx, cy), m, mode))
            &&& (p < n + q ==> c == round_div(sgn_adj(cx * pow10((n + q - p) as nat), cy), m, mode))
            &&& (p > n + q ==> {
                    let d = pow10((p - n - q) as nat);
                    let fq = floor_quot(cx, cy);
                    let fr = floor_rem(cx, cy);
                    &&& d >= 10 && d % 2 == 0
                    &&& (fr == 0 ==> c == round_div(fq, d, mode))
                    &&& (fr != 0 ==> c == round_div(2 * fq + 1, 2 * d, mode))
                })
        }),
{
    let a = sgn_adj(cx, cy);
    let m = abs_int(cy);
    lemma_pow10_pos(p);
    lemma_pow10_pos(q + n);
    if p == n + q {
        lemma_round_div_cancel(a, m, pow10(p), mode);
    } else if p < n + q {
        let s = (n + q - p) as nat;
        lemma_pow10_add(s, p);
        lemma_pow10_pos(s);
        assert(a * pow10(q + n) == (a * pow10(s)) * pow10(p)) by (nonlinear_arith)
            requires pow10(q + n) == pow10(s) * pow10(p);
        lemma_round_div_cancel(a * pow10(s), m, pow10(p), mode);
        assert(sgn_adj(cx * pow10(s), cy) == a * pow10(s)) by (nonlinear_arith)
            requires a == sgn_adj(cx, cy);
    } else {
        let s = (p - n - q) as nat;
        let d = pow10(s);
        lemma_pow10_add(s, q + n);
        lemma_pow10_pos(s);
        assert(m * pow10(p) == (m * d) * pow10(q + n)) by (nonlinear_arith)
            requires pow10(p) == d * pow10(q + n);
        assert(m * d > 0) by (nonlinear_arith) requires m > 0, d > 0;
        lemma_round_div_cancel(a, m * d, pow10(q + n), mode);
        lemma_pow10_even(s);
        lemma_round_div_sticky(a, m, d, mode);
        // floor_quot / floor_rem of (cx, cy) in terms of a / m
        if cy < 0 {
            assert(floor_quot(cx, cy) == a / m);
            assert(floor_rem(cx, cy) == -(a % m));
        } else {
            assert(floor_quot(cx, cy) == a / m);
            assert(floor_rem(cx, cy) == a % m);
        }
    }
}

pub proof fn lemma_pow10_even(s: nat)
    requires s >= 1
    ensures pow10(s) >= 10, pow10(s) % 2 == 0
    decreases s
{
    if s == 1 {
        assert(pow10(1) == 10) by { reveal_with_fuel(pow10, 2); }
    } else {
        lemma_pow10_even((s - 1) as nat);
        let t = pow10((s - 1) as nat);
        assert(pow10(s) == 10 * t);
        assert((10 * t) % 2 == 0) by (nonlinear_arith) requires t % 2 == 0;
    }
}

/// 2*floor(x/y)+1 stays within the coefficient range when x is and the division is not exact
pub proof fn lemma_floor_quot_half_bound(x: int, y: int)
    requires in_coeff(x), y != 0, floor_rem(x, y) != 0
    ensures in_coeff(2 * floor_quot(x, y) + 1)
{
    let a = sgn_adj(x, y);
    let m = abs_int(y);
    let q = a / m;
    let r = a % m;
    vstd::arithmetic::div_mod::lemma_fundamental_div_mod(a, m);
    vstd::arithmetic::div_mod::lemma_mod_bound(a, m);
    assert(floor_quot(x, y) == q);
    assert(r != 0);
    assert(m >= 2) by { if m == 1 { vstd::arithmetic::div_mod::lemma_mod_bound(a, 1); } }
    if q >= 0 {
        assert(2 * q <= m * q) by (nonlinear_arith) requires m >= 2, q >= 0;
    } else {
        assert(2 * (q + 1) >= m * (q + 1)) by (nonlinear_arith) requires m >= 2, q + 1 <= 0;
        assert(m * (q + 1) == m * q + m) by (nonlinear_arith);
    }
}

/// c * 10^s (s >= 1) is a multiple of 5, i128::MIN = -2^127 is not
pub proof fn lemma_scaled_not_min(c: int, s: nat)
    requires s >= 1
    ensures c * pow10(s) != i128::MIN as int
{
    let t = pow10((s - 1) as nat);
    assert(pow10(s) == 10 * t);
    assert(c * pow10(s) == 5 * (2 * c * t)) by (nonlinear_arith) requires pow10(s) == 10 * t;
    assert((5 * (2 * c * t)) % 5 == 0) by (nonlinear_arith);
    assert((i128::MIN as int) % 5 != 0);
}

pub proof fn lemma_neg_mul(a: int, k: int)
    ensures (-a) * k == -(a * k)
{
    assert((-a) * k == -(a * k)) by (nonlinear_arith);
}
'''

X = 'Decimal { coeff: divident_coeff, n_frac_digits: divident_n_frac_digits }'
Y = 'Decimal { coeff: divisor_coeff, n_frac_digits: divisor_n_frac_digits }'
DC = 'div_coeff(%s, %s, n_frac_digits as int, thread_default_mode())' % (X, Y)


def checked_div_rounded_contract():
    return C(
        pre=['divisor_coeff != 0', 'divisor_coeff > i128::MIN', 'in_coeff(divident_coeff as int)',
             'divident_n_frac_digits <= 18', 'divisor_n_frac_digits <= 18', 'n_frac_digits <= 18'],
        post=[('C04.div.single_rounding', 'r.is_some() ==> r.unwrap() == %s' % DC),
              ('C04.div.none_only_if_unrepresentable', 'r.is_none() ==> !in_coeff(%s)' % DC)],
        entry=('lemma_div_branches(divident_coeff as int, divident_n_frac_digits as nat, divisor_coeff as int, '
               'divisor_n_frac_digits as nat, n_frac_digits as nat, thread_default_mode()); '
               'assert(eff_mode(None::<RoundingMode>) == thread_default_mode()); '
               'if floor_rem(divident_coeff as int, divisor_coeff as int) != 0 '
               '{ lemma_floor_quot_half_bound(divident_coeff as int, divisor_coeff as int); } '
               'if divident_n_frac_digits < n_frac_digits + divisor_n_frac_digits { '
               'lemma_neg_mul(divident_coeff as int, pow10((n_frac_digits + divisor_n_frac_digits - divident_n_frac_digits) as nat)); '
               'lemma_scaled_not_min(divident_coeff as int, (n_frac_digits + divisor_n_frac_digits - divident_n_frac_digits) as nat); } '
               'lemma_pow10_values();'))


def dr_contract(L, R, lk, rk, hp):
    m = 'thread_default_mode()'
    n = 'n_frac_digits as int'
    return C(pre=['valid(%s)' % L, 'valid(%s)' % R],
             ok=[('C04.div_rounded.panics_iff', 'ok_div_rounded(%s, %s, %s, %s)' % (L, R, n, m))],
             ok_d=[('C04.div_rounded.panics_iff', 'ok_div_rounded_ret(%s, %s, %s, %s)' % (L, R, n, m))],
             post=[('C04.div_rounded.value', 'r == spec_div_rounded(%s, %s, %s, %s)' % (L, R, n, m)),
                   ('C04.div_rounded.wf', 'wf(r)')])


def build():
    u = Unit('div_rounded', specs=['base.rs', 'rounding.rs', 'decimal.rs', 'std_assumed.rs', 'binops.rs'])
    u.raw(SPEC, 'div-spec')
    core_kernel.add_core_items(u)
    wide_iface.add_wide_items(u)
    common.add_decimal(u)
    common.add_predicates(u)
    u.item('fpdec', 'errors::enum DecimalError')
    idx = runner.load_sources(('fpdec',))['fpdec']
    c = checked_div_rounded_contract()
    c.stub = True
    u.fn('fpdec', 'binops::div_rounded::checked_div_rounded', c)
    u.trait('fpdec', 'binops::div_rounded::trait DivRounded')
    G.add_family(u, idx, 'binops::div_rounded', 'DivRounded', 'div_rounded', dr_contract, expect=112)
    return u


def div_contract(L, R, lk, rk, hp):
    m = 'thread_default_mode()'
    return C(pre=['valid(%s)' % L, 'valid(%s)' % R],
             ok=[('C03.div.panics_iff', 'ok_div(%s, %s, %s)' % (L, R, m))],
             ok_d=[('C03.div.panics_iff', 'ok_div_ret(%s, %s, %s)' % (L, R, m))],
             value='spec_div(%s, %s, %s)' % (L, R, m), out_type='Decimal',
             post=[('C03.div.value', 'r == spec_div(%s, %s, %s)' % (L, R, m)), ('C03.div.wf', 'wf(r)')],
             entry=DIV_ENTRY % {'L': L, 'R': R})


def checked_div_contract(L, R, lk, rk, hp):
    m = 'thread_default_mode()'
    return C(pre=['valid(%s)' % L, 'valid(%s)' % R],
             post=[('C03.checked_div.some_if_representable', 'ok_div(%s, %s, %s) ==> r.is_some()' % (L, R, m)),
                   ('C03.checked_div.none_unless_fits', 'r.is_some() ==> ok_div_ret(%s, %s, %s)' % (L, R, m)),
                   ('C03.checked_div.value', 'r.is_some() ==> r.unwrap() == spec_div(%s, %s, %s)' % (L, R, m)),
                   ('C03.checked_div.wf', 'r.is_some() ==> wf(r.unwrap())')],
             entry=DIV_ENTRY % {'L': L, 'R': R})


DIV_ENTRY = ('lemma_pow10_values(); let x__ = %(L)s; let y__ = %(R)s; '
             'lemma_strip_props(div_coeff(x__, y__, 18, thread_default_mode()), 18);')


def build_div():
    u = Unit('div', specs=['base.rs', 'rounding.rs', 'decimal.rs', 'std_assumed.rs', 'binops.rs'])
    u.raw(SPEC, 'div-spec')
    u.raw(common.NORMALIZE_SPEC, 'normalize-spec')
    core_kernel.add_core_items(u)
    wide_iface.add_wide_items(u)
    common.add_decimal(u)
    common.add_predicates(u)
    common.add_normalize(u, verify=True)
    u.item('fpdec', 'errors::enum DecimalError')
    idx = runner.load_sources(('fpdec',))['fpdec']
    c = checked_div_rounded_contract()
    c.stub = True
    u.fn('fpdec', 'binops::div_rounded::checked_div_rounded', c)
    G.add_family(u, idx, 'binops::div', 'Div', 'div', div_contract, expect=76)
    G.add_op_assign(u, idx, 'binops::div', 'DivAssign', 'div_assign', 'Div', 'div')
    return u


def build_checked_div():
    u = Unit('checked_div', specs=['base.rs', 'rounding.rs', 'decimal.rs', 'std_assumed.rs', 'binops.rs'])
    u.raw(SPEC, 'div-spec')
    u.raw(common.NORMALIZE_SPEC, 'normalize-spec')
    core_kernel.add_core_items(u)
    wide_iface.add_wide_items(u)
    common.add_decimal(u)
    common.add_predicates(u)
    common.add_normalize(u)
    idx = runner.load_sources(('fpdec',))['fpdec']
    c = checked_div_rounded_contract()
    c.stub = True
    u.fn('fpdec', 'binops::div_rounded::checked_div_rounded', c)
    u.trait('fpdec', 'binops::checked_div::trait CheckedDiv')
    G.add_family(u, idx, 'binops::checked_div', 'CheckedDiv', 'checked_div', checked_div_contract, expect=76)
    return u


def build_kernel():
    """checked_div_rounded with its real body (shared by C03 and C04)"""
    u = Unit('div_kernel', specs=['base.rs', 'rounding.rs', 'decimal.rs', 'std_assumed.rs', 'binops.rs'])
    u.raw(SPEC, 'div-spec')
    core_kernel.add_core_items(u)
    wide_iface.add_wide_items(u)
    common.add_decimal(u)
    u.fn('fpdec', 'binops::div_rounded::checked_div_rounded', checked_div_rounded_contract())
    return u
