
// ---- C10: remainder (from the property statement; nothing here is derived from /repo's code)
//
// x = cx / 10^p, y = cy / 10^q, m = max(p, q), X = cx * 10^(m-p), Y = cy * 10^(m-q) (unbounded integers).
// x == y*t + r  <=>  X == Y*t + R with R = r * 10^m, so the remainder of the statement is, as a coefficient
// at scale m, the unique R with X == Y*t + R, |R| < |Y|, R zero or of the sign of X.

/// the statement's characterisation of the truncated-division remainder of a by y
pub open spec fn is_trunc_rem(a: int, y: int, r: int) -> bool {
    &&& exists|t: int| a == #[trigger] (y * t) + r
    &&& abs_int(r) < abs_int(y)
    &&& (r == 0 || sgn(r) == sgn(a))
}

pub open spec fn rem_scale(x: Decimal, y: Decimal) -> u8 { max_u8(x.n_frac_digits, y.n_frac_digits) }

/// the exact remainder of x by y as coefficient at scale max(p, q)
pub open spec fn rem_exact(x: Decimal, y: Decimal) -> int {
    let m = rem_scale(x, y);
    trunc_rem(at_scale(x, m), at_scale(y, m))
}

/// r is the exact remainder of x by y: at most max(p, q) fractional digits and equal in value
pub open spec fn rem_result_ok(x: Decimal, y: Decimal, r: Decimal) -> bool {
    let m = rem_scale(x, y);
    r.n_frac_digits <= m && at_scale(r, m) == rem_exact(x, y)
}

/// inputs on which no failure is permitted: non-zero divisor, and the dividend can be
/// re-expressed with the divisor's fractional digits within the i128 range whenever it has fewer
pub open spec fn ok_rem(x: Decimal, y: Decimal) -> bool {
    y.coeff != 0 && !(x.n_frac_digits < y.n_frac_digits
                      && !in_i128(x.coeff * pow10((y.n_frac_digits - x.n_frac_digits) as nat)))
}

/// dev-profile form: if the call returned, the divisor was non-zero
pub open spec fn ok_rem_ret(x: Decimal, y: Decimal) -> bool { y.coeff != 0 }

/// deterministic choice among the value-equal representations (used as vstd `rem_spec`, and so as the
/// meaning of `%=`): a zero dividend gives ZERO, a divisor equal to one keeps the dividend's scale,
/// everything else has exactly max(p, q) fractional digits
pub open spec fn spec_rem(x: Decimal, y: Decimal) -> Decimal {
    if x.coeff == 0 { Decimal { coeff: 0, n_frac_digits: 0 } }
    else if is_one(y) { Decimal { coeff: trunc_rem(x.coeff as int, pow10(x.n_frac_digits as nat)) as i128, n_frac_digits: x.n_frac_digits } }
    else { Decimal { coeff: rem_exact(x, y) as i128, n_frac_digits: rem_scale(x, y) } }
}

/// trunc_rem(a * 10^j, y): the remainder after j further decimal digits of the dividend
pub open spec fn rem_shifted(a: int, y: int, j: nat) -> int { trunc_rem(a * pow10(j), y) }

// ---- integer lemmas
pub proof fn lemma_mul_abs_ge(y: int, d: int)
    requires d != 0
    ensures abs_int(y * d) >= abs_int(y)
{
    if d >= 1 {
        if y >= 0 { assert(y * d >= y) by (nonlinear_arith) requires d >= 1, y >= 0; }
        else { assert(y * d <= y) by (nonlinear_arith) requires d >= 1, y < 0; }
    } else {
        if y >= 0 { assert(y * d <= -y) by (nonlinear_arith) requires d <= -1, y >= 0; }
        else { assert(y * d >= -y) by (nonlinear_arith) requires d <= -1, y < 0; }
    }
}

/// truncated division is unique
pub proof fn lemma_trunc_div_unique(a: int, y: int, t: int, r: int)
    requires
        y != 0,
        a == y * t + r,
        abs_int(r) < abs_int(y),
        a >= 0 ==> r >= 0,
        a <= 0 ==> r <= 0,
    ensures
        t == trunc_div(a, y),
        r == trunc_rem(a, y),
{
    lemma_trunc_div_rem(a, y);
    let t0 = trunc_div(a, y);
    let r0 = trunc_rem(a, y);
    let d = t - t0;
    assert(y * d == y * t - y * t0) by (nonlinear_arith) requires d == t - t0;
    assert(y * d == r0 - r);
    assert(abs_int(r0 - r) < abs_int(y));
    if d != 0 {
        lemma_mul_abs_ge(y, d);
    }
}

/// the spec function trunc_rem is exactly the remainder described by the statement
pub proof fn lemma_trunc_rem_characterization(a: int, y: int, r: int)
    requires y != 0
    ensures is_trunc_rem(a, y, r) <==> r == trunc_rem(a, y)
{
    lemma_trunc_div_rem(a, y);
    if r == trunc_rem(a, y) {
        assert(a == y * trunc_div(a, y) + r);
        assert(is_trunc_rem(a, y, r));
    }
    if is_trunc_rem(a, y, r) {
        let t = choose|t: int| a == #[trigger] (y * t) + r;
        if a == 0 {
            // r == 0 or sgn(r) == sgn(0) == 0
            assert(r == 0);
        }
        lemma_trunc_div_unique(a, y, t, r);
    }
}

pub proof fn lemma_trunc_rem_small(a: int, y: int)
    requires abs_int(a) < abs_int(y)
    ensures trunc_rem(a, y) == a, trunc_div(a, y) == 0
{
    assert(y * 0 == 0) by (nonlinear_arith);
    lemma_trunc_div_unique(a, y, 0, a);
}

pub proof fn lemma_mul_sign(r: int, k: int)
    requires k > 0
    ensures
        r >= 0 ==> r * k >= 0,
        r <= 0 ==> r * k <= 0,
        r > 0 ==> r * k > 0,
        r < 0 ==> r * k < 0,
        abs_int(r * k) == abs_int(r) * k,
{
    if r > 0 { assert(r * k > 0) by (nonlinear_arith) requires r > 0, k > 0; }
    else if r < 0 {
        assert(r * k < 0) by (nonlinear_arith) requires r < 0, k > 0;
        assert((-r) * k == -(r * k)) by (nonlinear_arith);
    }
    else { assert(0 * k == 0) by (nonlinear_arith); }
}

/// common positive factor: trunc_rem(a*k, y*k) == trunc_rem(a, y) * k
pub proof fn lemma_trunc_rem_scale(a: int, y: int, k: int)
    requires y != 0, k > 0
    ensures
        y * k != 0,
        trunc_rem(a * k, y * k) == trunc_rem(a, y) * k,
        trunc_div(a * k, y * k) == trunc_div(a, y),
{
    lemma_trunc_div_rem(a, y);
    let t0 = trunc_div(a, y);
    let r0 = trunc_rem(a, y);
    lemma_mul_sign(y, k);
    lemma_mul_sign(r0, k);
    lemma_mul_sign(a, k);
    assert(a * k == (y * k) * t0 + r0 * k) by (nonlinear_arith) requires a == y * t0 + r0;
    assert(abs_int(r0) * k < abs_int(y) * k) by (nonlinear_arith) requires abs_int(r0) < abs_int(y), k > 0;
    lemma_trunc_div_unique(a * k, y * k, t0, r0 * k);
}

/// one more factor on the dividend: only the remainder matters
pub proof fn lemma_trunc_rem_step(a: int, y: int, k: int)
    requires y != 0, k > 0
    ensures trunc_rem(trunc_rem(a, y) * k, y) == trunc_rem(a * k, y)
{
    lemma_trunc_div_rem(a, y);
    let t0 = trunc_div(a, y);
    let r0 = trunc_rem(a, y);
    lemma_trunc_div_rem(r0 * k, y);
    let t2 = trunc_div(r0 * k, y);
    let r2 = trunc_rem(r0 * k, y);
    lemma_mul_sign(r0, k);
    lemma_mul_sign(a, k);
    assert(a * k == y * (t0 * k + t2) + r2) by (nonlinear_arith)
        requires a == y * t0 + r0, r0 * k == y * t2 + r2;
    lemma_trunc_div_unique(a * k, y, t0 * k + t2, r2);
}

pub proof fn lemma_trunc_rem_zero_mul(a: int, y: int, k: int)
    requires y != 0, k > 0, trunc_rem(a, y) == 0
    ensures trunc_rem(a * k, y) == 0
{
    lemma_trunc_rem_step(a, y, k);
    assert(0 * k == 0) by (nonlinear_arith);
    lemma_trunc_rem_small(0, y);
}

pub proof fn lemma_trunc_rem_by_one(a: int)
    ensures trunc_rem(a, 1) == 0
{
    assert(1 * a == a) by (nonlinear_arith);
    lemma_trunc_div_unique(a, 1, a, 0);
}

// ---- digit-by-digit evaluation of trunc_rem(a * 10^n, y)
pub proof fn lemma_rem_shifted_zero(a: int, y: int)
    ensures rem_shifted(a, y, 0) == trunc_rem(a, y)
{
    assert(pow10(0) == 1);
    assert(a * 1 == a) by (nonlinear_arith);
}

pub proof fn lemma_rem_shifted_step(a: int, y: int, j: nat)
    requires y != 0
    ensures trunc_rem(rem_shifted(a, y, j) * 10, y) == rem_shifted(a, y, j + 1)
{
    let pj = pow10(j);
    assert(pow10(j + 1) == 10 * pj);
    assert((a * pj) * 10 == a * (10 * pj)) by (nonlinear_arith);
    lemma_trunc_rem_step(a * pj, y, 10);
}

/// once the running remainder is zero it stays zero
pub proof fn lemma_rem_shifted_zero_stays(a: int, y: int, j: nat, n: nat)
    requires y != 0, j <= n, rem_shifted(a, y, j) == 0
    ensures rem_shifted(a, y, n) == 0
{
    let s = (n - j) as nat;
    lemma_pow10_add(j, s);
    lemma_pow10_pos(s);
    assert((a * pow10(j)) * pow10(s) == a * pow10(n)) by (nonlinear_arith)
        requires pow10(n) == pow10(j) * pow10(s);
    lemma_trunc_rem_zero_mul(a * pow10(j), y, pow10(s));
}

pub proof fn lemma_rem_shifted_zero_stays_all(a: int, y: int, n: nat)
    requires y != 0
    ensures forall|j: nat| j <= n && #[trigger] rem_shifted(a, y, j) == 0 ==> rem_shifted(a, y, n) == 0
{
    assert forall|j: nat| j <= n && #[trigger] rem_shifted(a, y, j) == 0 implies rem_shifted(a, y, n) == 0 by {
        lemma_rem_shifted_zero_stays(a, y, j, n);
    }
}

/// |y * 10^k| exceeds the i128 range  ==>  every i128 a is its own remainder
pub proof fn lemma_trunc_rem_divisor_out_of_range(a: int, yk: int)
    requires in_coeff(a), !in_i128(yk)
    ensures trunc_rem(a, yk) == a
{
    lemma_trunc_rem_small(a, yk);
}

// ---- Decimal level
pub proof fn lemma_at_scale_nonzero(y: Decimal, m: u8)
    requires y.coeff != 0, m >= y.n_frac_digits
    ensures at_scale(y, m) != 0
{
    if m != y.n_frac_digits {
        let k = pow10((m - y.n_frac_digits) as nat);
        lemma_pow10_pos((m - y.n_frac_digits) as nat);
        lemma_mul_sign(y.coeff as int, k);
    }
}

/// zero dividend: the remainder is zero (any representation of zero is accepted by rem_result_ok)
pub proof fn lemma_rem_zero_dividend(x: Decimal, y: Decimal)
    requires x.coeff == 0, y.coeff != 0
    ensures
        rem_exact(x, y) == 0,
        rem_result_ok(x, y, Decimal { coeff: 0, n_frac_digits: 0 }),
{
    let m = rem_scale(x, y);
    lemma_at_scale_nonzero(y, m);
    assert(at_scale(x, m) == 0) by {
        if m != x.n_frac_digits { assert(0 * pow10((m - x.n_frac_digits) as nat) == 0) by (nonlinear_arith); }
    }
    lemma_trunc_rem_small(0, at_scale(y, m));
    let z = Decimal { coeff: 0, n_frac_digits: 0 };
    assert(at_scale(z, m) == 0) by {
        if m != 0 { assert(0 * pow10(m as nat) == 0) by (nonlinear_arith); }
    }
}

/// divisor equal to one (any representation 10^q / 10^q): the remainder is the fractional part of x
pub proof fn lemma_rem_by_one(x: Decimal, y: Decimal)
    requires is_one(y), x.n_frac_digits <= 18, y.n_frac_digits <= 18
    ensures
        rem_result_ok(x, y, Decimal { coeff: trunc_rem(x.coeff as int, pow10(x.n_frac_digits as nat)) as i128, n_frac_digits: x.n_frac_digits }),
        in_i128(trunc_rem(x.coeff as int, pow10(x.n_frac_digits as nat))),
        x.n_frac_digits == 0 ==> trunc_rem(x.coeff as int, pow10(x.n_frac_digits as nat)) == 0,
{
    let p = x.n_frac_digits;
    let q = y.n_frac_digits;
    let m = rem_scale(x, y);
    let pp = pow10(p as nat);
    lemma_pow10_pos(p as nat);
    lemma_trunc_div_rem(x.coeff as int, pp);
    let f = trunc_rem(x.coeff as int, pp);
    lemma_trunc_rem_le_dividend(x.coeff as int, pp);
    assert(in_i128(f));
    if p == 0 { lemma_trunc_rem_by_one(x.coeff as int); }
    let r = Decimal { coeff: f as i128, n_frac_digits: p };
    if p >= q {
        // m == p: X == cx, Y == 10^q * 10^(p-q) == 10^p
        if p > q {
            lemma_pow10_add(q as nat, (p - q) as nat);
        }
        assert(at_scale(y, m) == pp);
        assert(at_scale(x, m) == x.coeff);
        assert(at_scale(r, m) == f);
    } else {
        // m == q: X == cx * k, Y == 10^q == 10^p * k
        let k = pow10((q - p) as nat);
        lemma_pow10_pos((q - p) as nat);
        lemma_pow10_add(p as nat, (q - p) as nat);
        assert(at_scale(y, m) == pp * k);
        assert(at_scale(x, m) == x.coeff * k);
        lemma_trunc_rem_scale(x.coeff as int, pp, k);
        assert(at_scale(r, m) == f * k);
    }
}

/// general case: the coefficient rem_exact at scale max(p, q)
pub proof fn lemma_rem_general(x: Decimal, y: Decimal)
    requires valid(x), valid(y), y.coeff != 0
    ensures
        in_i128(rem_exact(x, y)),
        rem_result_ok(x, y, Decimal { coeff: rem_exact(x, y) as i128, n_frac_digits: rem_scale(x, y) }),
        rem_scale(x, y) <= 18,
{
    let m = rem_scale(x, y);
    lemma_at_scale_nonzero(y, m);
    lemma_trunc_div_rem(at_scale(x, m), at_scale(y, m));
    // |rem| <= |X| and |rem| < |Y|; one of X, Y is an i128 coefficient itself
    let rr = rem_exact(x, y);
    if m == x.n_frac_digits {
        assert(at_scale(x, m) == x.coeff);
        lemma_trunc_rem_le_dividend(at_scale(x, m), at_scale(y, m));
    } else {
        assert(m == y.n_frac_digits);
        assert(at_scale(y, m) == y.coeff);
    }
}

pub proof fn lemma_trunc_rem_le_dividend(a: int, y: int)
    requires y != 0
    ensures abs_int(trunc_rem(a, y)) <= abs_int(a)
{
    lemma_trunc_div_rem(a, y);
    vstd::arithmetic::div_mod::lemma_fundamental_div_mod(abs_int(a), abs_int(y));
    vstd::arithmetic::div_mod::lemma_div_pos_is_pos(abs_int(a), abs_int(y));
    let q = abs_int(a) / abs_int(y);
    assert(abs_int(y) * q >= 0) by (nonlinear_arith) requires abs_int(y) > 0, q >= 0;
}

/// c * 10^s (s >= 1) is a multiple of 5, i128::MIN = -2^127 is not
pub proof fn lemma_mul_pow10_not_min(c: int, s: nat)
    requires s >= 1
    ensures c * pow10(s) != i128::MIN as int
{
    let t = pow10((s - 1) as nat);
    assert(pow10(s) == 10 * t);
    assert(c * pow10(s) == 5 * (2 * c * t)) by (nonlinear_arith) requires pow10(s) == 10 * t;
    assert((5 * (2 * c * t)) % 5 == 0) by (nonlinear_arith);
    assert((i128::MIN as int) % 5 != 0);
}

/// rem_result_ok is the statement: at scale m = max(p, q) the result R satisfies X == Y*t + R for an
/// integer t, |R| < |Y|, R zero or of the sign of X - and it is the only such value
pub proof fn lemma_rem_result_meets_statement(x: Decimal, y: Decimal, r: Decimal)
    requires y.coeff != 0, rem_scale(x, y) >= r.n_frac_digits
    ensures
        rem_result_ok(x, y, r) <==> is_trunc_rem(at_scale(x, rem_scale(x, y)), at_scale(y, rem_scale(x, y)), at_scale(r, rem_scale(x, y))),
{
    let m = rem_scale(x, y);
    lemma_at_scale_nonzero(y, m);
    lemma_trunc_rem_characterization(at_scale(x, m), at_scale(y, m), at_scale(r, m));
}
