
// ---- C01: addition / subtraction (from the property statement)
pub open spec fn ok_add(x: Decimal, y: Decimal) -> bool {
    let m = max_u8(x.n_frac_digits, y.n_frac_digits);
    in_i128(at_scale(x, m)) && in_i128(at_scale(y, m)) && in_i128(at_scale(x, m) + at_scale(y, m))
}

pub open spec fn spec_add(x: Decimal, y: Decimal) -> Decimal {
    let m = max_u8(x.n_frac_digits, y.n_frac_digits);
    Decimal { coeff: (at_scale(x, m) + at_scale(y, m)) as i128, n_frac_digits: m }
}

pub open spec fn ok_sub(x: Decimal, y: Decimal) -> bool {
    let m = max_u8(x.n_frac_digits, y.n_frac_digits);
    in_i128(at_scale(x, m)) && in_i128(at_scale(y, m)) && in_i128(at_scale(x, m) - at_scale(y, m))
}

pub open spec fn spec_sub(x: Decimal, y: Decimal) -> Decimal {
    let m = max_u8(x.n_frac_digits, y.n_frac_digits);
    Decimal { coeff: (at_scale(x, m) - at_scale(y, m)) as i128, n_frac_digits: m }
}
