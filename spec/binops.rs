
// ---- C01: addition / subtraction (from the property statement)
pub open spec fn ok_add(x: Decimal, y: Decimal) -> bool {
    let m = max_u8(x.n_frac_digits, y.n_frac_digits);
    in_i128(at_scale(x, m)) && in_i128(at_scale(y, m)) && in_i128(at_scale(x, m) + at_scale(y, m))
}

pub open spec fn spec_add(x: Decimal, y: Decimal) -> Decimal {
    let m = max_u8(x.n_frac_digits, y.n_frac_digits);
    Decimal { coeff: (at_scale(x, m) + at_scale(y, m)) as i128, n_frac_digits: m }
}

pub open spec fn ok_sub(x: Decimal, y: Decimal) -> bool {
    let m = max_u8(x.n_frac_digits, y.n_frac_digits);
    in_i128(at_scale(x, m)) && in_i128(at_scale(y, m)) && in_i128(at_scale(x, m) - at_scale(y, m))
}

pub open spec fn spec_sub(x: Decimal, y: Decimal) -> Decimal {
    let m = max_u8(x.n_frac_digits, y.n_frac_digits);
    Decimal { coeff: (at_scale(x, m) - at_scale(y, m)) as i128, n_frac_digits: m }
}

// ---- C03 / C04: division. value(x)/value(y) = (cx * 10^q) / (cy * 10^p); coefficient at n fractional digits
/// numerator (sign of the divisor moved to the numerator) of the exact quotient scaled by 10^n
pub open spec fn div_num(x: Decimal, y: Decimal, n: int) -> int {
    (if y.coeff < 0 { -(x.coeff as int) } else { x.coeff as int }) * pow10((y.n_frac_digits + n) as nat)
}

pub open spec fn div_den(x: Decimal, y: Decimal) -> int {
    abs_int(y.coeff as int) * pow10(x.n_frac_digits as nat)
}

/// the exact quotient rounded ONCE to n fractional digits, as coefficient
pub open spec fn div_coeff(x: Decimal, y: Decimal, n: int, mode: RoundingMode) -> int {
    round_div(div_num(x, y, n), div_den(x, y), mode)
}

/// remove trailing fractional zeros
pub open spec fn strip(c: int, n: nat) -> (int, nat)
    decreases n
{
    if c == 0 { (0, 0) } else if n > 0 && c % 10 == 0 { strip(c / 10, (n - 1) as nat) } else { (c, n) }
}

pub open spec fn is_one(y: Decimal) -> bool { y.coeff == pow10(y.n_frac_digits as nat) }

pub open spec fn ok_div_rounded(x: Decimal, y: Decimal, n: int, mode: RoundingMode) -> bool {
    n <= 18 && y.coeff != 0 && (x.coeff == 0 || in_coeff(div_coeff(x, y, n, mode)))
}

/// dev-profile form: if the call returned, the result fits (at coefficient -2^127, outside Decimal::MIN..=MAX, both outcomes are accepted)
pub open spec fn ok_div_rounded_ret(x: Decimal, y: Decimal, n: int, mode: RoundingMode) -> bool {
    n <= 18 && y.coeff != 0 && (x.coeff == 0 || in_i128(div_coeff(x, y, n, mode)))
}

pub open spec fn spec_div_rounded(x: Decimal, y: Decimal, n: int, mode: RoundingMode) -> Decimal {
    if x.coeff == 0 { Decimal { coeff: 0, n_frac_digits: 0 } }
    else { Decimal { coeff: div_coeff(x, y, n, mode) as i128, n_frac_digits: n as u8 } }
}

pub open spec fn ok_div(x: Decimal, y: Decimal, mode: RoundingMode) -> bool {
    y.coeff != 0 && (x.coeff == 0 || is_one(y) || in_coeff(div_coeff(x, y, 18, mode)))
}

pub open spec fn ok_div_ret(x: Decimal, y: Decimal, mode: RoundingMode) -> bool {
    y.coeff != 0 && (x.coeff == 0 || is_one(y) || in_i128(div_coeff(x, y, 18, mode)))
}

pub open spec fn spec_div(x: Decimal, y: Decimal, mode: RoundingMode) -> Decimal {
    if x.coeff == 0 { Decimal { coeff: 0, n_frac_digits: 0 } }
    else if is_one(y) { x }
    else {
        let s = strip(div_coeff(x, y, 18, mode), 18);
        Decimal { coeff: s.0 as i128, n_frac_digits: s.1 as u8 }
    }
}

// ---- C02 / C04: multiplication. value(x)*value(y) = (cx*cy) / 10^(p+q)
pub open spec fn mul_scale(x: Decimal, y: Decimal, n: int) -> int {
    if n >= x.n_frac_digits + y.n_frac_digits { x.n_frac_digits + y.n_frac_digits } else { n }
}

/// exact product rounded once to at most n fractional digits, as coefficient at scale mul_scale
pub open spec fn mul_coeff(x: Decimal, y: Decimal, n: int, mode: RoundingMode) -> int {
    let pq = x.n_frac_digits + y.n_frac_digits;
    if n >= pq { x.coeff * y.coeff } else { round_div(x.coeff * y.coeff, pow10((pq - n) as nat), mode) }
}

pub open spec fn is_zero(x: Decimal) -> bool { x.coeff == 0 }

/// operators `*` / `*=` on two Decimals (n = 18), with the documented zero / one short-cuts
pub open spec fn ok_mul(x: Decimal, y: Decimal, mode: RoundingMode) -> bool {
    is_zero(x) || is_zero(y) || is_one(x) || is_one(y) || in_coeff(mul_coeff(x, y, 18, mode))
}

pub open spec fn ok_mul_ret(x: Decimal, y: Decimal, mode: RoundingMode) -> bool {
    is_zero(x) || is_zero(y) || is_one(x) || is_one(y) || in_i128(mul_coeff(x, y, 18, mode))
}

pub open spec fn mul_general(x: Decimal, y: Decimal, n: int, mode: RoundingMode) -> Decimal {
    Decimal { coeff: mul_coeff(x, y, n, mode) as i128, n_frac_digits: mul_scale(x, y, n) as u8 }
}

/// the result of x * y; when both operands are one either of them is acceptable (value-equal)
pub open spec fn mul_result_ok(x: Decimal, y: Decimal, mode: RoundingMode, r: Decimal) -> bool {
    if is_zero(x) || is_zero(y) { r == (Decimal { coeff: 0, n_frac_digits: 0 }) }
    else if is_one(x) && is_one(y) { r == x || r == y }
    else if is_one(y) { r == x }
    else if is_one(x) { r == y }
    else { r == mul_general(x, y, 18, mode) }
}

/// deterministic choice used as the vstd `mul_spec` value (the code tests the right operand first)
pub open spec fn spec_mul(x: Decimal, y: Decimal, mode: RoundingMode) -> Decimal {
    if is_zero(x) || is_zero(y) { Decimal { coeff: 0, n_frac_digits: 0 } }
    else if is_one(y) { x }
    else if is_one(x) { y }
    else { mul_general(x, y, 18, mode) }
}

/// Decimal * integer: exact, the Decimal's scale, no short-cuts
pub open spec fn spec_mul_int(x: Decimal, y: Decimal) -> Decimal {
    Decimal { coeff: (x.coeff * y.coeff) as i128, n_frac_digits: (x.n_frac_digits + y.n_frac_digits) as u8 }
}
