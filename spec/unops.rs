
// ---- C15: unary operations and predicates (from the property statement; value of d is c / 10^f,
//      every inequality is cross-multiplied by p = 10^f > 0 so that it is a statement over integers)

/// q is the largest integer <= c/p
pub open spec fn is_floor(c: int, p: int, q: int) -> bool { q * p <= c < (q + 1) * p }

/// q is the smallest integer >= c/p
pub open spec fn is_ceil(c: int, p: int, q: int) -> bool { (q - 1) * p < c <= q * p }

/// t is the integer part of c/p towards zero: |t| = floor(|c|/p), t carries the sign of c (or is 0)
pub open spec fn is_trunc(c: int, p: int, t: int) -> bool {
    abs_int(t) * p <= abs_int(c) < (abs_int(t) + 1) * p && (c >= 0 ==> t >= 0) && (c <= 0 ==> t <= 0)
}

/// the integer part towards zero is unique, and it is the truncating quotient
pub proof fn lemma_trunc_unique(c: int, p: int, t: int)
    requires p > 0, is_trunc(c, p, t)
    ensures t == trunc_div(c, p)
{
    lemma_trunc_div_rem(c, p);
    let a = abs_int(c);
    let u = abs_int(t);
    // u * p <= a < (u + 1) * p  ==>  a / p == u
    assert((u + 1) * p == u * p + p) by (nonlinear_arith);
    lemma_div_mod_unique(a, p, u, a - u * p);
    assert(abs_int(trunc_div(c, p)) == u);
}

pub proof fn lemma_trunc_is_trunc(c: int, p: int)
    requires p > 0
    ensures is_trunc(c, p, trunc_div(c, p))
{
    lemma_trunc_div_rem(c, p);
    let a = abs_int(c);
    vstd::arithmetic::div_mod::lemma_fundamental_div_mod(a, p);
    vstd::arithmetic::div_mod::lemma_mod_bound(a, p);
    let u = a / p;
    assert((u + 1) * p == u * p + p) by (nonlinear_arith);
    assert(u * p == p * u) by (nonlinear_arith);
    vstd::arithmetic::div_mod::lemma_div_pos_is_pos(a, p);
}

/// a / b for b != 0 rounded towards -infinity resp. +infinity (both signs of b)
pub open spec fn is_floor_q(a: int, b: int, q: int) -> bool {
    if b > 0 { q * b <= a < (q + 1) * b } else { q * b >= a > (q + 1) * b }
}

pub open spec fn is_ceil_q(a: int, b: int, q: int) -> bool {
    if b > 0 { (q - 1) * b < a <= q * b } else { (q - 1) * b > a >= q * b }
}

pub proof fn lemma_mul_step(q: int, b: int)
    ensures (q + 1) * b == q * b + b, (q - 1) * b == q * b - b
{
    assert((q + 1) * b == q * b + b) by (nonlinear_arith);
    assert((q - 1) * b == q * b - b) by (nonlinear_arith);
}
