
// R8 (floats): std methods without a vstd specification used by the float conversions.
// Each item is an unchecked assumption about the Rust standard library (documented semantics).
// (`i128::signum`, `i128::from(u64)` are in std_assumed.rs; `i128::checked_mul`, `i128::from(i8)`,
//  `i128::BITS` have vstd specifications.)

/// the bit pattern of a float (`to_bits` is a transmute); everything float-related is phrased over it
pub uninterp spec fn f64_bits(f: f64) -> u64;
pub uninterp spec fn f32_bits(f: f32) -> u32;

pub assume_specification [f64::to_bits](f: f64) -> (r: u64) ensures r == f64_bits(f);

pub assume_specification [f64::is_nan](f: f64) -> (r: bool) ensures r == f64_is_nan_bits(f64_bits(f));

pub assume_specification [f64::is_infinite](f: f64) -> (r: bool) ensures r == f64_is_inf_bits(f64_bits(f));

pub assume_specification [f32::to_bits](f: f32) -> (r: u32) ensures r == f32_bits(f);

pub assume_specification [f32::is_nan](f: f32) -> (r: bool) ensures r == f32_is_nan_bits(f32_bits(f));

pub assume_specification [f32::is_infinite](f: f32) -> (r: bool) ensures r == f32_is_inf_bits(f32_bits(f));

/// `i128::abs` overflows (panics in debug, wraps in release) exactly for i128::MIN
