
// ---- decimal notation (C07 / C11). Mathematics only: nothing here is derived from /repo's code.
// Needs base.rs (pow10, abs_int).

pub open spec fn digit_char(d: int) -> char
    recommends 0 <= d <= 9
{
    if d == 0 { '0' } else if d == 1 { '1' } else if d == 2 { '2' } else if d == 3 { '3' } else if d == 4 { '4' }
    else if d == 5 { '5' } else if d == 6 { '6' } else if d == 7 { '7' } else if d == 8 { '8' } else { '9' }
}

/// value of a decimal digit character, -1 for every other character
pub open spec fn digit_char_val(ch: char) -> int {
    if ch == '0' { 0 } else if ch == '1' { 1 } else if ch == '2' { 2 } else if ch == '3' { 3 } else if ch == '4' { 4 }
    else if ch == '5' { 5 } else if ch == '6' { 6 } else if ch == '7' { 7 } else if ch == '8' { 8 } else if ch == '9' { 9 }
    else { -1 }
}

pub open spec fn is_digit_char(ch: char) -> bool { digit_char_val(ch) >= 0 }

/// decimal notation of n without leading zeros ("0" for 0)
pub open spec fn digits(n: nat) -> Seq<char>
    decreases n
{
    if n < 10 { seq![digit_char(n as int)] } else { digits(n / 10).push(digit_char((n % 10) as int)) }
}

/// the w low-order decimal digits of n, i.e. n written with exactly w digits (leading zeros) when n < 10^w
pub open spec fn fixed(n: nat, w: nat) -> Seq<char>
    decreases w
{
    if w == 0 { Seq::empty() } else { fixed(n / 10, (w - 1) as nat).push(digit_char((n % 10) as int)) }
}

pub open spec fn sign_str(c: int) -> Seq<char> { if c < 0 { seq!['-'] } else { Seq::empty() } }

/// m / 10^f as "<integer part>[.<exactly f digits>]" (the point is present iff f > 0)
pub open spec fn canonical_abs(m: nat, f: nat) -> Seq<char> {
    let ip = digits((m as int / pow10(f)) as nat);
    if f > 0 { ip + (seq!['.'] + fixed((m as int % pow10(f)) as nat, f)) } else { ip }
}

/// the canonical string of the Decimal with coefficient c and f fractional digits (statement of C07)
pub open spec fn canonical(c: int, f: nat) -> Seq<char> {
    sign_str(c) + canonical_abs(abs_int(c) as nat, f)
}

/// s left-padded with `ch` to at least w characters
pub open spec fn left_pad(s: Seq<char>, w: nat, ch: char) -> Seq<char> {
    if s.len() >= w { s } else { Seq::new((w - s.len()) as nat, |i: int| ch) + s }
}

// ---- reading a string back (own small recogniser of the shape  [-] digit+ [ . digit* ] )
pub open spec fn all_digit_chars(s: Seq<char>) -> bool { forall|i: int| 0 <= i < s.len() ==> is_digit_char(#[trigger] s[i]) }

/// value of a digit string (most significant digit first); the empty string has value 0
pub open spec fn dec_value(s: Seq<char>) -> int
    decreases s.len()
{
    if s.len() == 0 { 0 } else { 10 * dec_value(s.drop_last()) + digit_char_val(s.last()) }
}

/// s is  [-] ip [. fp]  with ip a non-empty digit string without superfluous leading zero, fp a digit
/// string, the point present iff fp is non-empty; no exponent part
pub open spec fn literal_shape(s: Seq<char>, neg: bool, ip: Seq<char>, fp: Seq<char>) -> bool {
    &&& s == (if neg { seq!['-'] } else { Seq::<char>::empty() }) + (ip + (if fp.len() > 0 { seq!['.'] + fp } else { Seq::<char>::empty() }))
    &&& ip.len() >= 1
    &&& all_digit_chars(ip)
    &&& all_digit_chars(fp)
    &&& (ip.len() == 1 || ip[0] != '0')
}

// ---- lemmas
pub proof fn lemma_digit_char(d: int)
    requires 0 <= d <= 9
    ensures digit_char_val(digit_char(d)) == d, is_digit_char(digit_char(d)), (digit_char(d) == '0') == (d == 0)
{
}

pub proof fn lemma_digits_props(n: nat)
    ensures
        digits(n).len() >= 1,
        all_digit_chars(digits(n)),
        dec_value(digits(n)) == n,
        digits(n).len() == 1 || digits(n)[0] != '0',
        n < 10 ==> digits(n).len() == 1,
    decreases n
{
    let s = digits(n);
    if n < 10 {
        lemma_digit_char(n as int);
        assert(s.drop_last() =~= Seq::<char>::empty());
        assert(s.last() == digit_char(n as int));
        assert(dec_value(s.drop_last()) == 0);
    } else {
        lemma_digits_props(n / 10);
        lemma_digit_char((n % 10) as int);
        let h = digits(n / 10);
        assert(s.drop_last() =~= h);
        assert(s.last() == digit_char((n % 10) as int));
        assert forall|i: int| 0 <= i < s.len() implies is_digit_char(#[trigger] s[i]) by {
            if i < h.len() { assert(s[i] == h[i]); }
        }
        assert(s[0] == h[0]);
        if h.len() == 1 {
            // n / 10 >= 1, so its single digit is not '0'
            assert(h =~= digits(n / 10));
            if n / 10 < 10 { lemma_digit_char((n / 10) as int); }
            assert(dec_value(h) == n / 10);
            assert(h.drop_last() =~= Seq::<char>::empty());
            assert(dec_value(h.drop_last()) == 0);
            assert(digit_char_val(h[0]) == n / 10);
        }
    }
}

pub proof fn lemma_digits_len(n: nat, w: nat)
    requires n < pow10(w)
    ensures 1 <= digits(n).len(), w >= 1 ==> digits(n).len() <= w
    decreases w
{
    lemma_digits_props(n);
    if w == 0 {
        assert(pow10(0) == 1) by { reveal_with_fuel(pow10, 2); }
    } else if n >= 10 {
        assert(pow10(w) == 10 * pow10((w - 1) as nat));
        if w == 1 { assert(pow10(0) == 1) by { reveal_with_fuel(pow10, 2); } }
        lemma_digits_len(n / 10, (w - 1) as nat);
    }
}

pub proof fn lemma_fixed_props(n: nat, w: nat)
    ensures fixed(n, w).len() == w, all_digit_chars(fixed(n, w))
    decreases w
{
    if w > 0 {
        lemma_fixed_props(n / 10, (w - 1) as nat);
        lemma_digit_char((n % 10) as int);
        let s = fixed(n, w);
        let h = fixed(n / 10, (w - 1) as nat);
        assert forall|i: int| 0 <= i < s.len() implies is_digit_char(#[trigger] s[i]) by {
            if i < h.len() { assert(s[i] == h[i]); }
        }
    }
}

pub proof fn lemma_fixed_zero(w: nat)
    ensures fixed(0, w) =~= Seq::new(w, |i: int| '0')
    decreases w
{
    if w > 0 {
        lemma_fixed_zero((w - 1) as nat);
        lemma_fixed_props(0, w);
        assert(0nat / 10 == 0 && 0nat % 10 == 0);
    }
}

/// zero padding the plain notation of n to width w gives the w-digit notation (n < 10^w, w >= 1)
pub proof fn lemma_zero_pad_digits(n: nat, w: nat)
    requires n < pow10(w), w >= 1
    ensures left_pad(digits(n), w, '0') == fixed(n, w)
    decreases w
{
    lemma_digits_len(n, w);
    lemma_fixed_props(n, w);
    let d = digit_char((n % 10) as int);
    if n < 10 {
        lemma_fixed_zero((w - 1) as nat);
        assert(n / 10 == 0 && n % 10 == n);
        assert(left_pad(digits(n), w, '0') =~= fixed(n, w));
    } else {
        assert(pow10(w) == 10 * pow10((w - 1) as nat));
        if w == 1 { assert(pow10(0) == 1) by { reveal_with_fuel(pow10, 2); } }
        lemma_zero_pad_digits(n / 10, (w - 1) as nat);
        lemma_digits_len(n / 10, (w - 1) as nat);
        lemma_fixed_props(n / 10, (w - 1) as nat);
        let h = digits(n / 10);
        assert(digits(n) == h.push(d));
        assert(left_pad(h.push(d), w, '0') =~= left_pad(h, (w - 1) as nat, '0').push(d));
    }
}

/// reading "<ip><fp>" as one digit string: value(ip) * 10^|fp| + value(fp), for ip = digits(q), fp = fixed(r, f)
pub proof fn lemma_dec_value_concat(q: nat, r: nat, f: nat)
    requires r < pow10(f)
    ensures dec_value(digits(q) + fixed(r, f)) == q * pow10(f) + r
    decreases f
{
    let s = digits(q) + fixed(r, f);
    if f == 0 {
        assert(pow10(0) == 1) by { reveal_with_fuel(pow10, 2); }
        assert(s =~= digits(q));
        lemma_digits_props(q);
        assert(q * 1 == q);
    } else {
        let h = fixed(r / 10, (f - 1) as nat);
        let d = digit_char((r % 10) as int);
        lemma_digit_char((r % 10) as int);
        assert(pow10(f) == 10 * pow10((f - 1) as nat));
        lemma_dec_value_concat(q, r / 10, (f - 1) as nat);
        assert(s =~= (digits(q) + h).push(d));
        assert(s.drop_last() =~= digits(q) + h);
        assert(s.last() == d);
        let pf = pow10((f - 1) as nat);
        assert(10 * (q * pf + r / 10) + r % 10 == q * (10 * pf) + r) by (nonlinear_arith)
            requires r == 10 * (r / 10) + r % 10;
    }
}

/// quotient / remainder of m by 10^f, with the facts every user needs
pub proof fn lemma_split_pow10(m: nat, f: nat)
    ensures
        pow10(f) >= 1,
        m as int / pow10(f) >= 0,
        0 <= m as int % pow10(f) < pow10(f),
        m == (m as int / pow10(f)) * pow10(f) + m as int % pow10(f),
{
    lemma_pow10_pos(f);
    vstd::arithmetic::div_mod::lemma_fundamental_div_mod(m as int, pow10(f));
    vstd::arithmetic::div_mod::lemma_mod_bound(m as int, pow10(f));
    vstd::arithmetic::div_mod::lemma_div_pos_is_pos(m as int, pow10(f));
    assert(pow10(f) * (m as int / pow10(f)) == (m as int / pow10(f)) * pow10(f)) by (nonlinear_arith);
}

/// C07, round-trip half: the canonical string is a literal  [-] digits [. digits{f}]  without exponent whose
/// digit string reads |c|, whose fraction has exactly f digits and whose sign is that of c.
pub proof fn lemma_canonical_is_literal(c: int, f: nat)
    ensures ({
        let m = abs_int(c) as nat;
        let ip = digits((m as int / pow10(f)) as nat);
        let fp = fixed((m as int % pow10(f)) as nat, f);
        &&& literal_shape(canonical(c, f), c < 0, ip, fp)
        &&& fp.len() == f
        &&& dec_value(ip + fp) == abs_int(c)
    })
{
    let m = abs_int(c) as nat;
    lemma_split_pow10(m, f);
    let q = (m as int / pow10(f)) as nat;
    let r = (m as int % pow10(f)) as nat;
    lemma_digits_props(q);
    lemma_fixed_props(r, f);
    lemma_dec_value_concat(q, r, f);
    let ip = digits(q);
    let fp = fixed(r, f);
    if f == 0 {
        assert(canonical_abs(m, f) =~= ip + Seq::<char>::empty());
    }
}

/// a decomposition m = i * 10^p + fr (0 <= fr < 10^p) determines both parts of the notation
pub proof fn lemma_canonical_abs_parts(m: nat, p: nat, i: int, fr: int)
    requires 0 <= fr < pow10(p), m == i * pow10(p) + fr
    ensures
        i >= 0,
        i == m as int / pow10(p),
        fr == m as int % pow10(p),
        canonical_abs(m, p) == (if p > 0 { digits(i as nat) + (seq!['.'] + fixed(fr as nat, p)) } else { digits(i as nat) }),
{
    lemma_pow10_pos(p);
    lemma_div_mod_unique(m as int, pow10(p), i, fr);
    lemma_split_pow10(m, p);
}

// ---- sequence algebra (concatenation is associative, the empty sequence is its left unit)
pub broadcast proof fn lemma_seq_add_assoc(a: Seq<char>, b: Seq<char>, c: Seq<char>)
    ensures #[trigger] ((a + b) + c) == a + (b + c)
{
    assert(((a + b) + c) =~= a + (b + c));
}

pub broadcast proof fn lemma_seq_empty_add(a: Seq<char>)
    ensures #[trigger] (Seq::<char>::empty() + a) == a
{
    assert((Seq::<char>::empty() + a) =~= a);
}
