
// ---- Decimal-level vocabulary (value of d is d.coeff / 10^d.n_frac_digits)
/// the quantifier domain of every property: |coeff| <= 2^127-1, 0..=18 fractional digits
pub open spec fn valid(d: Decimal) -> bool { d.n_frac_digits <= 18 && d.coeff > i128::MIN }

/// what every *result* must satisfy
pub open spec fn wf(d: Decimal) -> bool { d.n_frac_digits <= 18 }

pub open spec fn dec(c: int, n: int) -> Decimal { Decimal { coeff: c as i128, n_frac_digits: n as u8 } }

pub open spec fn dec_of(i: int) -> Decimal { Decimal { coeff: i as i128, n_frac_digits: 0 } }

pub open spec fn max_u8(a: u8, b: u8) -> u8 { if a >= b { a } else { b } }

/// coefficient of d re-expressed with s >= d.n_frac_digits fractional digits
pub open spec fn at_scale(d: Decimal, s: u8) -> int
    recommends s >= d.n_frac_digits
{
    // (the s == scale case is written out so that no proof depends on c * 10^0 == c)
    if s == d.n_frac_digits { d.coeff as int } else { d.coeff * pow10((s - d.n_frac_digits) as nat) }
}

/// sign of (value of x) - (value of y)
pub open spec fn val_cmp(x: Decimal, y: Decimal) -> int {
    let m = max_u8(x.n_frac_digits, y.n_frac_digits);
    sgn(at_scale(x, m) - at_scale(y, m))
}

pub open spec fn ord_of(s: int) -> Ordering {
    if s < 0 { Ordering::Less } else if s == 0 { Ordering::Equal } else { Ordering::Greater }
}
