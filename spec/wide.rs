
// ---- C16: 256-bit intermediates.  Mathematics only: nothing in this file is derived from /repo's code.
// Vocabulary: numbers in base 2^64 ("limbs"), schoolbook multiplication and long division, floor
// division of a signed numerator by a positive modulus.

pub open spec fn B64() -> int { 0x1_0000_0000_0000_0000 }

/// 2^128 (does not fit a Rust literal)
pub open spec fn B128() -> int { B64() * B64() }

/// value of the two-word number (h, l) in base 2^128
pub open spec fn u256(h: int, l: int) -> int { h * B128() + l }

// (floor_quot / floor_rem: mathematical floor division for either sign of the divisor, see base.rs)

pub proof fn lemma_b128()
    ensures B128() == 0xffff_ffff_ffff_ffff_ffff_ffff_ffff_ffffu128 + 1, B128() == u128::MAX + 1,
        B64() == 0xffff_ffff_ffff_ffffu64 + 1,
{
}

// ---- shifts and masks by 64 as arithmetic in base 2^64 (bit-vector facts)
pub broadcast proof fn lemma_shr64(u: u128)
    ensures #[trigger] (u >> 64) == (u as int) / B64()
{
    assert((u >> 64) == u / 0x1_0000_0000_0000_0000u128) by (bit_vector);
}

pub broadcast proof fn lemma_lo64(u: u128)
    ensures #[trigger] (u & 0xffffffffffffffff) == (u as int) % B64(),
            (u & 0xffffffffffffffff) < 0x1_0000_0000_0000_0000u128,
{
    assert((u & 0xffffffffffffffff) == u % 0x1_0000_0000_0000_0000u128) by (bit_vector);
    assert((u & 0xffffffffffffffff) < 0x1_0000_0000_0000_0000u128) by (bit_vector);
}

pub broadcast proof fn lemma_shl64(u: u128)
    requires u < 0x1_0000_0000_0000_0000u128
    ensures #[trigger] (u << 64) == (u as int) * B64(),
            // stated as plain bounds as well (range facts keep the overflow checks of `lo + (x << 64)` linear)
            (u << 64) <= 0xffffffffffffffff_0000000000000000u128,
            forall|w: u128| w < 0x1_0000_0000_0000_0000u128 ==> #[trigger] (w + (u << 64)) <= u128::MAX,
{
    assert(u < 0x1_0000_0000_0000_0000u128 ==> (u << 64) <= 0xffffffffffffffff_0000000000000000u128) by (bit_vector);
    assert(u < 0x1_0000_0000_0000_0000u128 ==> (u << 64) == mul(u, 0x1_0000_0000_0000_0000u128)) by (bit_vector);
    assert((u as int) * B64() < B128()) by (nonlinear_arith) requires 0 <= u < B64();
}

pub proof fn lemma_limb_prod(a: int, b: int)
    requires 0 <= a < B64(), 0 <= b < B64()
    ensures 0 <= a * b <= (B64() - 1) * (B64() - 1)
{
    assert(0 <= a * b <= (B64() - 1) * (B64() - 1)) by (nonlinear_arith)
        requires 0 <= a <= B64() - 1, 0 <= b <= B64() - 1;
}

pub proof fn lemma_expand_2x2(a: int, b: int, c: int, d: int, k: int)
    ensures (a * k + b) * (c * k + d) == (a * c) * (k * k) + (a * d) * k + (b * c) * k + b * d
{
    let s = a * k + b;
    vstd::arithmetic::mul::lemma_mul_is_distributive_add(s, c * k, d);
    vstd::arithmetic::mul::lemma_mul_is_distributive_add_other_way(c * k, a * k, b);
    vstd::arithmetic::mul::lemma_mul_is_distributive_add_other_way(d, a * k, b);
    assert((a * k) * (c * k) == (a * c) * (k * k)) by (nonlinear_arith);
    assert(b * (c * k) == (b * c) * k) by (nonlinear_arith);
    assert((a * k) * d == (a * d) * k) by (nonlinear_arith);
}

pub proof fn lemma_mul_lt(a: int, ub_a: int, b: int, ub_b: int)
    requires 0 <= a < ub_a, 0 <= b < ub_b
    ensures 0 <= a * b < ub_a * ub_b
{
    assert(0 <= a * b < ub_a * ub_b) by (nonlinear_arith) requires 0 <= a < ub_a, 0 <= b < ub_b;
}

// ---- schoolbook multiplication of two 2-limb numbers with 128-bit accumulators
/// The three partial sums t0, t1, t2 never exceed 2^128 - 1 and the assembled
/// (high, low) words represent x * y exactly.
pub proof fn lemma_mul_limbs(x: int, y: int)
    requires 0 <= x < B128(), 0 <= y < B128()
    ensures ({
        let b = B64();
        let xh = x / b; let xl = x % b; let yh = y / b; let yl = y % b;
        let t0 = xl * yl;
        let t1 = xl * yh + t0 / b;
        let t2 = xh * yl + t1 % b;
        let rl = t0 % b + (t2 % b) * b;
        let rh = t1 / b + (xh * yh + t2 / b);
        &&& 0 <= xh < b && 0 <= xl < b && 0 <= yh < b && 0 <= yl < b
        &&& 0 <= t0 < B128() && 0 <= xl * yh < B128() && 0 <= t1 < B128()
        &&& 0 <= xh * yl < B128() && 0 <= t2 < B128() && 0 <= xh * yh < B128()
        &&& 0 <= t2 % b < b && 0 <= (t2 % b) * b < B128() && 0 <= rl < B128()
        &&& 0 <= xh * yh + t2 / b < B128() && 0 <= rh < B128()
        &&& rh * B128() + rl == x * y
    })
{
    let b = B64();
    let xh = x / b; let xl = x % b; let yh = y / b; let yl = y % b;
    lemma_limb_prod(xl, yl);
    lemma_limb_prod(xl, yh);
    lemma_limb_prod(xh, yl);
    lemma_limb_prod(xh, yh);
    let t0 = xl * yl;
    let t1 = xl * yh + t0 / b;
    let t2 = xh * yl + t1 % b;
    let rl = t0 % b + (t2 % b) * b;
    let rh = t1 / b + (xh * yh + t2 / b);
    assert(x * y == (xh * b + xl) * (yh * b + yl));
    lemma_expand_2x2(xh, xl, yh, yl, b);
    assert(B128() == b * b);
    assert(rh * B128() + rl == x * y);
    lemma_mul_lt(x, B128(), y, B128());
}

// ---- long division
/// partial dividend t = r * k + d with r < y, d < k: t < y * k, so the quotient digit t / y is below k
pub proof fn lemma_div_digit(r: int, d: int, y: int, k: int)
    requires 0 <= r < y, 0 <= d < k
    ensures ({
        let t = r * k + d;
        &&& 0 <= t < y * k
        &&& 0 <= t / y < k
        &&& 0 <= t % y < y
        &&& t == (t / y) * y + t % y
    })
{
    let t = r * k + d;
    assert(0 <= t < y * k) by (nonlinear_arith) requires 0 <= r <= y - 1, 0 <= d < k, t == r * k + d;
    vstd::arithmetic::div_mod::lemma_fundamental_div_mod(t, y);
    vstd::arithmetic::div_mod::lemma_mod_bound(t, y);
    assert(t / y < k) by (nonlinear_arith) requires t < y * k, t == y * (t / y) + t % y, 0 <= t % y, y > 0;
    assert(t / y >= 0) by (nonlinear_arith) requires t >= 0, t == y * (t / y) + t % y, t % y < y, y > 0;
    assert(y * (t / y) == (t / y) * y) by (nonlinear_arith);
}

pub proof fn lemma_div_step(r: int, d: int, y: int)
    requires 0 <= r < y, 0 <= d < B64(), 0 < y <= B64()
    ensures ({
        let t = r * B64() + d;
        &&& 0 <= t < B128()
        &&& 0 <= t / y < B64()
        &&& 0 <= t % y < y
        &&& t == (t / y) * y + t % y
    })
{
    lemma_div_digit(r, d, y, B64());
    assert(y * B64() <= B128()) by (nonlinear_arith) requires 0 < y <= B64();
}

/// one step of long division: if x == q * y + r and the next partial dividend r * k + d == q1 * y + r1,
/// then x * k + d == (q * k + q1) * y + r1
pub proof fn lemma_ld_step(x: int, q: int, r: int, d: int, q1: int, r1: int, y: int, k: int)
    requires x == q * y + r, r * k + d == q1 * y + r1
    ensures x * k + d == (q * k + q1) * y + r1
{
    vstd::arithmetic::mul::lemma_mul_is_distributive_add_other_way(k, q * y, r);
    vstd::arithmetic::mul::lemma_mul_is_distributive_add_other_way(y, q * k, q1);
    assert((q * y) * k == (q * k) * y) by (nonlinear_arith);
}

/// ((h * k + m) * k + l) regrouped as h * k^2 + (m * k + l)
pub proof fn lemma_regroup(h: int, m: int, l: int, k: int)
    ensures (h * k + m) * k + l == h * (k * k) + (m * k + l)
{
    vstd::arithmetic::mul::lemma_mul_is_distributive_add_other_way(k, h * k, m);
    vstd::arithmetic::mul::lemma_mul_is_associative(h, k, k);
}

/// (h, l) / y by four 128-by-64 bit steps: every partial dividend fits 128 bits, every quotient
/// digit fits 64 bits, the assembled words are the quotient and the last remainder the remainder.
pub proof fn lemma_long_div4(h: int, l: int, y: int)
    requires 0 <= h < B128(), 0 <= l < B128(), 0 < y < B64()
    ensures ({
        let b = B64();
        let d3 = h / b; let d2 = h % b; let d1 = l / b; let d0 = l % b;
        let q3 = d3 / y; let r3 = d3 % y;
        let t2 = r3 * b + d2; let q2 = t2 / y; let r2 = t2 % y;
        let t1 = r2 * b + d1; let q1 = t1 / y; let r1 = t1 % y;
        let t0 = r1 * b + d0; let q0 = t0 / y; let r0 = t0 % y;
        &&& 0 <= q3 < b && 0 <= r3 < y && 0 <= t2 < B128() && 0 <= q2 < b && 0 <= r2 < y
        &&& 0 <= t1 < B128() && 0 <= q1 < b && 0 <= r1 < y && 0 <= t0 < B128() && 0 <= q0 < b && 0 <= r0 < y
        &&& 0 <= q3 * b + q2 < B128() && 0 <= q1 * b + q0 < B128()
        &&& u256(q3 * b + q2, q1 * b + q0) == u256(h, l) / y
        &&& r0 == u256(h, l) % y
    })
{
    let b = B64();
    let d3 = h / b; let d2 = h % b; let d1 = l / b; let d0 = l % b;
    let q3 = d3 / y; let r3 = d3 % y;
    vstd::arithmetic::div_mod::lemma_fundamental_div_mod(d3, y);
    vstd::arithmetic::div_mod::lemma_mod_bound(d3, y);
    vstd::arithmetic::div_mod::lemma_div_pos_is_pos(d3, y);
    vstd::arithmetic::div_mod::lemma_div_is_ordered_by_denominator(d3, 1, y);
    vstd::arithmetic::div_mod::lemma_div_basics_3(d3);
    assert(y * q3 == q3 * y) by (nonlinear_arith);
    let t2 = r3 * b + d2; let q2 = t2 / y; let r2 = t2 % y;
    lemma_div_step(r3, d2, y);
    let t1 = r2 * b + d1; let q1 = t1 / y; let r1 = t1 % y;
    lemma_div_step(r2, d1, y);
    let t0 = r1 * b + d0; let q0 = t0 / y; let r0 = t0 % y;
    lemma_div_step(r1, d0, y);
    let x = u256(h, l);
    let qh = q3 * b + q2;
    let ql = q1 * b + q0;
    assert(B128() == b * b);
    // prefixes of the dividend and of the quotient
    let x2 = d3 * b + d2;
    let x1 = x2 * b + d1;
    let x0 = x1 * b + d0;
    lemma_ld_step(d3, q3, r3, d2, q2, r2, y, b);
    lemma_ld_step(x2, qh, r2, d1, q1, r1, y, b);
    lemma_ld_step(x1, qh * b + q1, r1, d0, q0, r0, y, b);
    assert(x2 == h);
    lemma_regroup(h, d1, d0, b);
    lemma_regroup(qh, q1, q0, b);
    assert(x0 == x);
    assert(x == u256(qh, ql) * y + r0);
    lemma_div_mod_unique(x, y, u256(qh, ql), r0);
}

pub proof fn lemma_div_by_one(x: int)
    ensures x / 1 == x, x % 1 == 0
{
}

/// 256 / 128 bit division in two steps: divide the high word, then the (remainder, low word) pair
pub proof fn lemma_div_2step(h: int, l: int, y: int)
    requires 0 <= h < B128(), 0 <= l < B128(), 0 < y
    ensures ({
        let t = h % y;
        &&& 0 <= t < y
        &&& 0 <= h / y <= h
        &&& 0 <= u256(t, l) / y < B128()
        &&& u256(h / y, u256(t, l) / y) == u256(h, l) / y
        &&& u256(t, l) % y == u256(h, l) % y
        &&& u256(h, l) == (u256(h, l) / y) * y + u256(h, l) % y
        &&& 0 <= u256(h, l) % y < y
    })
{
    let t = h % y;
    let qh = h / y;
    let m = B128();
    vstd::arithmetic::div_mod::lemma_fundamental_div_mod(h, y);
    vstd::arithmetic::div_mod::lemma_mod_bound(h, y);
    vstd::arithmetic::div_mod::lemma_div_pos_is_pos(h, y);
    vstd::arithmetic::div_mod::lemma_div_is_ordered_by_denominator(h, 1, y);
    vstd::arithmetic::div_mod::lemma_div_basics_3(h);
    assert(y * qh == qh * y) by (nonlinear_arith);
    lemma_div_digit(t, l, y, m);
    let x1 = u256(t, l);
    let ql = x1 / y;
    let r = x1 % y;
    lemma_ld_step(h, qh, t, l, ql, r, y, m);
    assert(u256(h, l) == u256(qh, ql) * y + r);
    lemma_div_mod_unique(u256(h, l), y, u256(qh, ql), r);
}

/// what x = q * y + r, 0 <= r < y says in the two equivalent forms used by the contracts
pub proof fn lemma_div_forms(x: int, y: int)
    requires y > 0
    ensures x == (x / y) * y + x % y, 0 <= x % y < y, x >= 0 ==> x / y >= 0,
{
    vstd::arithmetic::div_mod::lemma_fundamental_div_mod(x, y);
    vstd::arithmetic::div_mod::lemma_mod_bound(x, y);
    assert(y * (x / y) == (x / y) * y) by (nonlinear_arith);
    if x >= 0 { vstd::arithmetic::div_mod::lemma_div_pos_is_pos(x, y); }
}

// ---- floor division of a signed numerator from the division of the magnitudes
pub proof fn lemma_abs_mul(a: int, b: int)
    ensures
        abs_int(a) * abs_int(b) == abs_int(a * b),
        (a < 0) == (b < 0) ==> a * b >= 0,
        (a < 0) != (b < 0) ==> a * b <= 0,
        (a * b == 0) <==> (a == 0 || b == 0),
{
    assert((-a) * b == -(a * b)) by (nonlinear_arith);
    assert(a * (-b) == -(a * b)) by (nonlinear_arith);
    assert((-a) * (-b) == a * b) by (nonlinear_arith);
    assert(a > 0 && b > 0 ==> a * b > 0) by (nonlinear_arith);
    assert(a < 0 && b < 0 ==> a * b > 0) by (nonlinear_arith);
    assert(a > 0 && b < 0 ==> a * b < 0) by (nonlinear_arith);
    assert(a < 0 && b > 0 ==> a * b < 0) by (nonlinear_arith);
    assert(a == 0 || b == 0 ==> a * b == 0) by (nonlinear_arith);
}

/// With Q, R the quotient and remainder of |n| by |y|: the floor quotient / remainder of n by y.
pub proof fn lemma_floor_from_abs(n: int, y: int)
    requires y != 0
    ensures ({
        let q = abs_int(n) / abs_int(y);
        let r = abs_int(n) % abs_int(y);
        let fq = floor_quot(n, y);
        let fr = floor_rem(n, y);
        &&& q >= 0 && 0 <= r < abs_int(y)
        &&& n == 0 ==> q == 0 && r == 0
        &&& (n >= 0 && y > 0) ==> fq == q && fr == r
        &&& (n <= 0 && y < 0) ==> fq == q && fr == -r
        &&& (n < 0 && y > 0) ==> fq == (if r == 0 { -q } else { -q - 1 }) && fr == (if r == 0 { 0 } else { y - r })
        &&& (n > 0 && y < 0) ==> fq == (if r == 0 { -q } else { -q - 1 }) && fr == (if r == 0 { 0 } else { r + y })
        &&& abs_int(fq) >= q
    })
{
    let a = abs_int(n);
    let d = abs_int(y);
    let q = a / d;
    let r = a % d;
    lemma_div_forms(a, d);
    // floor_quot / floor_rem are stated on (m, d) with m = n for y > 0 and m = -n for y < 0
    let m = if y > 0 { n } else { -n };
    if m >= 0 {
        assert(m == a);
    } else {
        assert(m == -a);
        assert((-q) * d == -(q * d)) by (nonlinear_arith);
        assert((-q - 1) * d == -(q * d) - d) by (nonlinear_arith);
        if r == 0 {
            lemma_div_mod_unique(m, d, -q, 0);
        } else {
            lemma_div_mod_unique(m, d, -q - 1, d - r);
        }
    }
    if a == 0 {
        vstd::arithmetic::div_mod::lemma_div_basics_1(d);
        vstd::arithmetic::div_mod::lemma_small_mod(0, d as nat);
    }
}

// ---- rounding a quotient whose magnitude is beyond the i128 range
pub proof fn lemma_round_div_near(num: int, den: int, mode: RoundingMode)
    requires den > 0
    ensures num / den <= round_div(num, den, mode) <= num / den + 1,
        num % den == 0 ==> round_div(num, den, mode) == num / den,
{
}

/// if already the truncated quotient |num| / den exceeds i128::MAX, so does every rounding of num / den
pub proof fn lemma_round_div_big(num: int, den: int, mode: RoundingMode)
    requires den > 0, abs_int(num) / den > i128::MAX
    ensures abs_int(round_div(num, den, mode)) > i128::MAX
{
    lemma_floor_from_abs(num, den);
    lemma_round_div_near(num, den, mode);
}

// ---- position of the most significant bit (bit-vector facts)
/// r is the index of the most significant set bit of i: 2^r <= i < 2^(r+1)
#[verifier::opaque]
pub open spec fn is_msb(i: u128, r: int) -> bool {
    0 <= r < 128 && (i >> (r as u128)) == 1
}

/// binary search step on a number below 2^128: the mask test tells whether the upper 64 bits are non-zero
pub broadcast proof fn lemma_msb_step64(w: u128)
    ensures
        (#[trigger] (w & 0xffffffffffffffff0000000000000000u128) != 0) ==> ((w >> 64) != 0 && (w >> 64) < 0x10000000000000000u128),
        (w & 0xffffffffffffffff0000000000000000u128) == 0 ==> w < 0x10000000000000000u128,
{
    assert((((w & 0xffffffffffffffff0000000000000000u128) != 0) ==> ((w >> 64) != 0 && (w >> 64) < 0x10000000000000000u128))) by (bit_vector);
    assert(((w & 0xffffffffffffffff0000000000000000u128) == 0 ==> w < 0x10000000000000000u128)) by (bit_vector);
}

/// the most significant bit of w >> 64, if below position 64, is 64 positions higher in w
pub broadcast proof fn lemma_msb_up64(w: u128, r: int)
    requires #[trigger] is_msb(w >> 64, r), r < 64
    ensures is_msb(w, r + 64)
{
    reveal(is_msb);
    let b = r as u128;
    assert(b < 64 && ((w >> 64) >> b) == 1 ==> (w >> add(64, b)) == 1) by (bit_vector);
}

/// binary search step on a number below 2^64: the mask test tells whether the upper 32 bits are non-zero
pub broadcast proof fn lemma_msb_step32(w: u128)
    requires w < 0x10000000000000000u128
    ensures
        (#[trigger] (w & 0x0000000000000000ffffffff00000000u128) != 0) ==> ((w >> 32) != 0 && (w >> 32) < 0x100000000u128),
        (w & 0x0000000000000000ffffffff00000000u128) == 0 ==> w < 0x100000000u128,
{
    assert(w < 0x10000000000000000u128 ==> (((w & 0x0000000000000000ffffffff00000000u128) != 0) ==> ((w >> 32) != 0 && (w >> 32) < 0x100000000u128))) by (bit_vector);
    assert(w < 0x10000000000000000u128 ==> ((w & 0x0000000000000000ffffffff00000000u128) == 0 ==> w < 0x100000000u128)) by (bit_vector);
}

/// the most significant bit of w >> 32, if below position 32, is 32 positions higher in w
pub broadcast proof fn lemma_msb_up32(w: u128, r: int)
    requires #[trigger] is_msb(w >> 32, r), r < 32
    ensures is_msb(w, r + 32)
{
    reveal(is_msb);
    let b = r as u128;
    assert(b < 32 && ((w >> 32) >> b) == 1 ==> (w >> add(32, b)) == 1) by (bit_vector);
}

/// binary search step on a number below 2^32: the mask test tells whether the upper 16 bits are non-zero
pub broadcast proof fn lemma_msb_step16(w: u128)
    requires w < 0x100000000u128
    ensures
        (#[trigger] (w & 0x000000000000000000000000ffff0000u128) != 0) ==> ((w >> 16) != 0 && (w >> 16) < 0x10000u128),
        (w & 0x000000000000000000000000ffff0000u128) == 0 ==> w < 0x10000u128,
{
    assert(w < 0x100000000u128 ==> (((w & 0x000000000000000000000000ffff0000u128) != 0) ==> ((w >> 16) != 0 && (w >> 16) < 0x10000u128))) by (bit_vector);
    assert(w < 0x100000000u128 ==> ((w & 0x000000000000000000000000ffff0000u128) == 0 ==> w < 0x10000u128)) by (bit_vector);
}

/// the most significant bit of w >> 16, if below position 16, is 16 positions higher in w
pub broadcast proof fn lemma_msb_up16(w: u128, r: int)
    requires #[trigger] is_msb(w >> 16, r), r < 16
    ensures is_msb(w, r + 16)
{
    reveal(is_msb);
    let b = r as u128;
    assert(b < 16 && ((w >> 16) >> b) == 1 ==> (w >> add(16, b)) == 1) by (bit_vector);
}

/// binary search step on a number below 2^16: the mask test tells whether the upper 8 bits are non-zero
pub broadcast proof fn lemma_msb_step8(w: u128)
    requires w < 0x10000u128
    ensures
        (#[trigger] (w & 0x0000000000000000000000000000ff00u128) != 0) ==> ((w >> 8) != 0 && (w >> 8) < 0x100u128),
        (w & 0x0000000000000000000000000000ff00u128) == 0 ==> w < 0x100u128,
{
    assert(w < 0x10000u128 ==> (((w & 0x0000000000000000000000000000ff00u128) != 0) ==> ((w >> 8) != 0 && (w >> 8) < 0x100u128))) by (bit_vector);
    assert(w < 0x10000u128 ==> ((w & 0x0000000000000000000000000000ff00u128) == 0 ==> w < 0x100u128)) by (bit_vector);
}

/// the most significant bit of w >> 8, if below position 8, is 8 positions higher in w
pub broadcast proof fn lemma_msb_up8(w: u128, r: int)
    requires #[trigger] is_msb(w >> 8, r), r < 8
    ensures is_msb(w, r + 8)
{
    reveal(is_msb);
    let b = r as u128;
    assert(b < 8 && ((w >> 8) >> b) == 1 ==> (w >> add(8, b)) == 1) by (bit_vector);
}

/// binary search step on a number below 2^8: the mask test tells whether the upper 4 bits are non-zero
pub broadcast proof fn lemma_msb_step4(w: u128)
    requires w < 0x100u128
    ensures
        (#[trigger] (w & 0x000000000000000000000000000000f0u128) != 0) ==> ((w >> 4) != 0 && (w >> 4) < 0x10u128),
        (w & 0x000000000000000000000000000000f0u128) == 0 ==> w < 0x10u128,
{
    assert(w < 0x100u128 ==> (((w & 0x000000000000000000000000000000f0u128) != 0) ==> ((w >> 4) != 0 && (w >> 4) < 0x10u128))) by (bit_vector);
    assert(w < 0x100u128 ==> ((w & 0x000000000000000000000000000000f0u128) == 0 ==> w < 0x10u128)) by (bit_vector);
}

/// the most significant bit of w >> 4, if below position 4, is 4 positions higher in w
pub broadcast proof fn lemma_msb_up4(w: u128, r: int)
    requires #[trigger] is_msb(w >> 4, r), r < 4
    ensures is_msb(w, r + 4)
{
    reveal(is_msb);
    let b = r as u128;
    assert(b < 4 && ((w >> 4) >> b) == 1 ==> (w >> add(4, b)) == 1) by (bit_vector);
}

/// most significant bit of a non-zero 4-bit number
pub broadcast proof fn lemma_msb_nibble(w: u128)
    requires 0 < w < 0x100u128
    ensures
        (#[trigger] (w & 0x000000000000000000000000000000f0u128)) == 0 ==> w < 16 && is_msb(w, if w >= 8 { 3int } else if w >= 4 { 2 } else if w >= 2 { 1 } else { 0 }),
        (w & 0x000000000000000000000000000000f0u128) != 0 ==> ({ let v = w >> 4; is_msb(v, if v >= 8 { 3int } else if v >= 4 { 2 } else if v >= 2 { 1 } else { 0 }) }),
{
    reveal(is_msb);
    assert(0 < w < 0x100u128 ==> ((w & 0x000000000000000000000000000000f0u128) == 0 ==> w < 16)) by (bit_vector);
    assert(0 < w < 0x100u128 ==> ((w & 0x000000000000000000000000000000f0u128) != 0 ==> 0 < (w >> 4) < 16)) by (bit_vector);
    lemma_nibble(w);
    lemma_nibble(w >> 4);
}

pub proof fn lemma_nibble(v: u128)
    ensures
        8 <= v < 16 ==> (v >> 3) == 1,
        4 <= v < 8 ==> (v >> 2) == 1,
        2 <= v < 4 ==> (v >> 1) == 1,
        v == 1 ==> (v >> 0) == 1,
{
    assert(8 <= v < 16 ==> (v >> 3) == 1) by (bit_vector);
    assert(4 <= v < 8 ==> (v >> 2) == 1) by (bit_vector);
    assert(2 <= v < 4 ==> (v >> 1) == 1) by (bit_vector);
    assert(v == 1 ==> (v >> 0) == 1) by (bit_vector);
}

pub broadcast group group_msb {
    lemma_msb_step64, lemma_msb_step32, lemma_msb_step16, lemma_msb_step8, lemma_msb_step4,
    lemma_msb_up64, lemma_msb_up32, lemma_msb_up16, lemma_msb_up8, lemma_msb_up4, lemma_msb_nibble,
}


// ---- shifts by a variable amount as arithmetic with powers of two
pub open spec fn p2(s: int) -> int { vstd::arithmetic::power2::pow2(s as nat) as int }

pub proof fn lemma_p2_basics(s: int)
    requires 0 <= s <= 128
    ensures
        p2(s) >= 1,
        p2(s) * p2(128 - s) == B128(),
        p2(0) == 1, p2(64) == B64(), p2(127) * 2 == B128(), p2(128) == B128(),
        s <= 63 ==> p2(s) <= p2(63) && p2(63) * 2 == B64(),
{
    vstd::arithmetic::power2::lemma_pow2_pos(s as nat);
    vstd::arithmetic::power2::lemma_pow2_adds(s as nat, (128 - s) as nat);
    vstd::arithmetic::power2::lemma_pow2_adds(64, 64);
    vstd::arithmetic::power2::lemma_pow2_adds(127, 1);
    vstd::arithmetic::power2::lemma_pow2_adds(63, 1);
    vstd::arithmetic::power2::lemma2_to64();
    if s < 63 { vstd::arithmetic::power2::lemma_pow2_strictly_increases(s as nat, 63); }
}

/// x >> s is the quotient by 2^s
pub proof fn lemma_shr_p2(x: u128, s: u128)
    requires s < 128
    ensures (x >> s) as int == (x as int) / p2(s as int)
{
    vstd::bits::lemma_u128_shr_is_div(x, s);
}

/// x << 1 is 2x modulo 2^128
proof fn lemma_shl1_mod(b: u128)
    ensures ((b << 1) as int) == (2 * b) % B128()
{
    let m = B128();
    if b < 0x8000_0000_0000_0000_0000_0000_0000_0000u128 {
        assert(b < 0x8000_0000_0000_0000_0000_0000_0000_0000u128 ==> (b << 1) == add(b, b)) by (bit_vector);
        vstd::arithmetic::div_mod::lemma_small_mod((2 * b) as nat, m as nat);
    } else {
        let c = (b - 0x8000_0000_0000_0000_0000_0000_0000_0000u128) as u128;
        assert(b >= 0x8000_0000_0000_0000_0000_0000_0000_0000u128 ==>
            (b << 1) == add(sub(b, 0x8000_0000_0000_0000_0000_0000_0000_0000u128), sub(b, 0x8000_0000_0000_0000_0000_0000_0000_0000u128))) by (bit_vector);
        assert((b << 1) as int == 2 * b - m);
        lemma_div_mod_unique(2 * b, m, 1, 2 * b - m);
    }
}

/// x << s is x * 2^s modulo 2^128
pub proof fn lemma_shl_p2(a: u128, s: u128)
    requires s < 128
    ensures (a << s) as int == ((a as int) * p2(s as int)) % B128()
    decreases s
{
    let m = B128();
    if s == 0 {
        assert(a << 0 == a) by (bit_vector);
        vstd::arithmetic::power2::lemma2_to64();
        assert((a as int) * 1 == a as int);
        vstd::arithmetic::div_mod::lemma_small_mod(a as nat, m as nat);
    } else {
        let s1 = (s - 1) as u128;
        let b = a << s1;
        lemma_shl_p2(a, s1);
        assert(s1 < 127 ==> a << add(s1, 1) == (a << s1) << 1) by (bit_vector);
        assert(a << s == b << 1);
        lemma_shl1_mod(b);
        let t = (a as int) * p2(s1 as int);
        vstd::arithmetic::power2::lemma_pow2_unfold(s as nat);
        assert(p2(s as int) == 2 * p2(s1 as int));
        assert((a as int) * p2(s as int) == 2 * t) by (nonlinear_arith)
            requires p2(s as int) == 2 * p2(s1 as int), t == (a as int) * p2(s1 as int);
        vstd::arithmetic::div_mod::lemma_mul_mod_noop_right(2, t, m);
    }
}

// ---- Knuth's algorithm D (TAOCP vol. 2, 4.3.1), 4-limb dividend, 2-limb divisor, limbs of 64 bits
/// Normalisation: with p = 2^s the scaled divisor yn = y * p has its top bit set, and the scaled
/// dividend x * p is the pair (u32, u10) with u32 < yn (so the quotient fits two limbs).
pub open spec fn norm_ok(x: int, y: int, p: int, u32: int, u10: int, yn: int) -> bool {
    &&& p >= 1
    &&& yn == y * p
    &&& 2 * yn >= B128() && yn < B128()
    &&& 0 <= u10 < B128()
    &&& 0 <= u32 < yn
    &&& u32 * B128() + u10 == x * p
}

pub proof fn lemma_msb_bounds(y: u128, r: int)
    requires is_msb(y, r)
    ensures p2(r) <= y < 2 * p2(r), 0 <= r < 128,
{
    reveal(is_msb);
    lemma_shr_p2(y, r as u128);
    lemma_p2_basics(r);
    lemma_div_forms(y as int, p2(r));
}

pub proof fn lemma_mul_le(a: int, b: int, p: int)
    requires a <= b, p >= 0
    ensures a * p <= b * p
{
    assert(a * p <= b * p) by (nonlinear_arith) requires a <= b, p >= 0;
}

pub broadcast proof fn lemma_normalize(y: u128, r: int, xh: u128, xl: u128, s: u128, sh: u128)
    requires
        #[trigger] is_msb(y, r), s == 127 - r, xh < y, y >= B64(),
        sh == (if s == 0 { 0u128 } else { xl >> ((128 - s) as u128) }),
    ensures
        s <= 63,
        norm_ok(u256(xh as int, xl as int), y as int, p2(s as int),
            (#[trigger] ((xh << s) | sh)) as int, (#[trigger] (xl << s)) as int, (y << s) as int),
{
    let m = B128();
    lemma_b128();
    lemma_msb_bounds(y, r);
    lemma_p2_basics(r);
    // y >= 2^64 puts the top bit at position >= 64
    if r < 64 {
        if r + 1 < 64 { vstd::arithmetic::power2::lemma_pow2_strictly_increases((r + 1) as nat, 64); }
        vstd::arithmetic::power2::lemma_pow2_unfold((r + 1) as nat);
        assert(false);
    }
    let p = p2(s as int);
    lemma_p2_basics(s as int);
    vstd::arithmetic::power2::lemma_pow2_adds(r as nat, s as nat);
    assert(p2(r) * p == p2(127));
    // the scaled divisor
    lemma_mul_le(p2(r), y as int, p);
    lemma_mul_le(y as int + 1, 2 * p2(r), p);
    assert((2 * p2(r)) * p == 2 * (p2(r) * p)) by (nonlinear_arith);
    assert((y as int + 1) * p == y * p + p) by (nonlinear_arith);
    let yn = (y as int) * p;
    assert(p2(127) <= yn < m);
    lemma_shl_p2(y, s);
    vstd::arithmetic::div_mod::lemma_small_mod(yn as nat, m as nat);
    assert((y << s) as int == yn);
    // the high word of the dividend
    lemma_mul_le(xh as int + 1, y as int, p);
    assert((xh as int + 1) * p == xh * p + p) by (nonlinear_arith);
    assert(0 <= xh * p) by (nonlinear_arith) requires xh >= 0, p >= 0;
    lemma_shl_p2(xh, s);
    vstd::arithmetic::div_mod::lemma_small_mod(((xh as int) * p) as nat, m as nat);
    assert((xh << s) as int == xh * p);
    // the low word: xl * p == sh * 2^128 + (xl << s)
    let xlp = (xl as int) * p;
    assert(0 <= xlp) by (nonlinear_arith) requires xl >= 0, p >= 0, xlp == (xl as int) * p;
    lemma_shl_p2(xl, s);
    lemma_div_forms(xlp, m);
    if s == 0 {
        assert(p == 1);
        assert(xlp == xl as int) by (nonlinear_arith) requires xlp == (xl as int) * p, p == 1;
        vstd::arithmetic::div_mod::lemma_small_mod(xlp as nat, m as nat);
        vstd::arithmetic::div_mod::lemma_basic_div(xlp, m);
        assert(xh << 0 == xh) by (bit_vector);
        assert(xh | 0 == xh) by (bit_vector);
    } else {
        let s2 = (128 - s) as u128;
        let big = p2(s2 as int);
        lemma_shr_p2(xl, s2);
        lemma_p2_basics(s2 as int);
        assert(big >= 1);
        assert(p * big == m);
        vstd::arithmetic::div_mod::lemma_div_multiples_vanish_quotient(p, xl as int, big);
        assert(p * (xl as int) == xlp) by (nonlinear_arith) requires xlp == (xl as int) * p;
        assert(sh as int == xlp / m);
        assert(1 <= s && s < 128 ==> ((xh << s) | (xl >> sub(128, s))) == add(xh << s, xl >> sub(128, s))) by (bit_vector);
    }
    assert(sh as int == xlp / m);
    // sh < p, hence no carry out of the high word
    lemma_mul_lt(xl as int, m, p, p + 1);
    assert(xlp < m * p) by (nonlinear_arith) requires xl < m, p >= 1, xlp == (xl as int) * p;
    assert(sh < p) by (nonlinear_arith) requires xlp < m * p, xlp == (sh as int) * m + xlp % m, 0 <= xlp % m, m > 0;
    let u32 = xh * p + sh;
    assert(0 <= u32 < yn);
    assert(((xh << s) | sh) as int == u32);
    assert(u32 * m + (xl << s) as int == u256(xh as int, xl as int) * p) by (nonlinear_arith)
        requires u32 == xh * p + sh, xlp == (sh as int) * m + (xl << s) as int, xlp == (xl as int) * p,
            u256(xh as int, xl as int) == xh * m + xl;
}

/// State of the estimate of one quotient digit.  u32 < v: two leading limbs of the partial dividend,
/// u1: its next limb, v = v1 * 2^64 + v0 the normalised divisor.
/// q * v1 + rhat == u32 (q is the estimate from the leading limbs) and q is not below the true digit.
pub open spec fn digit_est(q: int, rhat: int, u32: int, u1: int, v: int, v1: int, v0: int) -> bool {
    &&& q >= 0 && rhat >= 0
    &&& v == v1 * B64() + v0
    &&& q * v1 + rhat == u32
    &&& u32 * B64() + u1 - q * v < v
}

/// q is the true digit: 0 <= (u32 * 2^64 + u1) - q * v < v, and it fits a limb
pub open spec fn digit_done(q: int, u32: int, u1: int, v: int) -> bool {
    &&& 0 <= q < B64()
    &&& q * v <= u32 * B64() + u1
    &&& u32 * B64() + u1 - q * v < v
}

/// the constant side conditions of a digit step
pub open spec fn digit_ctx(u32: int, u1: int, v: int, v1: int, v0: int) -> bool {
    &&& v == v1 * B64() + v0
    &&& B64() <= 2 * v1 && v1 < B64()
    &&& 0 <= v0 < B64()
    &&& 0 <= u1 < B64()
    &&& 0 <= u32 < v
}

/// everything the correction loop maintains: the estimate state, rhat below 2^64 (the loop leaves as soon as
/// it is not), the two-limb test does not overflow, and a passed test means the digit is final
pub open spec fn digit_inv(q: int, rhat: int, u32: int, u1: int, v: int, v1: int, v0: int) -> bool {
    &&& digit_est(q, rhat, u32, u1, v, v1, v0)
    &&& rhat < B64()
    &&& q < B64() ==> 0 <= q * v0 < B128()
    &&& (q < B64() && q * v0 <= rhat * B64() + u1) ==> digit_done(q, u32, u1, v)
}

pub proof fn lemma_mul_split(q: int, v1: int, v0: int, k: int)
    ensures q * (v1 * k + v0) == (q * v1) * k + q * v0
{
    vstd::arithmetic::mul::lemma_mul_is_distributive_add(q, v1 * k, v0);
    vstd::arithmetic::mul::lemma_mul_is_associative(q, v1, k);
}

/// the first estimate q = u32 / v1, rhat = u32 % v1
pub broadcast proof fn lemma_digit_init(q: int, rhat: int, u32: int, u1: int, v: int, v1: int, v0: int)
    requires
        digit_ctx(u32, u1, v, v1, v0), q == u32 / v1, rhat == u32 % v1,
    ensures
        #[trigger] digit_inv(q, rhat, u32, u1, v, v1, v0),
{
    let b = B64();
    lemma_div_forms(u32, v1);
    assert(q >= 0);
    lemma_mul_split(q, v1, v0, b);
    lemma_mul_split(q + 1, v1, v0, b);
    // (q + 1) * v1 > u32, hence (q + 1) * v > u32 * b + u1
    assert((q + 1) * v1 == q * v1 + v1) by (nonlinear_arith);
    assert((q + 1) * v0 >= 0) by (nonlinear_arith) requires q >= 0, v0 >= 0;
    assert((q + 1) * v == q * v + v) by (nonlinear_arith);
    if q < b {
        lemma_mul_lt(q, b, v0, b);
        lemma_b128();
        assert(B128() == b * b);
    } 
}

/// one iteration of the correction loop: the estimate was too large (q >= 2^64, or the two-limb test fails)
pub proof fn lemma_digit_step(q: int, rhat: int, u32: int, u1: int, v: int, v1: int, v0: int)
    requires
        digit_ctx(u32, u1, v, v1, v0), digit_inv(q, rhat, u32, u1, v, v1, v0),
        q >= B64() || q * v0 > rhat * B64() + u1,
    ensures
        q >= 1,
        rhat + v1 >= B64() ==> digit_done(q - 1, u32, u1, v),
        rhat + v1 < B64() ==> digit_inv(q - 1, rhat + v1, u32, u1, v, v1, v0),
{
    let b = B64();
    let u = u32 * b + u1;
    lemma_b128();
    assert(B128() == b * b);
    lemma_mul_split(q, v1, v0, b);
    lemma_mul_split(q - 1, v1, v0, b);
    assert(q != 0) by {
        if q == 0 { assert(q * v0 == 0) by (nonlinear_arith) requires q == 0; }
    }
    // the current estimate overshoots: u < q * v
    if q >= b {
        lemma_mul_le(b, q, v);
        assert(u < b * v) by (nonlinear_arith) requires u == u32 * b + u1, u32 <= v - 1, u1 < b, b > 0;
    }
    assert(u < q * v);
    assert((q - 1) * v == q * v - v) by (nonlinear_arith);
    assert((q - 1) * v1 == q * v1 - v1) by (nonlinear_arith);
    assert((q - 1) * v0 >= 0) by (nonlinear_arith) requires q >= 1, v0 >= 0;
    if q - 1 < b {
        lemma_mul_lt(q - 1, b, v0, b);
    }
    if rhat + v1 >= b {
        // then q - 1 < 2^64: otherwise u32 >= 2^64 * v1 + 2^64 > v
        if q - 1 >= b {
            lemma_mul_le(b, q - 1, v1);
            assert(false);
        }
        // and (q - 1) * v0 < 2^128 <= (rhat + v1) * 2^64
        assert((rhat + v1) * b >= b * b) by (nonlinear_arith) requires rhat + v1 >= b, b > 0;
    }
}

/// a * b + c - d * e computed with wrapping 128-bit operations is exact whenever the result fits
pub broadcast proof fn lemma_wrapping_mul_add_sub_mul(a: u128, b: u128, c: u128, d: u128, e: u128)
    requires 0 <= a * b + c - d * e < B128()
    ensures
        #[trigger] vstd::wrapping::u128_specs::wrapping_sub(
            vstd::wrapping::u128_specs::wrapping_add(vstd::wrapping::u128_specs::wrapping_mul(a, b), c),
            vstd::wrapping::u128_specs::wrapping_mul(d, e)) == a * b + c - d * e
{
    let m = B128();
    lemma_b128();
    let ab = (a * b) as int;
    let de = (d * e) as int;
    assert(0 <= ab) by (nonlinear_arith) requires ab == a * b, a >= 0, b >= 0;
    assert(0 <= de) by (nonlinear_arith) requires de == d * e, d >= 0, e >= 0;
    lemma_div_forms(ab, m);
    lemma_div_forms(de, m);
    let w1 = vstd::wrapping::u128_specs::wrapping_mul(a, b);
    let w2 = vstd::wrapping::u128_specs::wrapping_add(w1, c);
    let w3 = vstd::wrapping::u128_specs::wrapping_mul(d, e);
    let w4 = vstd::wrapping::u128_specs::wrapping_sub(w2, w3);
    assert(w1 == ab % m);
    assert(w3 == de % m);
    let k1 = ab / m;
    let k3 = de / m;
    assert(w2 == w1 + c || w2 == w1 + c - m);
    assert(w4 == w2 - w3 || w4 == w2 - w3 + m);
    // w4 == (ab + c - de) + j * m for an integer j, and both sides lie in [0, m)
    let tgt = ab + c - de;
    let j = (w4 - tgt);
    assert(j == (k3 - k1) * m || j == (k3 - k1) * m - m || j == (k3 - k1) * m + m) by (nonlinear_arith)
        requires ab == k1 * m + w1, de == k3 * m + w3, w2 == w1 + c || w2 == w1 + c - m,
            w4 == w2 - w3 || w4 == w2 - w3 + m, j == w4 - (ab + c - de);
    assert(-m < j < m);
    let kk = k3 - k1;
    assert(j == 0) by (nonlinear_arith)
        requires -m < j < m, j == kk * m || j == kk * m - m || j == kk * m + m, m > 0;
}

/// Both digits found: quotient and (scaled) remainder of the original operands
pub broadcast proof fn lemma_knuth_final(x: int, y: int, p: int, u32: int, u10: int, v: int,
                                         q1: int, u1: int, t: int, q0: int, u0: int)
    requires
        #[trigger] norm_ok(x, y, p, u32, u10, v),
        #[trigger] digit_done(q1, u32, u1, v),
        #[trigger] digit_done(q0, t, u0, v),
        u1 == u10 / B64(), u0 == u10 % B64(),
        t == u32 * B64() + u1 - q1 * v,
        y > 0,
    ensures
        0 <= q1 * B64() + q0 < B128(),
        q1 * B64() + q0 == x / y,
        0 <= t * B64() + u0 - q0 * v < v,
        (t * B64() + u0 - q0 * v) / p == x % y,
        0 <= x % y < y,
{
    let b = B64();
    let m = B128();
    lemma_b128();
    assert(m == b * b);
    let rn = t * b + u0 - q0 * v;
    let q = q1 * b + q0;
    assert(u10 == u1 * b + u0);
    // x * p == q * v + rn
    assert(u32 * m + u10 == (u32 * b + u1) * b + u0) by (nonlinear_arith) requires m == b * b, u10 == u1 * b + u0;
    assert((q1 * v + t) * b == (q1 * b) * v + t * b) by (nonlinear_arith);
    assert(q * v == (q1 * b) * v + q0 * v) by (nonlinear_arith) requires q == q1 * b + q0;
    assert(x * p == q * v + rn);
    // divide by p
    let r = x - q * y;
    assert(q * v == (q * y) * p) by (nonlinear_arith) requires v == y * p;
    assert(rn == r * p) by (nonlinear_arith) requires x * p == (q * y) * p + rn, r == x - q * y;
    assert(0 <= r) by (nonlinear_arith) requires 0 <= r * p, p >= 1;
    assert(r < y) by (nonlinear_arith) requires r * p < y * p, p >= 1;
    lemma_div_mod_unique(x, y, q, r);
    lemma_div_mod_unique(rn, p, r, 0);
    lemma_div_forms(x, y);
}

pub broadcast proof fn lemma_shr_p2_b(x: u128, s: u128)
    requires s < 128
    ensures (#[trigger] (x >> s)) as int == (x as int) / p2(s as int)
{
    lemma_shr_p2(x, s);
}

pub broadcast group group_knuth {
    lemma_normalize, lemma_digit_init, lemma_wrapping_mul_add_sub_mul,
    lemma_knuth_final, lemma_shr_p2_b,
}

// ---- rounding is invariant under shifting the (positive) quotient by 10: sign, parity and the last
// digit modulo 5 of the quotient do not change
pub proof fn lemma_round_div_shift10(num: int, den: int, mode: RoundingMode)
    requires den > 0, num - 10 * den > 0
    ensures round_div(num - 10 * den, den, mode) == round_div(num, den, mode) - 10
{
    let f = num / den;
    let r = num % den;
    lemma_div_forms(num, den);
    assert((f - 10) * den == f * den - 10 * den) by (nonlinear_arith);
    lemma_div_mod_unique(num - 10 * den, den, f - 10, r);
    assert((f - 10) % 2 == f % 2);
    assert((f - 10) % 5 == f % 5);
    assert((f - 9) % 5 == (f + 1) % 5);
}

/// the floor quotient is exactly i128::MAX and something is left over: the rounded value is MAX or MAX + 1,
/// and which one can be read off the rounding of the quotient shifted down by 10
pub proof fn lemma_round_at_max(rem: int, den: int, mode: RoundingMode)
    requires den > 0, 0 < rem < den
    ensures ({
        let n = i128::MAX * den + rem;
        let v = round_div(n, den, mode);
        let w = round_div((i128::MAX - 10) * den + rem, den, mode);
        &&& (v == i128::MAX || v == i128::MAX + 1)
        &&& (w == i128::MAX - 10 || w == i128::MAX - 9)
        &&& (w == i128::MAX - 10 <==> v == i128::MAX)
    })
{
    let n = i128::MAX * den + rem;
    lemma_floor_form(i128::MAX as int, rem, den);
    lemma_round_div_near(n, den, mode);
    assert((i128::MAX - 10) * den == i128::MAX * den - 10 * den) by (nonlinear_arith);
    assert(n - 10 * den > 0) by (nonlinear_arith) requires n == i128::MAX * den + rem, den > 0, rem > 0;
    lemma_round_div_shift10(n, den, mode);
}
