
// R8 (C12, Decimal -> f64/f32): std / compiler primitives used by src/into_float.rs that have no vstd
// specification.  Every item in this file is an UNCHECKED ASSUMPTION about the Rust standard library or
// the compiler (documented semantics); the list is printed in the evidence of C12.
// (`i128::unsigned_abs` is in std_assumed.rs; `u32::saturating_sub`, `u128::BITS` have vstd specifications.)

/// [A1] the float with a given bit pattern (`from_bits` is a transmute).  Floats are never modelled as
/// reals: C12 is stated over the bit pattern handed to `from_bits`.
pub uninterp spec fn f64_of_bits(b: u64) -> f64;
pub uninterp spec fn f32_of_bits(b: u32) -> f32;

pub assume_specification [f64::from_bits](b: u64) -> (r: f64)
    ensures r == f64_of_bits(b);

pub assume_specification [f32::from_bits](b: u32) -> (r: f32)
    ensures r == f32_of_bits(b);

/// number of binary digits of x (0 for 0): mathematics
pub open spec fn bit_len(x: nat) -> nat
    decreases x
{
    if x == 0 { 0 } else { 1 + bit_len(x / 2) }
}

/// [A2] `u128::leading_zeros`: 128 minus the number of binary digits (128 for 0)
pub assume_specification [u128::leading_zeros](x: u128) -> (r: u32)
    ensures r == 128 - bit_len(x as nat);

/// [A3] `u128::pow`: the mathematical power when it fits (overflow panics in dev builds and wraps in
/// release builds: excluded by the precondition, i.e. callers must prove that it cannot happen)
pub assume_specification [u128::pow](x: u128, k: u32) -> (r: u128)
    requires vstd::arithmetic::power::pow(x as int, k as nat) <= u128::MAX
    ensures r == vstd::arithmetic::power::pow(x as int, k as nat);

/// [A4] the associated consts of the primitive float types (std documentation of f64 / f32).
/// Rule R51 redirects `Self::MANTISSA_DIGITS` / `Self::MAX_EXP` to this table.
pub trait StdFloatConsts {
    const MANTISSA_DIGITS: u32;
    const MAX_EXP: i32;
}

impl StdFloatConsts for f64 {
    const MANTISSA_DIGITS: u32 = 53;
    const MAX_EXP: i32 = 1024;
}

impl StdFloatConsts for f32 {
    const MANTISSA_DIGITS: u32 = 24;
    const MAX_EXP: i32 = 128;
}

/// [A5] the compiler's primitive cast `x as f64` / `x as f32` for x: i128 (Rust reference: "with the
/// current set of numeric types, overflow cannot happen; rounds to nearest, ties to even").  It is NOT
/// verified here (rustc / LLVM `sitofp` are trusted); C12 for Decimals with n_frac_digits == 0 or
/// coeff == 0 is relative to this assumption.  Rule R53 names the cast.
pub uninterp spec fn i128_as_f64(x: i128) -> f64;
pub uninterp spec fn i128_as_f32(x: i128) -> f32;

pub trait CastFromI128: Sized {
    spec fn cast_spec(x: i128) -> Self;

    fn cast_from_i128(x: i128) -> (r: Self)
        ensures r == Self::cast_spec(x);
}

impl CastFromI128 for f64 {
    open spec fn cast_spec(x: i128) -> f64 { i128_as_f64(x) }

    #[verifier::external_body]
    fn cast_from_i128(x: i128) -> (r: f64) { x as f64 }
}

impl CastFromI128 for f32 {
    open spec fn cast_spec(x: i128) -> f32 { i128_as_f32(x) }

    #[verifier::external_body]
    fn cast_from_i128(x: i128) -> (r: f32) { x as f32 }
}
