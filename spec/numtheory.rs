
// ---- elementary number theory for C09 (divisibility, gcd, reduced fractions).
// Mathematics only: nothing in this file is derived from /repo's code. Needs base.rs (pow10, abs_int).
// vstd has no gcd library; everything below is proved from the definitions.

/// d | a   (opaque: the existential and its nonlinear product are only unfolded inside the basic
/// lemmas of the "divisibility" section, which keeps every other proof linear for Z3)
#[verifier::opaque]
pub open spec fn divides(d: int, a: int) -> bool {
    exists|k: int| a == #[trigger] (d * k)
}

/// g is the greatest common divisor of a and b: a positive common divisor that every
/// common divisor divides (hence the greatest one, see lemma_is_gcd_greatest)
pub open spec fn is_gcd(a: int, b: int, g: int) -> bool {
    &&& g > 0
    &&& divides(g, a)
    &&& divides(g, b)
    &&& forall|d: int| #![trigger divides(d, a), divides(d, b)] divides(d, a) && divides(d, b) ==> divides(d, g)
}

pub open spec fn is_odd(x: int) -> bool { x % 2 == 1 }

pub open spec fn min_nat(a: nat, b: nat) -> nat { if a <= b { a } else { b } }

pub open spec fn pow2i(n: nat) -> int
    decreases n
{
    if n == 0 { 1 } else { 2 * pow2i((n - 1) as nat) }
}

pub open spec fn pow5(n: nat) -> int
    decreases n
{
    if n == 0 { 1 } else { 5 * pow5((n - 1) as nat) }
}

/// 2^k || x : 2^k divides x and the cofactor is odd (k is the 2-adic valuation of x)
pub open spec fn exact_pow2(x: int, k: nat) -> bool {
    x % pow2i(k) == 0 && is_odd(x / pow2i(k))
}

/// Euclid's (subtractive) definition of the gcd on the naturals; gcd(0, 0) = 0
pub open spec fn gcd(a: nat, b: nat) -> nat
    decreases a + b
{
    if a == 0 { b } else if b == 0 { a } else if a <= b { gcd(a, (b - a) as nat) } else { gcd((a - b) as nat, b) }
}

/// n/d is the fraction c/10^f in lowest terms
pub open spec fn is_reduced_ratio(c: int, f: nat, n: int, d: int) -> bool {
    &&& n * pow10(f) == c * d
    &&& d > 0
    &&& is_gcd(abs_int(n), d, 1)
}

// ---------------------------------------------------------------- divisibility

pub proof fn lemma_divides_intro(d: int, k: int)
    ensures divides(d, d * k)
{
    reveal(divides);
}

pub open spec fn cofactor(d: int, a: int) -> int { choose|k: int| a == #[trigger] (d * k) }

pub proof fn lemma_divides_elim(d: int, a: int)
    requires divides(d, a)
    ensures a == d * cofactor(d, a)
{
    reveal(divides);
}

pub proof fn lemma_divides_refl(a: int)
    ensures divides(a, a), divides(1, a), divides(a, 0)
{
    reveal(divides);
    assert(a == a * 1);
    assert(a == 1 * a);
    assert(0 == a * 0);
}

pub proof fn lemma_divides_neg(d: int, a: int)
    requires divides(d, a)
    ensures divides(d, -a), divides(-d, a), divides(d, abs_int(a))
{
    lemma_divides_elim(d, a);
    let k = cofactor(d, a);
    assert(-a == d * (-k)) by (nonlinear_arith) requires a == d * k;
    assert(a == (-d) * (-k)) by (nonlinear_arith) requires a == d * k;
    lemma_divides_intro(d, -k);
    lemma_divides_intro(-d, -k);
}

pub proof fn lemma_divides_add_sub(d: int, a: int, b: int)
    requires divides(d, a), divides(d, b)
    ensures divides(d, a + b), divides(d, b - a)
{
    lemma_divides_elim(d, a);
    lemma_divides_elim(d, b);
    let k = cofactor(d, a);
    let l = cofactor(d, b);
    assert(a + b == d * (k + l)) by (nonlinear_arith) requires a == d * k, b == d * l;
    assert(b - a == d * (l - k)) by (nonlinear_arith) requires a == d * k, b == d * l;
    lemma_divides_intro(d, k + l);
    lemma_divides_intro(d, l - k);
}

pub proof fn lemma_divides_mul(d: int, a: int, c: int)
    requires divides(d, a)
    ensures divides(d, a * c), divides(d, c * a), divides(d * c, a * c)
{
    lemma_divides_elim(d, a);
    let k = cofactor(d, a);
    assert(a * c == d * (k * c)) by (nonlinear_arith) requires a == d * k;
    assert(c * a == d * (k * c)) by (nonlinear_arith) requires a == d * k;
    assert(a * c == (d * c) * k) by (nonlinear_arith) requires a == d * k;
    lemma_divides_intro(d, k * c);
    lemma_divides_intro(d * c, k);
}

pub proof fn lemma_divides_trans(a: int, b: int, c: int)
    requires divides(a, b), divides(b, c)
    ensures divides(a, c)
{
    lemma_divides_elim(a, b);
    lemma_divides_elim(b, c);
    let k = cofactor(a, b);
    let l = cofactor(b, c);
    assert(c == a * (k * l)) by (nonlinear_arith) requires b == a * k, c == b * l;
    lemma_divides_intro(a, k * l);
}

/// cancellation: c != 0 && d*c | a*c ==> d | a
pub proof fn lemma_divides_cancel(d: int, a: int, c: int)
    requires c != 0, divides(d * c, a * c)
    ensures divides(d, a)
{
    lemma_divides_elim(d * c, a * c);
    let k = cofactor(d * c, a * c);
    assert(a == d * k) by (nonlinear_arith) requires a * c == (d * c) * k, c != 0;
    lemma_divides_intro(d, k);
}

pub proof fn lemma_divides_le(d: int, a: int)
    requires divides(d, a), a > 0
    ensures d <= a, d != 0
{
    lemma_divides_elim(d, a);
    let k = cofactor(d, a);
    assert(d <= a && d != 0) by (nonlinear_arith) requires a == d * k, a > 0;
}

pub proof fn lemma_divides_antisym(a: int, b: int)
    requires a > 0, b > 0, divides(a, b), divides(b, a)
    ensures a == b
{
    lemma_divides_le(a, b);
    lemma_divides_le(b, a);
}

/// exact division by a positive divisor
pub proof fn lemma_divides_div(d: int, a: int)
    requires d > 0, divides(d, a)
    ensures a % d == 0, a == d * (a / d), a == (a / d) * d
{
    lemma_divides_elim(d, a);
    let k = cofactor(d, a);
    assert(a == k * d + 0) by (nonlinear_arith) requires a == d * k;
    lemma_div_mod_unique(a, d, k, 0);
    assert(k * d == d * k) by (nonlinear_arith);
}

pub proof fn lemma_mod0_divides(d: int, a: int)
    requires d > 0, a % d == 0
    ensures divides(d, a), a == d * (a / d)
{
    vstd::arithmetic::div_mod::lemma_fundamental_div_mod(a, d);
    lemma_divides_intro(d, a / d);
}

// ---------------------------------------------------------------- parity

pub proof fn lemma_odd_times_odd(a: int, b: int)
    requires is_odd(a), is_odd(b)
    ensures is_odd(a * b)
{
    let i = a / 2;
    let j = b / 2;
    assert(a * b == (2 * i * j + i + j) * 2 + 1) by (nonlinear_arith) requires a == 2 * i + 1, b == 2 * j + 1;
    lemma_div_mod_unique(a * b, 2, 2 * i * j + i + j, 1);
}

pub proof fn lemma_even_times(a: int, b: int)
    requires !is_odd(a)
    ensures !is_odd(a * b), !is_odd(b * a)
{
    let i = a / 2;
    assert(a * b == (i * b) * 2 + 0) by (nonlinear_arith) requires a == 2 * i;
    lemma_div_mod_unique(a * b, 2, i * b, 0);
    assert(b * a == a * b) by (nonlinear_arith);
}

/// every divisor of an odd number is odd
pub proof fn lemma_odd_divisor(d: int, a: int)
    requires is_odd(a), divides(d, a)
    ensures is_odd(d)
{
    lemma_divides_elim(d, a);
    let k = cofactor(d, a);
    if !is_odd(d) { lemma_even_times(d, k); }
}

/// Euclid's lemma for the prime 2: an odd d dividing 2v divides v
pub proof fn lemma_odd_divides_half(d: int, v: int)
    requires is_odd(d), divides(d, 2 * v)
    ensures divides(d, v)
{
    lemma_divides_elim(d, 2 * v);
    let k = cofactor(d, 2 * v);
    if is_odd(k) {
        lemma_odd_times_odd(d, k);
        assert(false);
    }
    let j = k / 2;
    assert(v == d * j) by (nonlinear_arith) requires 2 * v == d * k, k == 2 * j;
    lemma_divides_intro(d, j);
}

// ---------------------------------------------------------------- powers

pub proof fn lemma_pow2_pos(n: nat)
    ensures pow2i(n) >= 1
    decreases n
{
    if n > 0 { lemma_pow2_pos((n - 1) as nat); }
}

pub proof fn lemma_pow2_add(a: nat, b: nat)
    ensures pow2i(a + b) == pow2i(a) * pow2i(b)
    decreases a
{
    if a == 0 {
        assert(1 * pow2i(b) == pow2i(b));
    } else {
        lemma_pow2_add((a - 1) as nat, b);
        assert(((a - 1) as nat) + b == (a + b - 1) as nat);
        assert(2 * (pow2i((a - 1) as nat) * pow2i(b)) == (2 * pow2i((a - 1) as nat)) * pow2i(b)) by (nonlinear_arith);
    }
}

pub proof fn lemma_pow2_mono(a: nat, b: nat)
    requires a <= b
    ensures pow2i(a) <= pow2i(b)
    decreases b
{
    if a < b {
        lemma_pow2_mono(a, (b - 1) as nat);
        lemma_pow2_pos((b - 1) as nat);
    }
}

/// our pow2 is vstd's pow2 (vstd's shift lemmas are stated with the latter)
pub proof fn lemma_pow2_vstd(n: nat)
    ensures pow2i(n) == vstd::arithmetic::power2::pow2(n)
    decreases n
{
    if n == 0 {
        vstd::arithmetic::power2::lemma2_to64();
    } else {
        vstd::arithmetic::power2::lemma_pow2_unfold(n);
        lemma_pow2_vstd((n - 1) as nat);
    }
}

pub proof fn lemma_pow5_odd(n: nat)
    ensures is_odd(pow5(n)), pow5(n) >= 1
    decreases n
{
    if n > 0 {
        lemma_pow5_odd((n - 1) as nat);
        lemma_odd_times_odd(5, pow5((n - 1) as nat));
    }
}

/// 10^n = 2^n * 5^n
pub proof fn lemma_pow10_split(n: nat)
    ensures pow10(n) == pow2i(n) * pow5(n), pow10(n) / pow2i(n) == pow5(n), pow10(n) % pow2i(n) == 0
    decreases n
{
    if n == 0 {
        assert(pow10(0) == 1 && pow2i(0) == 1 && pow5(0) == 1);
    } else {
        let m = (n - 1) as nat;
        lemma_pow10_split(m);
        assert((2 * pow2i(m)) * (5 * pow5(m)) == 10 * (pow2i(m) * pow5(m))) by (nonlinear_arith);
    }
    lemma_pow2_pos(n);
    assert(pow10(n) == pow5(n) * pow2i(n) + 0) by (nonlinear_arith) requires pow10(n) == pow2i(n) * pow5(n);
    lemma_div_mod_unique(pow10(n), pow2i(n), pow5(n), 0);
}

/// if 2^k || x (x > 0) then x = 2^k * (x / 2^k) with an odd positive cofactor
pub proof fn lemma_exact_pow2(x: int, k: nat)
    requires x > 0, exact_pow2(x, k)
    ensures
        x == pow2i(k) * (x / pow2i(k)),
        x / pow2i(k) > 0,
        x / pow2i(k) <= x,
        is_odd(x / pow2i(k)),
{
    lemma_pow2_pos(k);
    let p = pow2i(k);
    let q = x / p;
    vstd::arithmetic::div_mod::lemma_fundamental_div_mod(x, p);
    assert(q > 0 && q <= x) by (nonlinear_arith) requires x == p * q, x > 0, p >= 1;
}

// ---------------------------------------------------------------- gcd: the characterisation

pub proof fn lemma_is_gcd_common(a: int, b: int, g: int, d: int)
    requires is_gcd(a, b, g), divides(d, a), divides(d, b)
    ensures divides(d, g)
{
}

/// "greatest": every common divisor is <= g
pub proof fn lemma_is_gcd_greatest(a: int, b: int, g: int, d: int)
    requires is_gcd(a, b, g), divides(d, a), divides(d, b)
    ensures d <= g
{
    lemma_divides_le(d, g);
}

pub proof fn lemma_is_gcd_unique(a: int, b: int, g1: int, g2: int)
    requires is_gcd(a, b, g1), is_gcd(a, b, g2)
    ensures g1 == g2
{
    lemma_is_gcd_common(a, b, g1, g2);
    lemma_is_gcd_common(a, b, g2, g1);
    lemma_divides_antisym(g1, g2);
}

pub proof fn lemma_is_gcd_sym(a: int, b: int, g: int)
    requires is_gcd(a, b, g)
    ensures is_gcd(b, a, g)
{
    assert forall|d: int| #![trigger divides(d, b), divides(d, a)] divides(d, b) && divides(d, a) implies divides(d, g) by {
        lemma_is_gcd_common(a, b, g, d);
    }
}

pub proof fn lemma_is_gcd_zero(a: int)
    requires a > 0
    ensures is_gcd(a, 0, a), is_gcd(0, a, a)
{
    lemma_divides_refl(a);
}

/// gcd(a, b) = gcd(a, b - a)
pub proof fn lemma_is_gcd_sub(a: int, b: int, g: int)
    requires is_gcd(a, b - a, g)
    ensures is_gcd(a, b, g)
{
    lemma_divides_add_sub(g, a, b - a);
    assert(a + (b - a) == b);
    assert forall|d: int| #![trigger divides(d, a), divides(d, b)] divides(d, a) && divides(d, b) implies divides(d, g) by {
        lemma_divides_add_sub(d, a, b);
        lemma_is_gcd_common(a, b - a, g, d);
    }
}

/// a odd ==> gcd(a, 2b) = gcd(a, b)
pub proof fn lemma_is_gcd_odd_even(a: int, b: int, g: int)
    requires is_odd(a), is_gcd(a, b, g)
    ensures is_gcd(a, 2 * b, g)
{
    lemma_divides_mul(g, b, 2);
    assert(b * 2 == 2 * b);
    assert forall|d: int| #![trigger divides(d, a), divides(d, 2 * b)] divides(d, a) && divides(d, 2 * b) implies divides(d, g) by {
        lemma_odd_divisor(d, a);
        lemma_odd_divides_half(d, b);
        lemma_is_gcd_common(a, b, g, d);
    }
}

/// gcd(2a, 2b) = 2 gcd(a, b)
pub proof fn lemma_is_gcd_double(a: int, b: int, g: int)
    requires is_gcd(a, b, g)
    ensures is_gcd(2 * a, 2 * b, 2 * g)
{
    lemma_divides_mul(g, a, 2);
    lemma_divides_mul(g, b, 2);
    assert(a * 2 == 2 * a && b * 2 == 2 * b && g * 2 == 2 * g);
    assert forall|d: int| #![trigger divides(d, 2 * a), divides(d, 2 * b)] divides(d, 2 * a) && divides(d, 2 * b) implies divides(d, 2 * g) by {
        if is_odd(d) {
            lemma_odd_divides_half(d, a);
            lemma_odd_divides_half(d, b);
            lemma_is_gcd_common(a, b, g, d);
            lemma_divides_mul(d, g, 2);
        } else {
            let e = d / 2;
            assert(d == e * 2);
            lemma_divides_cancel(e, a, 2);
            lemma_divides_cancel(e, b, 2);
            lemma_is_gcd_common(a, b, g, e);
            lemma_divides_mul(e, g, 2);
        }
    }
}

// ---------------------------------------------------------------- gcd: the function

/// existence: Euclid's gcd is the greatest common divisor
pub proof fn lemma_gcd_is_gcd(a: nat, b: nat)
    requires a + b > 0
    ensures is_gcd(a as int, b as int, gcd(a, b) as int), gcd(a, b) > 0
    decreases a + b
{
    if a == 0 {
        lemma_is_gcd_zero(b as int);
    } else if b == 0 {
        lemma_is_gcd_zero(a as int);
    } else if a <= b {
        lemma_gcd_is_gcd(a, (b - a) as nat);
        lemma_is_gcd_sub(a as int, b as int, gcd(a, b) as int);
    } else {
        lemma_gcd_is_gcd((a - b) as nat, b);
        lemma_is_gcd_sym(a - b, b as int, gcd(a, b) as int);
        lemma_is_gcd_sub(b as int, a as int, gcd(a, b) as int);
        lemma_is_gcd_sym(b as int, a as int, gcd(a, b) as int);
    }
}

/// uniqueness: any g with is_gcd(a, b, g) is gcd(a, b)
pub proof fn lemma_gcd_unique(a: nat, b: nat, g: int)
    requires is_gcd(a as int, b as int, g)
    ensures g == gcd(a, b)
{
    if a + b == 0 {
        // every d divides 0, hence g + 1 | g, impossible for g > 0
        lemma_divides_refl(g + 1);
        lemma_is_gcd_common(0, 0, g, g + 1);
        lemma_divides_le(g + 1, g);
    } else {
        lemma_gcd_is_gcd(a, b);
        lemma_is_gcd_unique(a as int, b as int, g, gcd(a, b) as int);
    }
}

pub proof fn lemma_gcd_sym(a: nat, b: nat)
    ensures gcd(a, b) == gcd(b, a)
{
    if a + b > 0 {
        lemma_gcd_is_gcd(a, b);
        lemma_is_gcd_sym(a as int, b as int, gcd(a, b) as int);
        lemma_gcd_unique(b, a, gcd(a, b) as int);
    }
}

/// gcd(a, b) = gcd(a, b - a) for 0 < a <= b (one step of the definition)
pub proof fn lemma_gcd_sub(a: nat, b: nat)
    requires 0 < a <= b
    ensures gcd(a, (b - a) as nat) == gcd(a, b)
{
    if b == a {
        assert(gcd(a, b) == gcd(a, 0)) by { reveal_with_fuel(gcd, 2); }
    }
}

/// a odd ==> gcd(a, b * 2^k) = gcd(a, b)
pub proof fn lemma_gcd_odd_pow2(a: nat, b: nat, k: nat)
    requires is_odd(a as int)
    ensures gcd(a, (b * pow2i(k)) as nat) == gcd(a, b), b * pow2i(k) >= 0
    decreases k
{
    lemma_pow2_pos(k);
    assert(b * pow2i(k) >= 0) by (nonlinear_arith) requires b >= 0, pow2i(k) >= 1;
    if k == 0 {
        assert(b * pow2i(0) == b) by { assert(pow2i(0) == 1); assert(b * 1 == b); }
    } else {
        let m = (k - 1) as nat;
        lemma_gcd_odd_pow2(a, b, m);
        let c = (b * pow2i(m)) as nat;
        assert(b * pow2i(k) == 2 * c) by (nonlinear_arith) requires pow2i(k) == 2 * pow2i(m), c == b * pow2i(m);
        lemma_gcd_is_gcd(a, c);
        lemma_is_gcd_odd_even(a as int, c as int, gcd(a, c) as int);
        lemma_gcd_unique(a, (2 * c) as nat, gcd(a, c) as int);
    }
}

/// gcd(2^i * a, 2^j * b) = 2^min(i,j) * gcd(a, b) for odd a, b
pub proof fn lemma_gcd_pow2_factors(i: nat, j: nat, a: nat, b: nat)
    requires is_odd(a as int), is_odd(b as int)
    ensures
        pow2i(i) * a >= 0, pow2i(j) * b >= 0,
        gcd((pow2i(i) * a) as nat, (pow2i(j) * b) as nat) == pow2i(min_nat(i, j)) * gcd(a, b),
    decreases i + j
{
    lemma_pow2_pos(i);
    lemma_pow2_pos(j);
    assert(pow2i(i) * a >= 0) by (nonlinear_arith) requires a >= 0, pow2i(i) >= 1;
    assert(pow2i(j) * b >= 0) by (nonlinear_arith) requires b >= 0, pow2i(j) >= 1;
    let g = gcd(a, b);
    if i == 0 {
        assert(pow2i(0) == 1);
        assert(pow2i(i) * a == a) by (nonlinear_arith) requires pow2i(i) == 1;
        assert(pow2i(min_nat(i, j)) * g == g) by (nonlinear_arith) requires pow2i(min_nat(i, j)) == 1;
        lemma_gcd_odd_pow2(a, b, j);
        assert(pow2i(j) * b == b * pow2i(j)) by (nonlinear_arith);
    } else if j == 0 {
        assert(pow2i(0) == 1);
        assert(pow2i(j) * b == b) by (nonlinear_arith) requires pow2i(j) == 1;
        assert(pow2i(min_nat(i, j)) * g == g) by (nonlinear_arith) requires pow2i(min_nat(i, j)) == 1;
        lemma_gcd_odd_pow2(b, a, i);
        assert(pow2i(i) * a == a * pow2i(i)) by (nonlinear_arith);
        lemma_gcd_sym(b, (a * pow2i(i)) as nat);
        lemma_gcd_sym(b, a);
    } else {
        let i1 = (i - 1) as nat;
        let j1 = (j - 1) as nat;
        lemma_gcd_pow2_factors(i1, j1, a, b);
        let x = (pow2i(i1) * a) as nat;
        let y = (pow2i(j1) * b) as nat;
        lemma_pow2_pos(i1);
        lemma_pow2_pos(j1);
        assert(x > 0) by (nonlinear_arith) requires x == pow2i(i1) * a, a > 0, pow2i(i1) >= 1;
        lemma_gcd_is_gcd(x, y);
        lemma_is_gcd_double(x as int, y as int, gcd(x, y) as int);
        assert(pow2i(i) * a == 2 * x) by (nonlinear_arith) requires pow2i(i) == 2 * pow2i(i1), x == pow2i(i1) * a;
        assert(pow2i(j) * b == 2 * y) by (nonlinear_arith) requires pow2i(j) == 2 * pow2i(j1), y == pow2i(j1) * b;
        lemma_gcd_unique((2 * x) as nat, (2 * y) as nat, 2 * (gcd(x, y) as int));
        assert(min_nat(i, j) == min_nat(i1, j1) + 1);
        let m1 = min_nat(i1, j1);
        assert(pow2i((m1 + 1) as nat) * g == 2 * (pow2i(m1) * g)) by (nonlinear_arith)
            requires pow2i((m1 + 1) as nat) == 2 * pow2i(m1);
    }
}

/// gcd(a*c, b*c) = gcd(a, b) * c
pub proof fn lemma_gcd_scale(a: nat, b: nat, c: nat)
    ensures a * c >= 0, b * c >= 0, gcd((a * c) as nat, (b * c) as nat) == gcd(a, b) * c
    decreases a + b
{
    assert(a * c >= 0 && b * c >= 0) by (nonlinear_arith) requires a >= 0, b >= 0, c >= 0;
    if c == 0 {
        assert(a * c == 0 && b * c == 0 && gcd(a, b) * c == 0) by (nonlinear_arith) requires c == 0;
    } else if a == 0 {
        assert(a * c == 0) by (nonlinear_arith) requires a == 0;
    } else if b == 0 {
        assert(b * c == 0) by (nonlinear_arith) requires b == 0;
        assert(a * c > 0) by (nonlinear_arith) requires a > 0, c > 0;
    } else {
        assert(a * c > 0 && b * c > 0) by (nonlinear_arith) requires a > 0, b > 0, c > 0;
        if a <= b {
            lemma_gcd_scale(a, (b - a) as nat, c);
            assert((b - a) * c == b * c - a * c) by (nonlinear_arith);
            assert(a * c <= b * c) by (nonlinear_arith) requires a <= b, c > 0;
        } else {
            lemma_gcd_scale((a - b) as nat, b, c);
            assert((a - b) * c == a * c - b * c) by (nonlinear_arith);
            assert(a * c > b * c) by (nonlinear_arith) requires a > b, c > 0;
        }
    }
}

/// Gauss: gcd(a, b) = 1 and a | b*c ==> a | c
pub proof fn lemma_coprime_divides_product(a: nat, b: nat, c: nat)
    requires is_gcd(a as int, b as int, 1), divides(a as int, (b * c) as int)
    ensures divides(a as int, c as int)
{
    lemma_gcd_unique(a, b, 1);
    lemma_gcd_scale(a, b, c);
    assert(gcd(a, b) * c == c) by (nonlinear_arith) requires gcd(a, b) == 1;
    if c == 0 {
        lemma_divides_refl(a as int);
    } else {
        assert(a * c + b * c > 0) by (nonlinear_arith) requires a + b > 0, c > 0, a >= 0, b >= 0;
        lemma_gcd_is_gcd((a * c) as nat, (b * c) as nat);
        lemma_divides_intro(a as int, c as int);
        lemma_is_gcd_common((a * c) as int, (b * c) as int, c as int, a as int);
    }
}

// ---------------------------------------------------------------- reduced fractions

/// dividing both by the gcd gives a coprime pair
pub proof fn lemma_reduce_by_gcd(a: int, b: int, g: int)
    requires is_gcd(a, b, g)
    ensures
        a == (a / g) * g,
        b == (b / g) * g,
        is_gcd(a / g, b / g, 1),
{
    lemma_divides_div(g, a);
    lemma_divides_div(g, b);
    let x = a / g;
    let y = b / g;
    lemma_divides_refl(x);
    lemma_divides_refl(y);
    assert forall|d: int| #![trigger divides(d, x), divides(d, y)] divides(d, x) && divides(d, y) implies divides(d, 1) by {
        lemma_divides_mul(d, x, g);
        lemma_divides_mul(d, y, g);
        lemma_is_gcd_common(a, b, g, d * g);
        assert(g == 1 * g);
        lemma_divides_cancel(d, 1, g);
    }
}

/// uniqueness of the reduced fraction: equal value (cross-multiplied) + lowest terms ==> same pair
pub proof fn lemma_reduced_fraction_unique(n1: int, d1: int, n2: int, d2: int)
    requires
        n1 * d2 == n2 * d1,
        d1 > 0,
        d2 > 0,
        is_gcd(abs_int(n1), d1, 1),
        is_gcd(abs_int(n2), d2, 1),
    ensures
        n1 == n2,
        d1 == d2,
{
    let a1 = abs_int(n1);
    let a2 = abs_int(n2);
    assert(a1 * d2 == a2 * d1) by (nonlinear_arith)
        requires n1 * d2 == n2 * d1, d1 > 0, d2 > 0, a1 == abs_int(n1), a2 == abs_int(n2);
    // d1 | a1 * d2 and gcd(d1, a1) = 1 ==> d1 | d2
    lemma_is_gcd_sym(a1, d1, 1);
    lemma_divides_intro(d1, a2);
    assert(d1 * a2 == a1 * d2) by (nonlinear_arith) requires a1 * d2 == a2 * d1;
    lemma_coprime_divides_product(d1 as nat, a1 as nat, d2 as nat);
    // d2 | a2 * d1 and gcd(d2, a2) = 1 ==> d2 | d1
    lemma_is_gcd_sym(a2, d2, 1);
    lemma_divides_intro(d2, a1);
    assert(d2 * a1 == a2 * d1) by (nonlinear_arith) requires a1 * d2 == a2 * d1;
    lemma_coprime_divides_product(d2 as nat, a2 as nat, d1 as nat);
    lemma_divides_antisym(d1, d2);
    assert(n1 == n2) by (nonlinear_arith) requires n1 * d2 == n2 * d1, d1 == d2, d1 > 0;
}

/// statement of lemma_gcd_pow10 for one k (a named predicate so that it can be quantified over k)
pub open spec fn gcd_pow10_split(x: int, e: nat, k: nat) -> bool {
    let w = x / pow2i(k);
    let g = gcd(w as nat, pow5(e) as nat) * pow2i(min_nat(k, e));
    w > 0 && is_odd(w) && 0 < g <= x && is_gcd(x, pow10(e), g)
}

/// gcd(2^i * a, 2^j * b) for odd a, b in the is_gcd form, with its size
pub proof fn lemma_is_gcd_pow2_factors(i: nat, j: nat, a: nat, b: nat, g: int)
    requires a > 0, is_odd(a as int), is_odd(b as int), g == gcd(a, b) * pow2i(min_nat(i, j))
    ensures 0 < g <= pow2i(i) * a, is_gcd(pow2i(i) * a, pow2i(j) * b, g)
{
    let m = min_nat(i, j);
    let g0 = gcd(a, b);
    lemma_gcd_pow2_factors(i, j, a, b);
    lemma_pow2_pos(i);
    assert(pow2i(i) * a > 0) by (nonlinear_arith) requires a > 0, pow2i(i) >= 1;
    lemma_gcd_is_gcd((pow2i(i) * a) as nat, (pow2i(j) * b) as nat);
    assert(g0 * pow2i(m) == pow2i(m) * g0) by (nonlinear_arith);
    // size: g0 | a, so g0 * 2^m <= a * 2^i
    lemma_gcd_is_gcd(a, b);
    lemma_divides_le(g0 as int, a as int);
    lemma_pow2_mono(m, i);
    lemma_pow2_pos(m);
    assert(g0 * pow2i(m) <= pow2i(i) * a && g0 * pow2i(m) > 0) by (nonlinear_arith)
        requires 0 < g0 <= a, 1 <= pow2i(m) <= pow2i(i);
}

/// 2-adic splitting of gcd(x, 10^e): if 2^k || x then gcd(x, 10^e) = 2^min(k,e) * gcd(x / 2^k, 5^e)
pub proof fn lemma_gcd_pow10(x: int, e: nat, k: nat)
    requires x > 0, exact_pow2(x, k)
    ensures gcd_pow10_split(x, e, k)
{
    lemma_exact_pow2(x, k);
    lemma_pow5_odd(e);
    lemma_pow10_split(e);
    let w = x / pow2i(k);
    let g = gcd(w as nat, pow5(e) as nat) * pow2i(min_nat(k, e));
    lemma_is_gcd_pow2_factors(k, e, w as nat, pow5(e) as nat, g);
    assert(x == pow2i(k) * (w as nat));
    assert(pow10(e) == pow2i(e) * (pow5(e) as nat));
    assert(w > 0 && is_odd(w));
    assert(0 < g <= x);
    assert(is_gcd(x, pow10(e), g));
}

/// statement of lemma_gcd_strip_subtract for one k
pub open spec fn gcd_strip_subtract(u: nat, v: nat, k: nat) -> bool {
    let w = v as int / pow2i(k);
    &&& 0 < w <= v
    &&& is_odd(w)
    &&& (u <= w ==> gcd(u, (w - u) as nat) == gcd(u, v))
    &&& (u > w ==> gcd(w as nat, (u - w) as nat) == gcd(u, v))
}

/// for odd u and 2^k || v: gcd(u, v) = gcd(u, w) with w = v / 2^k, and the larger of the two odd
/// numbers u, w may be replaced by their difference
pub proof fn lemma_gcd_strip_subtract(u: nat, v: nat, k: nat)
    requires u > 0, is_odd(u as int), v > 0, exact_pow2(v as int, k)
    ensures gcd_strip_subtract(u, v, k)
{
    let vi = v as int;
    assert(vi > 0 && exact_pow2(vi, k));
    lemma_exact_pow2(vi, k);
    let w = (vi / pow2i(k)) as nat;
    assert(gcd_strip_subtract(u, v, k) == (0 < w <= v && is_odd(w as int)
        && (u <= w ==> gcd(u, (w - u) as nat) == gcd(u, v)) && (u > w ==> gcd(w, (u - w) as nat) == gcd(u, v))));
    lemma_gcd_odd_pow2(u, w, k);
    assert(w * pow2i(k) == pow2i(k) * w) by (nonlinear_arith);
    if u <= w {
        lemma_gcd_sub(u, w);
    } else {
        lemma_gcd_sub(w, u);
        lemma_gcd_sym(w, u);
        lemma_gcd_sym(w, (u - w) as nat);
    }
}

/// (a*b)*(c*d) == (a*c)*(b*d)
pub proof fn lemma_mul_swap_inner(a: int, b: int, c: int, d: int)
    ensures (a * b) * (c * d) == (a * c) * (b * d)
{
    assert((a * b) * (c * d) == (a * c) * (b * d)) by (nonlinear_arith);
}

/// equal values have equal cross products: c1/10^f1 = c2/10^f2 (stated at the common scale m),
/// n1/d1 = c1/10^f1, n2/d2 = c2/10^f2  ==>  n1*d2 = n2*d1
pub proof fn lemma_equal_value_cross(c1: int, f1: nat, c2: int, f2: nat, m: nat, n1: int, d1: int, n2: int, d2: int)
    requires
        m >= f1, m >= f2,
        c1 * pow10((m - f1) as nat) == c2 * pow10((m - f2) as nat),
        n1 * pow10(f1) == c1 * d1,
        n2 * pow10(f2) == c2 * d2,
    ensures n1 * d2 == n2 * d1
{
    let a = pow10((m - f1) as nat);
    let b = pow10((m - f2) as nat);
    let p = pow10(f1);
    let q = pow10(f2);
    let t = pow10(m);
    lemma_pow10_add(f1, (m - f1) as nat);
    lemma_pow10_add(f2, (m - f2) as nat);
    lemma_pow10_pos(m);
    assert(f1 + ((m - f1) as nat) == m && f2 + ((m - f2) as nat) == m);
    assert(t == p * a && t == q * b);
    // (n1*d2) * t == (c1*a) * (d1*d2)  and  (n2*d1) * t == (c2*b) * (d1*d2), by ring identities only
    let l = n1 * d2;
    let r = n2 * d1;
    lemma_mul_swap_inner(n1, d2, p, a);          // (n1*d2)*(p*a) == (n1*p)*(d2*a)
    lemma_mul_swap_inner(c1, d1, a, d2);         // (c1*d1)*(a*d2) == (c1*a)*(d1*d2)
    assert(d2 * a == a * d2) by (nonlinear_arith);
    assert(l * t == (c1 * a) * (d1 * d2));
    lemma_mul_swap_inner(n2, d1, q, b);          // (n2*d1)*(q*b) == (n2*q)*(d1*b)
    lemma_mul_swap_inner(c2, d2, b, d1);         // (c2*d2)*(b*d1) == (c2*b)*(d2*d1)
    assert(d1 * b == b * d1) by (nonlinear_arith);
    assert(d2 * d1 == d1 * d2) by (nonlinear_arith);
    assert(r * t == (c2 * b) * (d1 * d2));
    assert(l == r) by (nonlinear_arith) requires l * t == r * t, t > 0;
}

/// existence and shape of the reduced form of c / 10^f: divide both by g = gcd(|c|, 10^f)
/// (t is the truncating quotient c / g, which is exact here)
pub proof fn lemma_reduced_by_gcd(c: int, f: nat, g: int)
    requires is_gcd(abs_int(c), pow10(f), g)
    ensures
        is_reduced_ratio(c, f, trunc_div(c, g), pow10(f) / g),
        abs_int(trunc_div(c, g)) <= abs_int(c),
        0 < pow10(f) / g <= pow10(f),
{
    let a = abs_int(c);
    let p = pow10(f);
    lemma_pow10_pos(f);
    lemma_reduce_by_gcd(a, p, g);
    lemma_trunc_div_rem(c, g);
    let n = trunc_div(c, g);
    let d = p / g;
    assert(abs_int(n) == a / g);
    assert(d > 0 && d <= p) by (nonlinear_arith) requires p == d * g, p >= 1, g > 0;
    // n * g == c
    lemma_trunc_div_sign(c, g);
    assert(n * g == c) by (nonlinear_arith)
        requires abs_int(n) == a / g, a == (a / g) * g, a == abs_int(c), g > 0,
            (c >= 0 ==> n >= 0), (c <= 0 ==> n <= 0);
    assert(n * p == c * d) by (nonlinear_arith) requires n * g == c, p == d * g;
}

pub proof fn lemma_trunc_div_sign(x: int, y: int)
    requires y > 0
    ensures x >= 0 ==> trunc_div(x, y) >= 0, x <= 0 ==> trunc_div(x, y) <= 0
{
    if x >= 0 {
        vstd::arithmetic::div_mod::lemma_div_pos_is_pos(x, y);
    } else {
        vstd::arithmetic::div_mod::lemma_div_pos_is_pos(-x, y);
    }
}
