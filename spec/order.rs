
// ---- C08: order laws of val_cmp (pure mathematics)
pub open spec fn max3(a: u8, b: u8, c: u8) -> u8 { max_u8(max_u8(a, b), c) }

/// re-scaling both operands to a finer common scale does not change the sign of the difference
pub proof fn lemma_cmp_at_any_scale(x: Decimal, y: Decimal, s: u8)
    requires s >= x.n_frac_digits, s >= y.n_frac_digits
    ensures val_cmp(x, y) == sgn(at_scale(x, s) - at_scale(y, s))
{
    let m = max_u8(x.n_frac_digits, y.n_frac_digits);
    let k = (s - m) as nat;
    let f = pow10(k);
    lemma_pow10_pos(k);
    lemma_at_scale_step(x, m, s);
    lemma_at_scale_step(y, m, s);
    let dx = at_scale(x, m);
    let dy = at_scale(y, m);
    assert(at_scale(x, s) - at_scale(y, s) == (dx - dy) * f) by (nonlinear_arith)
        requires at_scale(x, s) == dx * f, at_scale(y, s) == dy * f;
    if dx - dy > 0 {
        assert((dx - dy) * f > 0) by (nonlinear_arith) requires dx - dy > 0, f >= 1;
    } else if dx - dy < 0 {
        assert((dx - dy) * f < 0) by (nonlinear_arith) requires dx - dy < 0, f >= 1;
    } else {
        assert((dx - dy) * f == 0) by (nonlinear_arith) requires dx - dy == 0;
    }
}

pub proof fn lemma_at_scale_step(x: Decimal, m: u8, s: u8)
    requires x.n_frac_digits <= m <= s
    ensures at_scale(x, s) == at_scale(x, m) * pow10((s - m) as nat)
{
    let a = (m - x.n_frac_digits) as nat;
    let b = (s - m) as nat;
    lemma_pow10_add(a, b);
    assert(pow10(0) == 1);
    let c = x.coeff as int;
    if s == x.n_frac_digits {
        assert(c == c * 1) by (nonlinear_arith);
    } else if m == x.n_frac_digits {
        assert(at_scale(x, m) == c);
    } else if s == m {
        assert(at_scale(x, m) * 1 == at_scale(x, m)) by (nonlinear_arith);
    } else {
        assert(c * (pow10(a) * pow10(b)) == (c * pow10(a)) * pow10(b)) by (nonlinear_arith);
    }
}

pub proof fn lemma_cmp_refl(x: Decimal)
    ensures val_cmp(x, x) == 0
{
}

pub proof fn lemma_cmp_antisym(x: Decimal, y: Decimal)
    ensures val_cmp(x, y) == -val_cmp(y, x)
{
}

pub proof fn lemma_cmp_trans(x: Decimal, y: Decimal, z: Decimal)
    ensures
        val_cmp(x, y) <= 0 && val_cmp(y, z) <= 0 ==> val_cmp(x, z) <= 0,
        val_cmp(x, y) < 0 && val_cmp(y, z) <= 0 ==> val_cmp(x, z) < 0,
        val_cmp(x, y) <= 0 && val_cmp(y, z) < 0 ==> val_cmp(x, z) < 0,
        val_cmp(x, y) == 0 && val_cmp(y, z) == 0 ==> val_cmp(x, z) == 0,
{
    let s = max3(x.n_frac_digits, y.n_frac_digits, z.n_frac_digits);
    lemma_cmp_at_any_scale(x, y, s);
    lemma_cmp_at_any_scale(y, z, s);
    lemma_cmp_at_any_scale(x, z, s);
}
