
// ---- C12: rounding a positive rational to the nearest binary floating point number, ties to even.
// Mathematics only: nothing in this file is derived from /repo's code.
//
// A binary format is given by F (number of fraction bits: 52 / 23) and the exponent bias (1023 / 127).
// A *normal* number of the format is  m * 2^e  with an integer significand 2^F <= m < 2^(F+1) and an
// integer e; its bit pattern (without the sign bit) is  (e + F + bias) << F | (m - 2^F), i.e. biased
// exponent e + F + bias (the value is (m / 2^F) * 2^(e+F)) and trailing significand m - 2^F
// [IEEE 754-2008, 3.4: listed assumption, the same as for C13].
// Floats are not modelled as reals; the value num/den is only ever compared by cross-multiplication.

pub open spec fn pw2(n: nat) -> int { vstd::arithmetic::power2::pow2(n) as int }

/// (num/den) * 2^-e as a fraction of positive integers: numerator ...
pub open spec fn scale_num(num: int, e: int) -> int { if e < 0 { num * pw2((-e) as nat) } else { num } }

/// ... and denominator
pub open spec fn scale_den(den: int, e: int) -> int { if e > 0 { den * pw2(e as nat) } else { den } }

/// 2^F <= (num/den) / 2^e < 2^(F+1): e is the weight of the last place of an (F+1)-bit significand
/// for the binade that contains num/den
pub open spec fn in_binade(num: int, den: int, F: nat, e: int) -> bool {
    pw2(F) * scale_den(den, e) <= scale_num(num, e) < pw2(F + 1) * scale_den(den, e)
}

/// the e with in_binade (exists and is unique for num, den > 0: lemma_binade_unique, lemma_ulp_exp)
pub open spec fn ulp_exp(num: int, den: int, F: nat) -> int {
    choose|e: int| in_binade(num, den, F, e)
}

/// the integer nearest to a/b (a >= 0, b > 0), ties to the even one
pub open spec fn rne_div(a: int, b: int) -> int
    recommends b > 0
{
    let q = a / b;
    let r = a % b;
    if 2 * r < b { q } else if 2 * r > b { q + 1 } else if q % 2 == 0 { q } else { q + 1 }
}

/// (m, e): num/den rounded to the grid of spacing 2^e of its binade; rounding up from the last
/// significand of the binade gives 2^(F+1) * 2^e, which is the first number of the next binade
pub open spec fn rne_sig_exp(num: int, den: int, F: nat) -> (int, int) {
    let e = ulp_exp(num, den, F);
    let m = rne_div(scale_num(num, e), scale_den(den, e));
    if m == pw2(F + 1) { (pw2(F), e + 1) } else { (m, e) }
}

/// bit pattern (without sign) of the float nearest to num/den, ties to even
pub open spec fn rne_bits(num: int, den: int, F: nat, bias: int) -> int {
    let (m, e) = rne_sig_exp(num, den, F);
    (e + F + bias) * pw2(F) + (m - pw2(F))
}

/// C12: the pattern for the Decimal c / 10^f (c != 0) in a format with `bits` bits in total:
/// sign bit (the sign of c) in the top position, then rne_bits of |c| / 10^f
pub open spec fn float_bits_of(c: int, f: nat, F: nat, bias: int, bits: nat) -> int {
    (if c < 0 { pw2((bits - 1) as nat) } else { 0 }) + rne_bits(abs_int(c), pow10(f), F, bias)
}

/// the two formats of C12: (fraction bits, bias, total bits)
pub open spec fn float_format(F: int, bias: int, bits: int) -> bool {
    (F == 52 && bias == 1023 && bits == 64) || (F == 23 && bias == 127 && bits == 32)
}

// ======================= lemma library (all proved; pure mathematics) =======================

pub proof fn lemma_pw2_values()
    ensures
        pw2(0) == 1, pw2(1) == 2, pw2(2) == 4, pw2(3) == 8, pw2(4) == 16,
        pw2(11) == 0x800, pw2(8) == 0x100,
        pw2(23) == 0x80_0000, pw2(24) == 0x100_0000, pw2(26) == 0x400_0000, pw2(27) == 0x800_0000,
        pw2(31) == 0x8000_0000, pw2(32) == 0x1_0000_0000,
        pw2(52) == 0x10_0000_0000_0000, pw2(53) == 0x20_0000_0000_0000, pw2(55) == 0x80_0000_0000_0000,
        pw2(56) == 0x100_0000_0000_0000,
        pw2(59) == 0x800_0000_0000_0000, pw2(60) == 0x1000_0000_0000_0000, pw2(63) == 0x8000_0000_0000_0000,
        pw2(64) == 0x1_0000_0000_0000_0000,
        pw2(126) == 0x4000_0000_0000_0000_0000_0000_0000_0000,
        pw2(127) == 0x8000_0000_0000_0000_0000_0000_0000_0000,
        pw2(128) == 0x1_0000_0000_0000_0000_0000_0000_0000_0000,
{
    vstd::arithmetic::power2::lemma2_to64();
    vstd::arithmetic::power2::lemma2_to64_rest();
    vstd::arithmetic::power2::lemma_pow2_adds(63, 63);
    vstd::arithmetic::power2::lemma_pow2_adds(64, 63);
    vstd::arithmetic::power2::lemma_pow2_adds(64, 64);
}

pub proof fn lemma_pw2_pos(n: nat)
    ensures pw2(n) >= 1
{
    vstd::arithmetic::power2::lemma_pow2_pos(n);
}

pub proof fn lemma_pw2_add(a: nat, b: nat)
    ensures pw2(a + b) == pw2(a) * pw2(b)
{
    vstd::arithmetic::power2::lemma_pow2_adds(a, b);
}

pub proof fn lemma_pw2_succ(n: nat)
    ensures pw2(n + 1) == 2 * pw2(n)
{
    vstd::arithmetic::power2::lemma_pow2_adds(n, 1);
    vstd::arithmetic::power2::lemma2_to64();
    assert(pw2(n) * 2 == 2 * pw2(n));
}

pub proof fn lemma_pw2_mono(a: nat, b: nat)
    requires a <= b
    ensures pw2(a) <= pw2(b)
{
    if a < b { vstd::arithmetic::power2::lemma_pow2_strictly_increases(a, b); }
}

pub proof fn lemma_pw2_strict(a: nat, b: nat)
    requires a < b
    ensures 2 * pw2(a) <= pw2(b)
{
    lemma_pw2_succ(a);
    lemma_pw2_mono(a + 1, b);
}

/// multiplying both sides of a comparison by a positive factor
pub proof fn lemma_mul_cmp(x: int, y: int, k: int)
    requires k > 0
    ensures (x <= y) <==> (x * k <= y * k), (x < y) <==> (x * k < y * k)
{
    assert((x <= y) <==> (x * k <= y * k)) by (nonlinear_arith) requires k > 0;
    assert((x < y) <==> (x * k < y * k)) by (nonlinear_arith) requires k > 0;
}

pub proof fn lemma_bit_len_bounds(x: nat)
    requires x > 0
    ensures bit_len(x) >= 1, pw2((bit_len(x) - 1) as nat) <= x < pw2(bit_len(x))
    decreases x
{
    lemma_pw2_values();
    if x / 2 == 0 {
        assert(x == 1);
        assert(bit_len(x) == 1) by { reveal_with_fuel(bit_len, 3); }
    } else {
        lemma_bit_len_bounds(x / 2);
        let k = bit_len(x / 2);
        assert(bit_len(x) == k + 1);
        lemma_pw2_succ((k - 1) as nat);
        lemma_pw2_succ(k);
    }
}

pub proof fn lemma_bit_len_unique(x: nat, k: nat)
    requires k >= 1, pw2((k - 1) as nat) <= x < pw2(k)
    ensures bit_len(x) == k
{
    lemma_pw2_pos((k - 1) as nat);
    lemma_bit_len_bounds(x);
    let b = bit_len(x);
    if b > k { lemma_pw2_mono(k, (b - 1) as nat); }
    if k > b { lemma_pw2_mono(b, (k - 1) as nat); }
}

/// `x << k` on u128 is multiplication by 2^k when nothing is shifted out
pub proof fn lemma_shl_u128(x: u128, k: u32)
    requires k < 128, x * pw2(k as nat) < pw2(128)
    ensures (x << k) == x * pw2(k as nat)
    decreases k
{
    lemma_pw2_values();
    if k == 0 {
        assert(x << 0u32 == x) by (bit_vector);
        assert(x * 1 == x);
    } else {
        let k1 = (k - 1) as u32;
        lemma_pw2_succ(k1 as nat);
        lemma_pw2_pos(k1 as nat);
        let p = pw2(k1 as nat);
        assert(pw2(k as nat) == 2 * p);
        assert(x * (2 * p) == 2 * (x * p)) by (nonlinear_arith);
        lemma_shl_u128(x, k1);
        let y = x << k1;
        assert(0 < k < 128 ==> x << k == (x << ((k - 1) as u32)) << 1u32) by (bit_vector);
        assert(y < 0x8000_0000_0000_0000_0000_0000_0000_0000u128 ==> (y << 1u32) == mul(2, y)) by (bit_vector);
    }
}

/// common scaling: (num * 2^a, den * 2^b) is (scale_num, scale_den) for e = b - a, both times 2^min(a,b)
pub proof fn lemma_scale_common(num: int, den: int, a: nat, b: nat) -> (t: int)
    ensures
        t >= 1,
        num * pw2(a) == scale_num(num, b - a) * t,
        den * pw2(b) == scale_den(den, b - a) * t,
{
    let e = b - a;
    if e >= 0 {
        let t = pw2(a);
        lemma_pw2_pos(a);
        lemma_pw2_add(e as nat, a);
        assert(pw2(b) == pw2(e as nat) * t);
        if e > 0 {
            assert(den * (pw2(e as nat) * t) == (den * pw2(e as nat)) * t) by (nonlinear_arith);
        } else {
            lemma_pw2_values();
            assert(den * (1 * t) == den * t);
        }
        t
    } else {
        let t = pw2(b);
        lemma_pw2_pos(b);
        lemma_pw2_add((-e) as nat, b);
        assert(pw2(a) == pw2((-e) as nat) * t);
        assert(num * (pw2((-e) as nat) * t) == (num * pw2((-e) as nat)) * t) by (nonlinear_arith);
        t
    }
}

pub proof fn lemma_in_binade_general(num: int, den: int, F: nat, a: nat, b: nat)
    ensures
        in_binade(num, den, F, b - a) <==>
            (pw2(F) * (den * pw2(b)) <= num * pw2(a) < pw2(F + 1) * (den * pw2(b))),
{
    let t = lemma_scale_common(num, den, a, b);
    let sn = scale_num(num, b - a);
    let sd = scale_den(den, b - a);
    lemma_mul_cmp(pw2(F) * sd, sn, t);
    lemma_mul_cmp(sn, pw2(F + 1) * sd, t);
    assert(pw2(F) * (sd * t) == (pw2(F) * sd) * t) by (nonlinear_arith);
    assert(pw2(F + 1) * (sd * t) == (pw2(F + 1) * sd) * t) by (nonlinear_arith);
}

pub proof fn lemma_binade_unique(num: int, den: int, F: nat, e1: int, e2: int)
    requires num > 0, den > 0, in_binade(num, den, F, e1), in_binade(num, den, F, e2)
    ensures e1 == e2
{
    if e1 != e2 {
        let lo = if e1 < e2 { e1 } else { e2 };
        let hi = if e1 < e2 { e2 } else { e1 };
        let K = (abs_int(e1) + abs_int(e2)) as nat;
        let b1 = (K + lo) as nat;
        let b2 = (K + hi) as nat;
        lemma_in_binade_general(num, den, F, K, b1);
        lemma_in_binade_general(num, den, F, K, b2);
        assert(b1 - K == lo && b2 - K == hi);
        lemma_pw2_strict(b1, b2);
        lemma_pw2_succ(F);
        lemma_pw2_pos(F);
        let x1 = den * pw2(b1);
        let x2 = den * pw2(b2);
        assert(2 * x1 <= x2) by (nonlinear_arith) requires den > 0, 2 * pw2(b1) <= pw2(b2), x1 == den * pw2(b1), x2 == den * pw2(b2);
        let n = num * pw2(K);
        assert(pw2(F) * x2 <= n);
        assert(n < pw2(F + 1) * x1);
        assert(pw2(F + 1) * x1 == pw2(F) * (2 * x1)) by (nonlinear_arith) requires pw2(F + 1) == 2 * pw2(F);
        assert(pw2(F) * (2 * x1) <= pw2(F) * x2) by (nonlinear_arith) requires 2 * x1 <= x2, pw2(F) >= 1;
        assert(false);
    }
}

pub proof fn lemma_ulp_exp(num: int, den: int, F: nat, e: int)
    requires num > 0, den > 0, in_binade(num, den, F, e)
    ensures ulp_exp(num, den, F) == e
{
    let c = ulp_exp(num, den, F);
    assert(in_binade(num, den, F, c));
    lemma_binade_unique(num, den, F, c, e);
}

/// scaling numerator and denominator by the same positive factor does not change the rounded quotient
pub proof fn lemma_rne_div_scale(x: int, y: int, t: int)
    requires x >= 0, y > 0, t > 0
    ensures rne_div(x * t, y * t) == rne_div(x, y)
{
    let q = x / y;
    let r = x % y;
    vstd::arithmetic::div_mod::lemma_fundamental_div_mod(x, y);
    vstd::arithmetic::div_mod::lemma_mod_bound(x, y);
    assert(x * t == q * (y * t) + r * t) by (nonlinear_arith) requires x == y * q + r;
    lemma_mul_cmp(r, y, t);
    lemma_mul_cmp(0, r, t);
    assert(y * t > 0) by (nonlinear_arith) requires y > 0, t > 0;
    lemma_div_mod_unique(x * t, y * t, q, r * t);
    lemma_mul_cmp(2 * r, y, t);
    lemma_mul_cmp(y, 2 * r, t);
    assert((2 * r) * t == 2 * (r * t)) by (nonlinear_arith);
}

/// rounding with guard bits and a sticky remainder: N = Q * D0 + R, the low s bits of Q and R decide
pub proof fn lemma_rne_guard_sticky(N: int, D0: int, s: nat, Q: int, R: int)
    requires D0 > 0, 0 <= R < D0, Q >= 0, N == Q * D0 + R, s >= 1
    ensures ({
        let D = D0 * pw2(s);
        let sig = Q / pw2(s);
        let low = Q % pw2(s);
        let half = pw2((s - 1) as nat);
        &&& D > 0
        &&& N / D == sig
        &&& rne_div(N, D) == sig + (if low > half || (low == half && (R > 0 || sig % 2 == 1)) { 1int } else { 0int })
    }),
{
    let p = pw2(s);
    let D = D0 * p;
    let sig = Q / p;
    let low = Q % p;
    let half = pw2((s - 1) as nat);
    lemma_pw2_pos(s);
    lemma_pw2_pos((s - 1) as nat);
    lemma_pw2_succ((s - 1) as nat);
    assert(p == 2 * half);
    vstd::arithmetic::div_mod::lemma_fundamental_div_mod(Q, p);
    vstd::arithmetic::div_mod::lemma_mod_bound(Q, p);
    assert(D > 0) by (nonlinear_arith) requires D == D0 * p, D0 > 0, p >= 1;
    let rr = low * D0 + R;
    assert(N == sig * D + rr) by (nonlinear_arith)
        requires N == Q * D0 + R, Q == p * sig + low, D == D0 * p, rr == low * D0 + R;
    assert(0 <= rr) by (nonlinear_arith) requires rr == low * D0 + R, low >= 0, D0 > 0, R >= 0;
    assert(rr < D) by (nonlinear_arith) requires rr == low * D0 + R, low <= p - 1, D == D0 * p, R < D0, D0 > 0;
    lemma_div_mod_unique(N, D, sig, rr);
    // 2 * rr compared with D = 2 * half * D0
    assert(2 * rr - D == 2 * ((low - half) * D0) + 2 * R) by (nonlinear_arith)
        requires rr == low * D0 + R, D == D0 * p, p == 2 * half;
    if low > half {
        assert((low - half) * D0 >= D0) by (nonlinear_arith) requires low - half >= 1, D0 > 0;
    } else if low < half {
        assert((low - half) * D0 <= -D0) by (nonlinear_arith) requires low - half <= -1, D0 > 0;
    } else {
        assert((low - half) * D0 == 0);
    }
}

/// linking a scaled representation to the oracle: if N = num * 2^a and D = den * 2^b satisfy
/// 2^F <= N/D < 2^(F+1) then the unit exponent is b - a and the pattern follows from m = rne_div(N, D)
pub proof fn lemma_rne_bits_from_scaled(num: int, den: int, F: nat, bias: int, a: nat, b: nat, m: int)
    requires
        num > 0, den > 0,
        pw2(F) * (den * pw2(b)) <= num * pw2(a) < pw2(F + 1) * (den * pw2(b)),
        m == rne_div(num * pw2(a), den * pw2(b)),
    ensures
        pw2(F) <= m <= pw2(F + 1),
        in_binade(num, den, F, b - a),
        ulp_exp(num, den, F) == b - a,
        rne_bits(num, den, F, bias) == (b - a + F + bias - 1) * pw2(F) + m,
{
    let e = b - a;
    let N = num * pw2(a);
    let D = den * pw2(b);
    lemma_pw2_pos(a);
    lemma_pw2_pos(b);
    lemma_pw2_pos(F);
    lemma_pw2_succ(F);
    lemma_in_binade_general(num, den, F, a, b);
    lemma_ulp_exp(num, den, F, e);
    let t = lemma_scale_common(num, den, a, b);
    let sn = scale_num(num, e);
    let sd = scale_den(den, e);
    assert(D > 0) by (nonlinear_arith) requires D == den * pw2(b), den > 0, pw2(b) >= 1;
    assert(N > 0) by (nonlinear_arith) requires N == num * pw2(a), num > 0, pw2(a) >= 1;
    assert(sd > 0) by (nonlinear_arith) requires D == sd * t, D > 0, t >= 1;
    assert(sn >= 0) by (nonlinear_arith) requires N == sn * t, N > 0, t >= 1;
    lemma_rne_div_scale(sn, sd, t);
    assert(rne_div(sn, sd) == m);
    // bounds of m from the bounds of the floor quotient
    let q = N / D;
    vstd::arithmetic::div_mod::lemma_fundamental_div_mod(N, D);
    vstd::arithmetic::div_mod::lemma_mod_bound(N, D);
    assert(q >= pw2(F)) by (nonlinear_arith)
        requires N == D * q + N % D, N % D < D, pw2(F) * D <= N, D > 0;
    assert(q < pw2(F + 1)) by (nonlinear_arith)
        requires N == D * q + N % D, N % D >= 0, N < pw2(F + 1) * D, D > 0;
    let P = pw2(F);
    if m == pw2(F + 1) {
        assert((e + 1 + F + bias) * P + (P - P) == (e + F + bias - 1) * P + 2 * P) by (nonlinear_arith);
    } else {
        assert((e + F + bias) * P + (m - P) == (e + F + bias - 1) * P + m) by (nonlinear_arith);
    }
}
pub proof fn lemma_pow_10(k: nat)
    ensures vstd::arithmetic::power::pow(10, k) == pow10(k)
    decreases k
{
    reveal(vstd::arithmetic::power::pow);
    if k > 0 { lemma_pow_10((k - 1) as nat); }
}

/// N >= k * D  ==>  N / D >= k ;  N < k * D  ==>  N / D < k
pub proof fn lemma_div_bounds(N: int, D: int, k: int)
    requires D > 0
    ensures N >= k * D ==> N / D >= k, N < k * D ==> N / D < k
{
    vstd::arithmetic::div_mod::lemma_fundamental_div_mod(N, D);
    vstd::arithmetic::div_mod::lemma_mod_bound(N, D);
    let q = N / D;
    if N >= k * D {
        assert(q >= k) by (nonlinear_arith) requires N == D * q + N % D, N % D < D, N >= k * D, D > 0;
    }
    if N < k * D {
        assert(q < k) by (nonlinear_arith) requires N == D * q + N % D, N % D >= 0, N < k * D, D > 0;
    }
}

/// stage 3 (normalisation): numerator with nn bits, denominator with dn bits, nn - dn == ab
/// ==> the quotient has ab or ab + 1 bits
pub proof fn lemma_quot_range(N: int, D: int, nn: nat, dn: nat, ab: nat)
    requires nn >= 1, dn >= 1, ab >= 1, nn == dn + ab,
        pw2((nn - 1) as nat) <= N < pw2(nn), pw2((dn - 1) as nat) <= D < pw2(dn),
    ensures pw2((ab - 1) as nat) <= N / D < pw2(ab + 1)
{
    lemma_pw2_pos((dn - 1) as nat);
    lemma_pw2_add((ab - 1) as nat, dn);
    lemma_pw2_add(ab + 1, (dn - 1) as nat);
    let lo = pw2((ab - 1) as nat);
    let hi = pw2(ab + 1);
    lemma_pw2_pos((ab - 1) as nat);
    lemma_pw2_pos(ab + 1);
    assert(lo * D <= lo * pw2(dn)) by (nonlinear_arith) requires D < pw2(dn), lo >= 1;
    assert(hi * pw2((dn - 1) as nat) <= hi * D) by (nonlinear_arith) requires pw2((dn - 1) as nat) <= D, hi >= 1;
    lemma_div_bounds(N, D, lo);
    lemma_div_bounds(N, D, hi);
}

/// x * 2^k keeps the bit-length bounds, shifted by k
pub proof fn lemma_scaled_bounds(x: int, n: nat, k: nat)
    requires n >= 1, pw2((n - 1) as nat) <= x < pw2(n)
    ensures pw2((n + k - 1) as nat) <= x * pw2(k) < pw2(n + k)
{
    lemma_pw2_add((n - 1) as nat, k);
    lemma_pw2_add(n, k);
    lemma_pw2_pos(k);
    lemma_mul_cmp(pw2((n - 1) as nat), x, pw2(k));
    lemma_mul_cmp(x, pw2(n), pw2(k));
}

/// a pattern (without sign) of a format with F fraction bits and `bits` bits in total denotes a normal
/// number iff its biased exponent field x / 2^F is neither 0 (zero / subnormal) nor all ones (inf / NaN)
pub open spec fn is_normal_pattern(x: int, F: nat, bits: nat) -> bool {
    pw2(F) <= x < (pw2((bits - 1 - F) as nat) - 1) * pw2(F)
}

// ======================= the oracle is "nearest, ties to even" (validation of rne_sig_exp) ==========
// The property statement of C12 is relational ("the floating-point number nearest to the exact decimal
// value, ties to even"); rne_sig_exp above is the usual constructive form.  The lemma below proves that
// the constructive form satisfies the relational one, over ALL normal numbers m2 * 2^e2 of the format
// (unbounded exponent), with distances compared after scaling by den * 2^K (K large enough).

/// m * 2^e, scaled by den * 2^K (requires K + e >= 0)
pub open spec fn flt_scaled(den: int, m: int, e: int, K: nat) -> int { m * pw2((K + e) as nat) * den }

/// |m * 2^e - num/den|, scaled by den * 2^K
pub open spec fn flt_err(num: int, den: int, m: int, e: int, K: nat) -> int {
    abs_int(flt_scaled(den, m, e, K) - num * pw2(K))
}

/// m * 2^e is a normal number of the format that is at least as close to num/den as every other normal
/// number m2 * 2^e2, and if a *different* number is equally close then m is even
pub open spec fn is_nearest_ties_even(num: int, den: int, F: nat, m: int, e: int) -> bool {
    &&& pw2(F) <= m < pw2(F + 1)
    &&& forall|m2: int, e2: int, K: nat| pw2(F) <= m2 < pw2(F + 1) && K + e >= 0 && K + e2 >= 0 ==> {
            &&& #[trigger] flt_err(num, den, m, e, K) <= #[trigger] flt_err(num, den, m2, e2, K)
            &&& (flt_err(num, den, m, e, K) == flt_err(num, den, m2, e2, K)
                 && flt_scaled(den, m2, e2, K) != flt_scaled(den, m, e, K)) ==> m % 2 == 0
        }
}

/// one more scaling step doubles everything
pub proof fn lemma_flt_scale_step(num: int, den: int, m: int, e: int, K: nat)
    requires K + e >= 0
    ensures
        flt_scaled(den, m, e, K + 1) == 2 * flt_scaled(den, m, e, K),
        flt_err(num, den, m, e, K + 1) == 2 * flt_err(num, den, m, e, K),
{
    lemma_pw2_succ((K + e) as nat);
    lemma_pw2_succ(K);
    let p = pw2((K + e) as nat);
    assert((K + 1 + e) as nat == (K + e) as nat + 1);
    assert(m * (2 * p) * den == 2 * (m * p * den)) by (nonlinear_arith);
    assert(num * (2 * pw2(K)) == 2 * (num * pw2(K))) by (nonlinear_arith);
}

/// comparison of the oracle's result with one competitor m2 * 2^e2, for K with K + e0 >= 0
pub proof fn lemma_rne_nearest_one(num: int, den: int, F: nat, e0: int, m2: int, e2: int, K: nat)
    requires
        num > 0, den > 0, F >= 1, in_binade(num, den, F, e0),
        pw2(F) <= m2 < pw2(F + 1), K + e0 >= 0, K + e2 >= 0,
    ensures ({
        let (m, e) = rne_sig_exp(num, den, F);
        &&& pw2(F) <= m < pw2(F + 1)
        &&& (e == e0 || e == e0 + 1)
        &&& flt_err(num, den, m, e, K) <= flt_err(num, den, m2, e2, K)
        &&& (flt_err(num, den, m, e, K) == flt_err(num, den, m2, e2, K)
             && flt_scaled(den, m2, e2, K) != flt_scaled(den, m, e, K)) ==> m % 2 == 0
    }),
{
    lemma_ulp_exp(num, den, F, e0);
    let A = scale_num(num, e0);
    let B = scale_den(den, e0);
    let P = pw2(F);
    lemma_pw2_pos(F);
    lemma_pw2_succ(F);
    lemma_pw2_succ((F - 1) as nat);
    assert(P % 2 == 0) by { assert(P == 2 * pw2((F - 1) as nat)); }
    let k0 = (K + e0) as nat;
    let t = lemma_scale_common(num, den, K, k0);
    assert(k0 - K == e0);
    let V = num * pw2(K);
    let U = den * pw2(k0);
    assert(V == A * t && U == B * t);
    lemma_pw2_pos(k0);
    assert(U > 0) by (nonlinear_arith) requires U == den * pw2(k0), den > 0, pw2(k0) >= 1;
    assert(B > 0) by (nonlinear_arith) requires U == B * t, U > 0, t >= 1;
    let q = A / B;
    let r = A % B;
    vstd::arithmetic::div_mod::lemma_fundamental_div_mod(A, B);
    vstd::arithmetic::div_mod::lemma_mod_bound(A, B);
    lemma_div_bounds(A, B, P);
    lemma_div_bounds(A, B, 2 * P);
    assert(P <= q < 2 * P);
    let rho = r * t;
    assert(V == q * U + rho) by (nonlinear_arith) requires V == A * t, U == B * t, A == B * q + r, rho == r * t;
    lemma_mul_cmp(0, r, t);
    lemma_mul_cmp(r, B, t);
    assert(0 <= rho < U);
    lemma_mul_cmp(2 * r, B, t);
    lemma_mul_cmp(B, 2 * r, t);
    assert((2 * r) * t == 2 * rho) by (nonlinear_arith) requires rho == r * t;
    let m0 = rne_div(A, B);
    let (m, e) = rne_sig_exp(num, den, F);
    assert(m0 == q || m0 == q + 1);
    // the value of the result, scaled: m0 * U
    let X = flt_scaled(den, m, e, K);
    assert(X == m0 * U) by {
        if m0 == 2 * P {
            assert(m == P && e == e0 + 1);
            assert((K + e) as nat == k0 + 1);
            lemma_pw2_succ(k0);
            assert(P * (2 * pw2(k0)) * den == (2 * P) * (den * pw2(k0))) by (nonlinear_arith);
        } else {
            assert(m == m0 && e == e0);
            assert(m0 * pw2(k0) * den == m0 * (den * pw2(k0))) by (nonlinear_arith);
        }
    }
    let err = flt_err(num, den, m, e, K);
    assert(err == abs_int(m0 * U - V));
    assert(q * U + U == (q + 1) * U) by (nonlinear_arith);
    assert(m0 == q ==> err == rho);
    assert(m0 == q + 1 ==> err == U - rho);
    // the competitor
    let k2 = (K + e2) as nat;
    let X2 = flt_scaled(den, m2, e2, K);
    let err2 = flt_err(num, den, m2, e2, K);
    assert(err2 == abs_int(X2 - V));
    lemma_pw2_pos(k2);
    if e2 >= e0 {
        // X2 == w * U with an integer w; w <= q or w >= q + 1
        let j = (e2 - e0) as nat;
        lemma_pw2_add(k0, j);
        lemma_pw2_pos(j);
        assert(k2 == k0 + j);
        let w = m2 * pw2(j);
        assert(X2 == w * U) by (nonlinear_arith)
            requires X2 == m2 * pw2(k2) * den, pw2(k2) == pw2(k0) * pw2(j), U == den * pw2(k0), w == m2 * pw2(j);
        if j >= 1 {
            lemma_pw2_strict(0, j);
            lemma_pw2_values();
            assert(w >= 2 * P) by (nonlinear_arith) requires w == m2 * pw2(j), m2 >= P, pw2(j) >= 2, P >= 1;
        } else {
            lemma_pw2_values();
            assert(w == m2) by (nonlinear_arith) requires w == m2 * pw2(j), pw2(j) == 1;
        }
        if w <= q {
            assert(V - X2 == (q - w) * U + rho) by (nonlinear_arith) requires V == q * U + rho, X2 == w * U;
            assert((q - w) * U >= 0) by (nonlinear_arith) requires q - w >= 0, U > 0;
            assert(w < q ==> (q - w) * U >= U) by (nonlinear_arith) requires U > 0;
            assert(err2 >= rho);
            assert(err2 == rho ==> X2 == q * U);
        } else {
            assert(X2 - V == (w - q - 1) * U + (U - rho)) by (nonlinear_arith) requires V == q * U + rho, X2 == w * U;
            assert((w - q - 1) * U >= 0) by (nonlinear_arith) requires w - q - 1 >= 0, U > 0;
            assert(w > q + 1 ==> (w - q - 1) * U >= U) by (nonlinear_arith) requires U > 0;
            assert(err2 >= U - rho);
            assert(err2 == U - rho ==> X2 == (q + 1) * U);
        }
    } else {
        // a number of a lower binade lies strictly below q * U
        let j = (e0 - e2) as nat;
        lemma_pw2_add(k2, j);
        lemma_pw2_strict(0, j);
        lemma_pw2_values();
        assert(k0 == k2 + j);
        let U2 = den * pw2(k2);
        assert(U2 > 0) by (nonlinear_arith) requires U2 == den * pw2(k2), den > 0, pw2(k2) >= 1;
        assert(U == U2 * pw2(j)) by (nonlinear_arith) requires U == den * pw2(k0), pw2(k0) == pw2(k2) * pw2(j), U2 == den * pw2(k2);
        assert(X2 == m2 * U2) by (nonlinear_arith) requires X2 == m2 * pw2(k2) * den, U2 == den * pw2(k2);
        assert(X2 < 2 * P * U2) by (nonlinear_arith) requires X2 == m2 * U2, m2 < 2 * P, U2 > 0;
        assert(2 * P * U2 <= P * U) by (nonlinear_arith) requires U == U2 * pw2(j), pw2(j) >= 2, P >= 1, U2 > 0;
        assert(P * U <= q * U) by (nonlinear_arith) requires P <= q, U > 0;
        assert(err2 > rho);
    }
    // conclusions
    assert(err <= err2);
    if err == err2 && X2 != X {
        if 2 * rho == U {
            assert(2 * r == B);
            assert(m0 % 2 == 0);
            assert(m % 2 == 0);
        } else if 2 * rho < U {
            assert(m0 == q);
            assert(false);
        } else {
            assert(m0 == q + 1);
            assert(false);
        }
    }
}

/// C12 oracle validation: rne_sig_exp is a nearest normal number, ties to even
pub proof fn lemma_rne_is_nearest(num: int, den: int, F: nat, e0: int)
    requires num > 0, den > 0, F >= 1, in_binade(num, den, F, e0)
    ensures is_nearest_ties_even(num, den, F, rne_sig_exp(num, den, F).0, rne_sig_exp(num, den, F).1)
{
    let (m, e) = rne_sig_exp(num, den, F);
    lemma_pw2_pos(F);
    lemma_pw2_succ(F);
    lemma_rne_nearest_one(num, den, F, e0, pw2(F), e0, abs_int(e0) as nat);
    assert forall|m2: int, e2: int, K: nat| pw2(F) <= m2 < pw2(F + 1) && K + e >= 0 && K + e2 >= 0 implies {
            &&& #[trigger] flt_err(num, den, m, e, K) <= #[trigger] flt_err(num, den, m2, e2, K)
            &&& (flt_err(num, den, m, e, K) == flt_err(num, den, m2, e2, K)
                 && flt_scaled(den, m2, e2, K) != flt_scaled(den, m, e, K)) ==> m % 2 == 0
        } by {
        // K + e0 may be -1 when the result was carried into the next binade: compare at K + 1
        lemma_rne_nearest_one(num, den, F, e0, m2, e2, K + 1);
        lemma_flt_scale_step(num, den, m, e, K);
        lemma_flt_scale_step(num, den, m2, e2, K);
    }
}
