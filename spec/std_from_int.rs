
// R8 (continued): lossless conversions between primitive integers through `From` that vstd does not specify
// (vstd covers the same-signedness widenings): unsigned -> wider signed, u8 -> isize, bool -> integer.
// Each line is the documented semantics of the std impl (value preserved; true -> 1, false -> 0).
pub assume_specification [<i16 as From<u8>>::from](x: u8) -> (r: i16) ensures r == x;
pub assume_specification [<i32 as From<u8>>::from](x: u8) -> (r: i32) ensures r == x;
pub assume_specification [<i64 as From<u8>>::from](x: u8) -> (r: i64) ensures r == x;
pub assume_specification [<i128 as From<u8>>::from](x: u8) -> (r: i128) ensures r == x;
pub assume_specification [<i32 as From<u16>>::from](x: u16) -> (r: i32) ensures r == x;
pub assume_specification [<i64 as From<u16>>::from](x: u16) -> (r: i64) ensures r == x;
pub assume_specification [<i128 as From<u16>>::from](x: u16) -> (r: i128) ensures r == x;
pub assume_specification [<i64 as From<u32>>::from](x: u32) -> (r: i64) ensures r == x;
pub assume_specification [<i128 as From<u32>>::from](x: u32) -> (r: i128) ensures r == x;
pub assume_specification [<i128 as From<u64>>::from](x: u64) -> (r: i128) ensures r == x;
pub assume_specification [<isize as From<u8>>::from](x: u8) -> (r: isize) ensures r == x;
pub assume_specification [<u8 as From<bool>>::from](x: bool) -> (r: u8) ensures r == (if x { 1int } else { 0int });
pub assume_specification [<u16 as From<bool>>::from](x: bool) -> (r: u16) ensures r == (if x { 1int } else { 0int });
pub assume_specification [<u32 as From<bool>>::from](x: bool) -> (r: u32) ensures r == (if x { 1int } else { 0int });
pub assume_specification [<u64 as From<bool>>::from](x: bool) -> (r: u64) ensures r == (if x { 1int } else { 0int });
pub assume_specification [<u128 as From<bool>>::from](x: bool) -> (r: u128) ensures r == (if x { 1int } else { 0int });
pub assume_specification [<i8 as From<bool>>::from](x: bool) -> (r: i8) ensures r == (if x { 1int } else { 0int });
pub assume_specification [<i16 as From<bool>>::from](x: bool) -> (r: i16) ensures r == (if x { 1int } else { 0int });
pub assume_specification [<i32 as From<bool>>::from](x: bool) -> (r: i32) ensures r == (if x { 1int } else { 0int });
pub assume_specification [<i64 as From<bool>>::from](x: bool) -> (r: i64) ensures r == (if x { 1int } else { 0int });
pub assume_specification [<i128 as From<bool>>::from](x: bool) -> (r: i128) ensures r == (if x { 1int } else { 0int });
pub assume_specification [<usize as From<bool>>::from](x: bool) -> (r: usize) ensures r == (if x { 1int } else { 0int });
pub assume_specification [<isize as From<bool>>::from](x: bool) -> (r: isize) ensures r == (if x { 1int } else { 0int });
