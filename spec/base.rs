
// Mathematics only: nothing in this file is derived from /repo's code.
pub open spec fn pow10(n: nat) -> int
    decreases n
{
    if n == 0 { 1 } else { 10 * pow10((n - 1) as nat) }
}

pub open spec fn in_i128(v: int) -> bool { i128::MIN <= v <= i128::MAX }

/// coefficient range of a *valid* Decimal: Decimal::MIN ..= Decimal::MAX
pub open spec fn in_coeff(v: int) -> bool { -0x7fff_ffff_ffff_ffff_ffff_ffff_ffff_ffff <= v <= 0x7fff_ffff_ffff_ffff_ffff_ffff_ffff_ffff }

pub open spec fn abs_int(x: int) -> int { if x < 0 { -x } else { x } }

pub open spec fn sgn(x: int) -> int { if x < 0 { -1 } else if x == 0 { 0 } else { 1 } }

pub proof fn lemma_pow10_values()
    ensures
        pow10(0) == 1,
        pow10(1) == 10,
        pow10(2) == 100,
        pow10(3) == 1000,
        pow10(4) == 10000,
        pow10(5) == 100000,
        pow10(6) == 1000000,
        pow10(7) == 10000000,
        pow10(8) == 100000000,
        pow10(9) == 1000000000,
        pow10(10) == 10000000000,
        pow10(11) == 100000000000,
        pow10(12) == 1000000000000,
        pow10(13) == 10000000000000,
        pow10(14) == 100000000000000,
        pow10(15) == 1000000000000000,
        pow10(16) == 10000000000000000,
        pow10(17) == 100000000000000000,
        pow10(18) == 1000000000000000000,
        pow10(19) == 10000000000000000000,
        pow10(20) == 100000000000000000000,
        pow10(21) == 1000000000000000000000,
        pow10(22) == 10000000000000000000000,
        pow10(23) == 100000000000000000000000,
        pow10(24) == 1000000000000000000000000,
        pow10(25) == 10000000000000000000000000,
        pow10(26) == 100000000000000000000000000,
        pow10(27) == 1000000000000000000000000000,
        pow10(28) == 10000000000000000000000000000,
        pow10(29) == 100000000000000000000000000000,
        pow10(30) == 1000000000000000000000000000000,
        pow10(31) == 10000000000000000000000000000000,
        pow10(32) == 100000000000000000000000000000000,
        pow10(33) == 1000000000000000000000000000000000,
        pow10(34) == 10000000000000000000000000000000000,
        pow10(35) == 100000000000000000000000000000000000,
        pow10(36) == 1000000000000000000000000000000000000,
        pow10(37) == 10000000000000000000000000000000000000,
        pow10(38) == 100000000000000000000000000000000000000,
        pow10(39) == 1000000000000000000000000000000000000000,
{
    assert(pow10(0) == 1) by { reveal_with_fuel(pow10, 2); }
    assert(pow10(1) == 10) by { reveal_with_fuel(pow10, 2); }
    assert(pow10(2) == 100) by { reveal_with_fuel(pow10, 2); }
    assert(pow10(3) == 1000) by { reveal_with_fuel(pow10, 2); }
    assert(pow10(4) == 10000) by { reveal_with_fuel(pow10, 2); }
    assert(pow10(5) == 100000) by { reveal_with_fuel(pow10, 2); }
    assert(pow10(6) == 1000000) by { reveal_with_fuel(pow10, 2); }
    assert(pow10(7) == 10000000) by { reveal_with_fuel(pow10, 2); }
    assert(pow10(8) == 100000000) by { reveal_with_fuel(pow10, 2); }
    assert(pow10(9) == 1000000000) by { reveal_with_fuel(pow10, 2); }
    assert(pow10(10) == 10000000000) by { reveal_with_fuel(pow10, 2); }
    assert(pow10(11) == 100000000000) by { reveal_with_fuel(pow10, 2); }
    assert(pow10(12) == 1000000000000) by { reveal_with_fuel(pow10, 2); }
    assert(pow10(13) == 10000000000000) by { reveal_with_fuel(pow10, 2); }
    assert(pow10(14) == 100000000000000) by { reveal_with_fuel(pow10, 2); }
    assert(pow10(15) == 1000000000000000) by { reveal_with_fuel(pow10, 2); }
    assert(pow10(16) == 10000000000000000) by { reveal_with_fuel(pow10, 2); }
    assert(pow10(17) == 100000000000000000) by { reveal_with_fuel(pow10, 2); }
    assert(pow10(18) == 1000000000000000000) by { reveal_with_fuel(pow10, 2); }
    assert(pow10(19) == 10000000000000000000) by { reveal_with_fuel(pow10, 2); }
    assert(pow10(20) == 100000000000000000000) by { reveal_with_fuel(pow10, 2); }
    assert(pow10(21) == 1000000000000000000000) by { reveal_with_fuel(pow10, 2); }
    assert(pow10(22) == 10000000000000000000000) by { reveal_with_fuel(pow10, 2); }
    assert(pow10(23) == 100000000000000000000000) by { reveal_with_fuel(pow10, 2); }
    assert(pow10(24) == 1000000000000000000000000) by { reveal_with_fuel(pow10, 2); }
    assert(pow10(25) == 10000000000000000000000000) by { reveal_with_fuel(pow10, 2); }
    assert(pow10(26) == 100000000000000000000000000) by { reveal_with_fuel(pow10, 2); }
    assert(pow10(27) == 1000000000000000000000000000) by { reveal_with_fuel(pow10, 2); }
    assert(pow10(28) == 10000000000000000000000000000) by { reveal_with_fuel(pow10, 2); }
    assert(pow10(29) == 100000000000000000000000000000) by { reveal_with_fuel(pow10, 2); }
    assert(pow10(30) == 1000000000000000000000000000000) by { reveal_with_fuel(pow10, 2); }
    assert(pow10(31) == 10000000000000000000000000000000) by { reveal_with_fuel(pow10, 2); }
    assert(pow10(32) == 100000000000000000000000000000000) by { reveal_with_fuel(pow10, 2); }
    assert(pow10(33) == 1000000000000000000000000000000000) by { reveal_with_fuel(pow10, 2); }
    assert(pow10(34) == 10000000000000000000000000000000000) by { reveal_with_fuel(pow10, 2); }
    assert(pow10(35) == 100000000000000000000000000000000000) by { reveal_with_fuel(pow10, 2); }
    assert(pow10(36) == 1000000000000000000000000000000000000) by { reveal_with_fuel(pow10, 2); }
    assert(pow10(37) == 10000000000000000000000000000000000000) by { reveal_with_fuel(pow10, 2); }
    assert(pow10(38) == 100000000000000000000000000000000000000) by { reveal_with_fuel(pow10, 2); }
    assert(pow10(39) == 1000000000000000000000000000000000000000) by { reveal_with_fuel(pow10, 2); }
}

pub proof fn lemma_pow10_pos(n: nat)
    ensures pow10(n) >= 1
    decreases n
{
    if n > 0 { lemma_pow10_pos((n - 1) as nat); }
}

pub proof fn lemma_pow10_add(a: nat, b: nat)
    ensures pow10(a + b) == pow10(a) * pow10(b)
    decreases a
{
    if a == 0 {
        assert(pow10(0) == 1);
        assert(1 * pow10(b) == pow10(b));
    } else {
        lemma_pow10_add((a - 1) as nat, b);
        assert(pow10(a + b) == 10 * pow10((a + b - 1) as nat));
        assert(((a - 1) as nat) + b == (a + b - 1) as nat);
        assert(10 * (pow10((a - 1) as nat) * pow10(b)) == (10 * pow10((a - 1) as nat)) * pow10(b)) by (nonlinear_arith);
    }
}

pub proof fn lemma_pow10_mono(a: nat, b: nat)
    requires a <= b
    ensures pow10(a) <= pow10(b)
    decreases b
{
    if a < b {
        lemma_pow10_mono(a, (b - 1) as nat);
        lemma_pow10_pos((b - 1) as nat);
    }
}

// ---- truncating (Rust) division on i128 in terms of mathematics
pub open spec fn trunc_div(x: int, y: int) -> int
    recommends y != 0
{
    if x >= 0 { if y > 0 { x / y } else { -(x / (-y)) } } else { if y > 0 { -((-x) / y) } else { (-x) / (-y) } }
}

pub open spec fn trunc_rem(x: int, y: int) -> int
    recommends y != 0
{
    x - y * trunc_div(x, y)
}

pub proof fn lemma_trunc_div_rem(x: int, y: int)
    requires y != 0
    ensures
        x == y * trunc_div(x, y) + trunc_rem(x, y),
        abs_int(trunc_rem(x, y)) < abs_int(y),
        x >= 0 ==> trunc_rem(x, y) >= 0,
        x <= 0 ==> trunc_rem(x, y) <= 0,
        abs_int(trunc_div(x, y)) <= abs_int(x),
        abs_int(trunc_div(x, y)) == abs_int(x) / abs_int(y),
        abs_int(trunc_rem(x, y)) == abs_int(x) % abs_int(y),
        x == trunc_div(x, y) * y + trunc_rem(x, y),
        trunc_rem(x, y) != 0 ==> 2 * abs_int(trunc_div(x, y)) <= abs_int(x),
        (trunc_div(x, y) - 1) * y == trunc_div(x, y) * y - y,
{
    let ax = abs_int(x);
    let ay = abs_int(y);
    vstd::arithmetic::div_mod::lemma_fundamental_div_mod(ax, ay);
    vstd::arithmetic::div_mod::lemma_mod_bound(ax, ay);
    vstd::arithmetic::div_mod::lemma_div_pos_is_pos(ax, ay);
    vstd::arithmetic::div_mod::lemma_div_is_ordered_by_denominator(ax, 1, ay);
    vstd::arithmetic::div_mod::lemma_div_basics_3(ax);
    let q = ax / ay;
    assert(ax == ay * q + ax % ay);
    assert(y * (-q) == -(y * q)) by (nonlinear_arith);
    assert((-y) * q == -(y * q)) by (nonlinear_arith);
    assert((-y) * (-q) == y * q) by (nonlinear_arith);
    assert(trunc_div(x, y) * y == y * trunc_div(x, y)) by (nonlinear_arith);
    assert((trunc_div(x, y) - 1) * y == trunc_div(x, y) * y - y) by (nonlinear_arith);
    if ax % ay != 0 {
        assert(ay >= 2) by { if ay == 1 { vstd::arithmetic::div_mod::lemma_mod_bound(ax, ay); } }
        assert(ay * q >= 2 * q) by (nonlinear_arith) requires ay >= 2, q >= 0;
    }
}

pub proof fn lemma_euclid_neg_divisor(a: int, b: int)
    requires a >= 0, b < 0
    ensures a / b == -(a / (-b)), a % b == a % (-b)
{
    let q = a / (-b);
    let r = a % (-b);
    vstd::arithmetic::div_mod::lemma_fundamental_div_mod(a, -b);
    vstd::arithmetic::div_mod::lemma_mod_bound(a, -b);
    assert(a == b * (-q) + r) by (nonlinear_arith) requires a == (-b) * q + r;
    assert(a / b == -q && a % b == r) by (nonlinear_arith) requires a == b * (-q) + r, 0 <= r < -b, b < 0;
}

/// Verus gives exec `/` and `%` on signed machine integers the meaning
/// rust_div / rust_rem; this lemma ties them to the mathematical definition above.
pub proof fn lemma_rust_div(x: int, y: int)
    requires y != 0
    ensures
        vstd::arithmetic::div_mod::rust_div(x, y) == trunc_div(x, y),
        vstd::arithmetic::div_mod::rust_rem(x, y) == trunc_rem(x, y),
{
    lemma_trunc_div_rem(x, y);
    let ax = abs_int(x);
    if y < 0 { lemma_euclid_neg_divisor(ax, y); }
    vstd::arithmetic::div_mod::lemma_fundamental_div_mod(ax, abs_int(y));
    if x == 0 {
        assert(0int / abs_int(y) == 0) by { vstd::arithmetic::div_mod::lemma_div_basics_1(abs_int(y)); }
    }
    let q = ax / abs_int(y);
    assert(y * (-q) == -(y * q)) by (nonlinear_arith);
    assert((-y) * q == -(y * q)) by (nonlinear_arith);
    assert((-y) * (-q) == y * q) by (nonlinear_arith);
}

/// floor division (mathematical), for a positive divisor this is Verus' Euclidean `/`
pub open spec fn floor_div(x: int, y: int) -> int
    recommends y > 0
{
    x / y
}

pub proof fn lemma_div_mod_unique(x: int, d: int, q: int, r: int)
    requires d > 0, 0 <= r < d, x == q * d + r
    ensures x / d == q, x % d == r
{
    vstd::arithmetic::div_mod::lemma_fundamental_div_mod_converse(x, d, q, r);
}

// ---- floor division (mathematical): the unique q, r with x == q*y + r, r between 0 and y (0 <= |r| < |y|, sign of y)
pub open spec fn floor_quot(x: int, y: int) -> int
    recommends y != 0
{
    if y > 0 { x / y } else { (-x) / (-y) }
}

pub open spec fn floor_rem(x: int, y: int) -> int
    recommends y != 0
{
    if y > 0 { x % y } else { -((-x) % (-y)) }
}

pub proof fn lemma_floor_div_props(x: int, y: int)
    requires y != 0
    ensures
        floor_quot(x, y) * y + floor_rem(x, y) == x,
        y > 0 ==> 0 <= floor_rem(x, y) < y,
        y < 0 ==> y < floor_rem(x, y) <= 0,
        y > 0 && x >= 0 ==> 0 <= floor_quot(x, y) <= x,
        y > 0 && x < 0 ==> x <= floor_quot(x, y) < 0,
        y > 0 && x >= 0 && floor_rem(x, y) != 0 ==> 2 * floor_quot(x, y) <= x,
{
    if y > 0 {
        let q = x / y;
        let r = x % y;
        vstd::arithmetic::div_mod::lemma_fundamental_div_mod(x, y);
        vstd::arithmetic::div_mod::lemma_mod_bound(x, y);
        assert(q * y == y * q) by (nonlinear_arith);
        if x >= 0 {
            assert(q >= 0) by (nonlinear_arith) requires x == y * q + r, 0 <= r < y, x >= 0, y > 0;
            assert(q <= x) by (nonlinear_arith) requires x == y * q + r, 0 <= r, q >= 0, y >= 1;
            if r != 0 {
                assert(y >= 2);
                assert(2 * q <= x) by (nonlinear_arith) requires x == y * q + r, 0 <= r, q >= 0, y >= 2;
            }
        } else {
            assert(q < 0) by (nonlinear_arith) requires x == y * q + r, 0 <= r < y, x < 0, y > 0;
            assert(x <= q) by (nonlinear_arith) requires x == y * q + r, 0 <= r < y, x < 0, y >= 1, q < 0;
        }
    } else {
        let q = (-x) / (-y);
        let r = (-x) % (-y);
        vstd::arithmetic::div_mod::lemma_fundamental_div_mod(-x, -y);
        vstd::arithmetic::div_mod::lemma_mod_bound(-x, -y);
        assert(q * y == -((-y) * q)) by (nonlinear_arith);
    }
}

/// what Rust's truncating `/`, `%` plus the usual fix-up step compute
pub proof fn lemma_trunc_to_floor(x: int, y: int)
    requires y != 0
    ensures
        ({
            let q = trunc_div(x, y);
            let r = trunc_rem(x, y);
            let adjust = (r > 0 && y < 0) || (r < 0 && y > 0);
            floor_quot(x, y) == (if adjust { q - 1 } else { q }) && floor_rem(x, y) == (if adjust { r + y } else { r })
        }),
{
    lemma_trunc_div_rem(x, y);
    let q = trunc_div(x, y);
    let r = trunc_rem(x, y);
    let adjust = (r > 0 && y < 0) || (r < 0 && y > 0);
    let fq = if adjust { q - 1 } else { q };
    let fr = if adjust { r + y } else { r };
    assert(fq * y + fr == x) by (nonlinear_arith) requires x == q * y + r, fq == (if adjust { q - 1 } else { q }), fr == (if adjust { r + y } else { r });
    if y > 0 {
        assert(0 <= fr < y);
        lemma_div_mod_unique(x, y, fq, fr);
    } else {
        assert(y < fr <= 0);
        assert(-x == fq * (-y) + (-fr)) by (nonlinear_arith) requires fq * y + fr == x;
        lemma_div_mod_unique(-x, -y, fq, -fr);
    }
}

/// the same fact stated directly over Verus' meaning of exec `/` and `%` on signed machine integers
pub proof fn lemma_rust_floor(x: int, y: int)
    requires y != 0
    ensures
        ({
            let q = vstd::arithmetic::div_mod::rust_div(x, y);
            let r = vstd::arithmetic::div_mod::rust_rem(x, y);
            &&& ((r > 0 && y < 0) || (r < 0 && y > 0)) ==> (floor_quot(x, y) == q - 1 && floor_rem(x, y) == r + y)
            &&& !((r > 0 && y < 0) || (r < 0 && y > 0)) ==> (floor_quot(x, y) == q && floor_rem(x, y) == r)
            // range facts (needed to see that the machine-integer results are not clipped)
            &&& abs_int(q) <= abs_int(x)
            &&& abs_int(r) < abs_int(y)
            &&& (r != 0 ==> 2 * abs_int(q) <= abs_int(x))
            &&& (in_i128(x) && !(x == i128::MIN && y == -1) ==> in_i128(q))
            &&& (in_i128(y) ==> in_i128(r))
        }),
{
    lemma_rust_div(x, y);
    lemma_trunc_div_rem(x, y);
    lemma_trunc_to_floor(x, y);
    let q = trunc_div(x, y);
    if in_i128(x) && !(x == i128::MIN && y == -1) && x == i128::MIN {
        let ax = abs_int(x);
        let ay = abs_int(y);
        if ay == 1 {
            assert(y == 1);
            vstd::arithmetic::div_mod::lemma_div_basics_3(ax);
            assert(q == x);
        } else {
            vstd::arithmetic::div_mod::lemma_div_is_ordered_by_denominator(ax, 2, ay);
            assert(ax / 2 < ax);
        }
    }
}
