
// ---- the rounding oracle (from the property statements / Python's decimal constants)
pub uninterp spec fn thread_default_mode() -> RoundingMode;

pub open spec fn eff_mode(mode: Option<RoundingMode>) -> RoundingMode {
    match mode { None => thread_default_mode(), Some(m) => m }
}

/// num/den (den > 0) rounded to an integer under `mode`.
/// f = floor, r = distance from the floor (in units of 1/den).
pub open spec fn round_div(num: int, den: int, mode: RoundingMode) -> int
    recommends den > 0
{
    let f = num / den;
    let r = num % den;
    if r == 0 { f } else {
        let toward_zero = if num > 0 { f } else { f + 1 };
        let away = if num > 0 { f + 1 } else { f };
        match mode {
            RoundingMode::RoundCeiling => f + 1,
            RoundingMode::RoundFloor => f,
            RoundingMode::RoundDown => toward_zero,
            RoundingMode::RoundUp => away,
            RoundingMode::RoundHalfUp => if 2 * r < den { f } else if 2 * r > den { f + 1 } else { away },
            RoundingMode::RoundHalfDown => if 2 * r < den { f } else if 2 * r > den { f + 1 } else { toward_zero },
            RoundingMode::RoundHalfEven => if 2 * r < den { f } else if 2 * r > den { f + 1 } else if f % 2 == 0 { f } else { f + 1 },
            RoundingMode::Round05Up => if toward_zero % 5 == 0 { away } else { toward_zero },
        }
    }
}

pub broadcast proof fn lemma_shl1(x: u128)
    requires x < 0x8000_0000_0000_0000_0000_0000_0000_0000u128
    ensures #[trigger] (x << 1) == 2 * x
{
    assert(x < 0x8000_0000_0000_0000_0000_0000_0000_0000u128 ==> (x << 1) == mul(2, x)) by (bit_vector);
}

/// the value q*d + r with 0 <= r < d has floor q, remainder r, and is positive iff q >= 0 (for r > 0)
pub proof fn lemma_floor_form(q: int, r: int, d: int)
    requires d > 0, 0 <= r < d
    ensures
        (q * d + r) / d == q,
        (q * d + r) % d == r,
        r > 0 ==> ((q * d + r > 0) <==> q >= 0),
        r > 0 ==> q * d + r != 0,
{
    lemma_div_mod_unique(q * d + r, d, q, r);
    if q >= 0 {
        assert(q * d >= 0) by (nonlinear_arith) requires q >= 0, d > 0;
    } else {
        assert(q * d <= -d) by (nonlinear_arith) requires q <= -1, d > 0;
    }
}
