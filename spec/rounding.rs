
// ---- the rounding oracle (from the property statements / Python's decimal constants)
pub uninterp spec fn thread_default_mode() -> RoundingMode;

pub open spec fn eff_mode(mode: Option<RoundingMode>) -> RoundingMode {
    match mode { None => thread_default_mode(), Some(m) => m }
}

/// num/den (den > 0) rounded to an integer under `mode`.
/// f = floor, r = distance from the floor (in units of 1/den).
pub open spec fn round_div(num: int, den: int, mode: RoundingMode) -> int
    recommends den > 0
{
    let f = num / den;
    let r = num % den;
    if r == 0 { f } else {
        let toward_zero = if num > 0 { f } else { f + 1 };
        let away = if num > 0 { f + 1 } else { f };
        match mode {
            RoundingMode::RoundCeiling => f + 1,
            RoundingMode::RoundFloor => f,
            RoundingMode::RoundDown => toward_zero,
            RoundingMode::RoundUp => away,
            RoundingMode::RoundHalfUp => if 2 * r < den { f } else if 2 * r > den { f + 1 } else { away },
            RoundingMode::RoundHalfDown => if 2 * r < den { f } else if 2 * r > den { f + 1 } else { toward_zero },
            RoundingMode::RoundHalfEven => if 2 * r < den { f } else if 2 * r > den { f + 1 } else if f % 2 == 0 { f } else { f + 1 },
            RoundingMode::Round05Up => if toward_zero % 5 == 0 { away } else { toward_zero },
        }
    }
}

pub broadcast proof fn lemma_shl1(x: u128)
    requires x < 0x8000_0000_0000_0000_0000_0000_0000_0000u128
    ensures #[trigger] (x << 1) == 2 * x
{
    assert(x < 0x8000_0000_0000_0000_0000_0000_0000_0000u128 ==> (x << 1) == vstd::prelude::mul(2, x)) by (bit_vector);
}

/// the VALUE of the parity bit of a signed integer (two's complement): `x & 1` is 0 for even x and 1 for odd x
/// of either sign, so every spelling of a parity test (`x % 2 != 0`, `x & 1 == 1`, `x & 1 != 0`) means the same
pub broadcast proof fn lemma_i128_parity_bit(x: i128)
    ensures #[trigger] (x & 1) == (if (x as int) % 2 == 0 { 0i128 } else { 1i128 })
{
    assert(x & 1 == 0i128 || x & 1 == 1i128) by (bit_vector);
    assert((x & 1 == 0i128) <==> (x % 2i128 == 0i128)) by (bit_vector);
}

/// the value q*d + r with 0 <= r < d has floor q, remainder r, and is positive iff q >= 0 (for r > 0)
pub proof fn lemma_floor_form(q: int, r: int, d: int)
    requires d > 0, 0 <= r < d
    ensures
        (q * d + r) / d == q,
        (q * d + r) % d == r,
        r > 0 ==> ((q * d + r > 0) <==> q >= 0),
        r > 0 ==> q * d + r != 0,
{
    lemma_div_mod_unique(q * d + r, d, q, r);
    if q >= 0 {
        assert(q * d >= 0) by (nonlinear_arith) requires q >= 0, d > 0;
    } else {
        assert(q * d <= -d) by (nonlinear_arith) requires q <= -1, d > 0;
    }
}

/// floor and remainder of (a*k)/(b*k)
pub proof fn lemma_div_cancel(a: int, b: int, k: int)
    requires b > 0, k > 0
    ensures
        b * k > 0,
        (a * k) / (b * k) == a / b,
        (a * k) % (b * k) == (a % b) * k,
{
    assert(b * k > 0) by (nonlinear_arith) requires b > 0, k > 0;
    let q = a / b;
    let r = a % b;
    vstd::arithmetic::div_mod::lemma_fundamental_div_mod(a, b);
    vstd::arithmetic::div_mod::lemma_mod_bound(a, b);
    assert(a * k == q * (b * k) + r * k) by (nonlinear_arith) requires a == b * q + r;
    assert(0 <= r * k < b * k) by (nonlinear_arith) requires 0 <= r < b, k > 0;
    lemma_div_mod_unique(a * k, b * k, q, r * k);
}

/// L1: a common positive factor of numerator and denominator does not change the rounded quotient
pub proof fn lemma_round_div_cancel(a: int, b: int, k: int, m: RoundingMode)
    requires b > 0, k > 0
    ensures round_div(a * k, b * k, m) == round_div(a, b, m)
{
    lemma_div_cancel(a, b, k);
    let r = a % b;
    vstd::arithmetic::div_mod::lemma_mod_bound(a, b);
    assert((r == 0) <==> (r * k == 0)) by (nonlinear_arith) requires k > 0;
    assert((a > 0) <==> (a * k > 0)) by (nonlinear_arith) requires k > 0;
    assert(2 * (r * k) == (2 * r) * k) by (nonlinear_arith);
    assert((2 * r < b) <==> ((2 * r) * k < b * k)) by (nonlinear_arith) requires k > 0;
    assert((2 * r > b) <==> ((2 * r) * k > b * k)) by (nonlinear_arith) requires k > 0;
}

/// floor(floor(n/m)/d) == floor(n/(m*d)) and the remainder decomposition
pub proof fn lemma_div_div(n: int, m: int, d: int)
    requires m > 0, d > 0
    ensures
        m * d > 0,
        (n / m) / d == n / (m * d),
        n % (m * d) == m * ((n / m) % d) + n % m,
{
    assert(m * d > 0) by (nonlinear_arith) requires m > 0, d > 0;
    let q = n / m;
    let r = n % m;
    let f = q / d;
    let t = q % d;
    vstd::arithmetic::div_mod::lemma_fundamental_div_mod(n, m);
    vstd::arithmetic::div_mod::lemma_mod_bound(n, m);
    vstd::arithmetic::div_mod::lemma_fundamental_div_mod(q, d);
    vstd::arithmetic::div_mod::lemma_mod_bound(q, d);
    assert(n == f * (m * d) + (m * t + r)) by (nonlinear_arith) requires n == m * q + r, q == d * f + t;
    assert(0 <= m * t + r < m * d) by (nonlinear_arith) requires 0 <= r < m, 0 <= t < d, t <= d - 1;
    lemma_div_mod_unique(n, m * d, f, m * t + r);
}

/// L2: rounding n/(m*d) equals rounding floor(n/m)/d when m | n, and rounding (2*floor(n/m)+1)/(2d)
/// otherwise, provided d is even (the half-way point d/2 is integral)
pub proof fn lemma_round_div_sticky(n: int, m: int, d: int, mode: RoundingMode)
    requires m > 0, d >= 2, d % 2 == 0
    ensures
        m * d > 0,
        n % m == 0 ==> round_div(n, m * d, mode) == round_div(n / m, d, mode),
        n % m != 0 ==> round_div(n, m * d, mode) == round_div(2 * (n / m) + 1, 2 * d, mode),
{
    lemma_div_div(n, m, d);
    let q = n / m;
    let r = n % m;
    let f = q / d;
    let t = q % d;
    let h = d / 2;
    assert(d == 2 * h);
    vstd::arithmetic::div_mod::lemma_fundamental_div_mod(n, m);
    vstd::arithmetic::div_mod::lemma_mod_bound(n, m);
    vstd::arithmetic::div_mod::lemma_fundamental_div_mod(q, d);
    vstd::arithmetic::div_mod::lemma_mod_bound(q, d);
    let big = m * d;
    let rem = n % big;
    assert(rem == m * t + r);
    // sign of n vs sign of q
    if q >= 0 { assert(m * q >= 0) by (nonlinear_arith) requires m > 0, q >= 0; }
    else { assert(m * q <= -m) by (nonlinear_arith) requires m > 0, q <= -1; }
    if r == 0 {
        // exact first division: n = m*q, compare remainders scaled by m
        assert(rem == m * t);
        assert((rem == 0) <==> (t == 0)) by (nonlinear_arith) requires rem == m * t, m > 0;
        assert((n > 0) <==> (q > 0)) by (nonlinear_arith) requires n == m * q, m > 0;
        assert(2 * rem == m * (2 * t)) by (nonlinear_arith) requires rem == m * t;
        assert(big == m * d);
        assert((2 * rem < big) <==> (2 * t < d)) by (nonlinear_arith) requires 2 * rem == m * (2 * t), big == m * d, m > 0;
        assert((2 * rem > big) <==> (2 * t > d)) by (nonlinear_arith) requires 2 * rem == m * (2 * t), big == m * d, m > 0;
    } else {
        // 2q+1 over 2d: floor f, remainder 2t+1 (odd, never 0, never d)
        assert(2 * q + 1 == f * (2 * d) + (2 * t + 1)) by (nonlinear_arith) requires q == d * f + t;
        lemma_div_mod_unique(2 * q + 1, 2 * d, f, 2 * t + 1);
        assert(rem > 0);
        assert((n > 0) <==> (2 * q + 1 > 0));
        // rem vs half of big
        if t + 1 <= h {
            assert(2 * rem < big) by (nonlinear_arith) requires rem == m * t + r, 0 < r < m, t + 1 <= h, big == m * d, d == 2 * h;
            assert(2 * (2 * t + 1) < 2 * d);
        } else {
            assert(2 * rem > big) by (nonlinear_arith) requires rem == m * t + r, 0 < r < m, t >= h, big == m * d, d == 2 * h;
            assert(2 * (2 * t + 1) > 2 * d);
        }
    }
}
