
// ---- R7 / R8: trusted model of `core::fmt` / `alloc::fmt::format` (C07, C11).
// Everything in this file is an unchecked assumption about the Rust standard library (documented
// behaviour of integer `Display`, of the `0` flag with a `width$` argument, of `ToString`, of
// `Formatter::{precision, pad_integral, write_fmt}`) or a stand-in declaration needed to state it.
// Needs base.rs and strings.rs (digits, left_pad).

// -- R8: std functions without a vstd specification

pub assume_specification<T: Ord> [core::cmp::min](a: T, b: T) -> (r: T)
    ensures <T as vstd::std_specs::cmp::OrdSpec>::obeys_cmp_spec() ==>
        r == (if vstd::std_specs::cmp::OrdSpec::cmp_spec(&a, &b) == core::cmp::Ordering::Greater { b } else { a });

// -- what `{}` prints for an integer: optional '-' and the decimal digits without leading zeros
pub open spec fn r7_display_int(v: int) -> Seq<char> {
    if v < 0 { seq!['-'] + digits((-v) as nat) } else { digits(v as nat) }
}

/// `{:0w$}` on an integer: sign-aware zero padding to at least w characters
pub open spec fn r7_zero_pad_int(v: int, w: nat) -> Seq<char> {
    if v < 0 { seq!['-'] + left_pad(digits((-v) as nat), if w >= 1 { (w - 1) as nat } else { 0 }, '0') }
    else { left_pad(digits(v as nat), w, '0') }
}

/// `{:w$}` on an integer: right aligned, padded with blanks
pub open spec fn r7_space_pad_int(v: int, w: nat) -> Seq<char> {
    left_pad(r7_display_int(v), w, ' ')
}

/// argument of a `{N}` piece (types that occur: integers and &str)
pub trait R7Arg {
    spec fn r7_display(&self) -> Seq<char>;
}

/// argument of a `{N:0M$}` / `{N:M$}` piece (integers only)
pub trait R7IntArg: R7Arg {
    spec fn r7_int(&self) -> int;
}

impl R7Arg for i128 { open spec fn r7_display(&self) -> Seq<char> { r7_display_int(*self as int) } }
impl R7IntArg for i128 { open spec fn r7_int(&self) -> int { *self as int } }
impl R7Arg for i32 { open spec fn r7_display(&self) -> Seq<char> { r7_display_int(*self as int) } }
impl R7IntArg for i32 { open spec fn r7_int(&self) -> int { *self as int } }
impl<'a> R7Arg for &'a str { open spec fn r7_display(&self) -> Seq<char> { (*self)@ } }

/// stand-in for `alloc::string::ToString::to_string` (rule R7 rewrites `.to_string()` to `.r7_to_string()`)
pub trait R7ToString: R7Arg {
    fn r7_to_string(&self) -> (s: String)
        ensures s@ == self.r7_display();
}

impl R7ToString for i128 {
    #[verifier::external_body]
    fn r7_to_string(&self) -> (s: String) { unimplemented!() }
}

// -- stand-in for `core::fmt::Formatter<'_>`: what was requested (precision) and a ghost log of what was emitted
pub enum R7Event {
    /// `Formatter::pad_integral(is_nonnegative, prefix, buf)`
    PadIntegral(bool, Seq<char>, Seq<char>),
    /// `Formatter::write_fmt(args)`: the formatted text, written without padding
    Write(Seq<char>),
}

#[verifier::external_body]
pub struct R7Formatter { _p: core::marker::PhantomData<()> }

impl R7Formatter {
    pub uninterp spec fn precision_spec(&self) -> Option<usize>;
    pub uninterp spec fn log(&self) -> Seq<R7Event>;

    #[verifier::external_body]
    pub fn precision(&self) -> (r: Option<usize>)
        ensures r == self.precision_spec()
    { unimplemented!() }

    #[verifier::external_body]
    pub fn pad_integral(&mut self, is_nonnegative: bool, prefix: &str, buf: &str) -> (r: core::fmt::Result)
        ensures
            final(self).log() == old(self).log().push(R7Event::PadIntegral(is_nonnegative, prefix@, buf@)),
            final(self).precision_spec() == old(self).precision_spec(),
    { unimplemented!() }
}

/// what `pad_integral(is_nonnegative, prefix, buf)` writes when the format spec has no width and no flags
/// (`{}` / `to_string()`): the sign, then buf (documented behaviour of core; `prefix` only with `#`)
pub open spec fn r7_pad_integral_plain(is_nonnegative: bool, buf: Seq<char>) -> Seq<char> {
    (if is_nonnegative { Seq::<char>::empty() } else { seq!['-'] }) + buf
}

// -- stand-ins for the traits `core::fmt::Debug`, `core::fmt::Display` and `From<Decimal> for String`:
// same method signatures.  Verus allows neither a `requires` on the implementation of an external trait
// nor (when two traits with a method of the same name are implemented for one type, as Debug/Display
// are) an `ensures` on the implementing method, so the contract enters through ghost members: r7_pre is
// the quantifier domain of the property (`valid(d)`), r7_post<i> are its named clauses (filled in from the
// contract by units/format.py; `before`/`after` are the formatter at entry/exit).
pub trait R7Debug {
    spec fn r7_pre(&self) -> bool;
    spec fn r7_post0(&self, before: R7Formatter, after: R7Formatter, r: core::fmt::Result) -> bool;
    spec fn r7_post1(&self, before: R7Formatter, after: R7Formatter, r: core::fmt::Result) -> bool;
    fn fmt(&self, form: &mut R7Formatter) -> (r: core::fmt::Result)
        requires self.r7_pre(),
        ensures
            self.r7_post0(*old(form), *final(form), r), // @post0 R7Debug
            self.r7_post1(*old(form), *final(form), r), // @post1 R7Debug
    ;
}

pub trait R7Display {
    spec fn r7_pre(&self) -> bool;
    spec fn r7_post0(&self, before: R7Formatter, after: R7Formatter, r: core::fmt::Result) -> bool;
    spec fn r7_post1(&self, before: R7Formatter, after: R7Formatter, r: core::fmt::Result) -> bool;
    fn fmt(&self, form: &mut R7Formatter) -> (r: core::fmt::Result)
        requires self.r7_pre(),
        ensures
            self.r7_post0(*old(form), *final(form), r), // @post0 R7Display
            self.r7_post1(*old(form), *final(form), r), // @post1 R7Display
    ;
}

pub trait R7From<T>: Sized {
    spec fn r7_pre(v: T) -> bool;
    spec fn r7_post0(v: T, r: Self) -> bool;
    spec fn r7_post1(v: T, r: Self) -> bool;
    fn from(v: T) -> (r: Self)
        requires Self::r7_pre(v),
        ensures
            Self::r7_post0(v, r), // @post0 R7From
            Self::r7_post1(v, r), // @post1 R7From
    ;
}
