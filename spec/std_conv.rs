
// R8 (C14/C15): std methods without a vstd specification. Each line is an unchecked assumption
// about the Rust standard library (documented semantics of the method).
// (the nine narrowing conversions {u8..u64,i8..i64,u128}::try_from(i128) ARE specified by vstd -- probed)

pub assume_specification [<i128 as TryFrom<u128>>::try_from](x: u128) -> (r: Result<i128, <i128 as TryFrom<u128>>::Error>)
    ensures r.is_ok() <==> x <= i128::MAX, r.is_ok() ==> r.unwrap() == x;
