
// R8 (continued): sign-related std methods of the signed primitive integers that vstd does not specify. Each line is
// the documented semantics of the method; `abs` overflows for MIN (panic in debug builds, MIN in release builds), which
// is stated as its precondition - a call site that cannot exclude MIN is an implicit overflow site.

pub assume_specification [i8::abs](x: i8) -> (r: i8) requires x > i8::MIN ensures r as int == (if x < 0 { -(x as int) } else { x as int });
pub assume_specification [i8::is_negative](x: i8) -> (r: bool) ensures r == (x < 0);
pub assume_specification [i8::is_positive](x: i8) -> (r: bool) ensures r == (x > 0);
pub assume_specification [i8::signum](x: i8) -> (r: i8) ensures r as int == (if x < 0 { -1int } else if x > 0 { 1int } else { 0int });
pub assume_specification [i8::unsigned_abs](x: i8) -> (r: u8) ensures r as int == (if x < 0 { -(x as int) } else { x as int });
pub assume_specification [i16::abs](x: i16) -> (r: i16) requires x > i16::MIN ensures r as int == (if x < 0 { -(x as int) } else { x as int });
pub assume_specification [i16::is_negative](x: i16) -> (r: bool) ensures r == (x < 0);
pub assume_specification [i16::is_positive](x: i16) -> (r: bool) ensures r == (x > 0);
pub assume_specification [i16::signum](x: i16) -> (r: i16) ensures r as int == (if x < 0 { -1int } else if x > 0 { 1int } else { 0int });
pub assume_specification [i16::unsigned_abs](x: i16) -> (r: u16) ensures r as int == (if x < 0 { -(x as int) } else { x as int });
pub assume_specification [i32::abs](x: i32) -> (r: i32) requires x > i32::MIN ensures r as int == (if x < 0 { -(x as int) } else { x as int });
pub assume_specification [i32::is_negative](x: i32) -> (r: bool) ensures r == (x < 0);
pub assume_specification [i32::is_positive](x: i32) -> (r: bool) ensures r == (x > 0);
pub assume_specification [i32::signum](x: i32) -> (r: i32) ensures r as int == (if x < 0 { -1int } else if x > 0 { 1int } else { 0int });
pub assume_specification [i32::unsigned_abs](x: i32) -> (r: u32) ensures r as int == (if x < 0 { -(x as int) } else { x as int });
pub assume_specification [i64::abs](x: i64) -> (r: i64) requires x > i64::MIN ensures r as int == (if x < 0 { -(x as int) } else { x as int });
pub assume_specification [i64::is_negative](x: i64) -> (r: bool) ensures r == (x < 0);
pub assume_specification [i64::is_positive](x: i64) -> (r: bool) ensures r == (x > 0);
pub assume_specification [i64::signum](x: i64) -> (r: i64) ensures r as int == (if x < 0 { -1int } else if x > 0 { 1int } else { 0int });
pub assume_specification [i64::unsigned_abs](x: i64) -> (r: u64) ensures r as int == (if x < 0 { -(x as int) } else { x as int });
pub assume_specification [i128::abs](x: i128) -> (r: i128) requires x > i128::MIN ensures r as int == (if x < 0 { -(x as int) } else { x as int });
pub assume_specification [i128::is_negative](x: i128) -> (r: bool) ensures r == (x < 0);
pub assume_specification [i128::is_positive](x: i128) -> (r: bool) ensures r == (x > 0);
pub assume_specification [i128::signum](x: i128) -> (r: i128) ensures r as int == (if x < 0 { -1int } else if x > 0 { 1int } else { 0int });
pub assume_specification [i128::unsigned_abs](x: i128) -> (r: u128) ensures r as int == (if x < 0 { -(x as int) } else { x as int });
