
// R8: std methods without a vstd specification. Each line is an unchecked assumption
// about the Rust standard library (documented semantics of the method).
pub assume_specification [i128::signum](x: i128) -> (r: i128)
    ensures r == sgn(x as int);

pub assume_specification [i8::unsigned_abs](x: i8) -> (r: u8)
    ensures r as int == abs_int(x as int);

pub assume_specification [i128::unsigned_abs](x: i128) -> (r: u128)
    ensures r as int == abs_int(x as int);

pub assume_specification [i128::is_negative](x: i128) -> (r: bool)
    ensures r == (x < 0);

// lossless widening conversions (vstd specifies only the signed sources)
pub assume_specification [<i128 as From<u8>>::from](x: u8) -> (r: i128) ensures r == x;
pub assume_specification [<i128 as From<u16>>::from](x: u16) -> (r: i128) ensures r == x;
pub assume_specification [<i128 as From<u32>>::from](x: u32) -> (r: i128) ensures r == x;
pub assume_specification [<i128 as From<u64>>::from](x: u64) -> (r: i128) ensures r == x;
pub assume_specification<T> [<T as From<T>>::from](x: T) -> (r: T) ensures r == x;
