
// R8: std methods without a vstd specification. Each line is an unchecked assumption
// about the Rust standard library (documented semantics of the method).
pub assume_specification [i128::signum](x: i128) -> (r: i128)
    ensures r == sgn(x as int);

pub assume_specification [i8::unsigned_abs](x: i8) -> (r: u8)
    ensures r as int == abs_int(x as int);

pub assume_specification [i128::unsigned_abs](x: i128) -> (r: u128)
    ensures r as int == abs_int(x as int);

pub assume_specification [i128::is_negative](x: i128) -> (r: bool)
    ensures r == (x < 0);

// lossless widening conversions: see std_from_int.rs (included in every unit)
pub assume_specification<T> [<T as From<T>>::from](x: T) -> (r: T) ensures r == x;
