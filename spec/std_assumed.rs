
// R8: std methods without a vstd specification. Each line is an unchecked assumption
// about the Rust standard library (documented semantics of the method).




// lossless widening conversions: see std_from_int.rs (included in every unit)
pub assume_specification<T> [<T as From<T>>::from](x: T) -> (r: T) ensures r == x;
