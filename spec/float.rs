
// ---- C13 (and C12): binary floating point, specified over the *bit pattern*.
// Mathematics only: nothing in this file is derived from /repo's code.
//
// LISTED ASSUMPTION (IEEE 754-2008 binary64 / binary32 interchange format, section 3.4):
// a bit pattern b = S | E | T (sign, biased exponent of w bits, trailing significand of t bits) denotes
//   E == 2^w-1, T != 0 : NaN            E == 2^w-1, T == 0 : (-1)^S * infinity
//   1 <= E <= 2^w-2    : (-1)^S * (2^t + T) * 2^(E - bias - t)          (normal)
//   E == 0             : (-1)^S * T * 2^(1 - bias - t)                  (zero / subnormal)
// with (w, t, bias) = (11, 52, 1023) for f64 and (8, 23, 127) for f32.  The link between
// an f64/f32 *value* and its pattern is `to_bits` (spec/std_float.rs).  Floats are never
// modelled as reals: a finite pattern denotes the rational  (-1)^S * m * 2^e  given by the
// integer triple (S, m, e) below.
// The fields are defined arithmetically (div/mod by powers of two), not with shifts/masks.

pub open spec fn p2(n: nat) -> int { vstd::arithmetic::power2::pow2(n) as int }

// ---------------- binary64
pub open spec fn f64_sign(b: u64) -> int { b as int / 0x8000_0000_0000_0000 }
pub open spec fn f64_biased(b: u64) -> int { (b as int / 0x10_0000_0000_0000) % 0x800 }
pub open spec fn f64_fraction(b: u64) -> int { b as int % 0x10_0000_0000_0000 }
pub open spec fn f64_is_nan_bits(b: u64) -> bool { f64_biased(b) == 0x7ff && f64_fraction(b) != 0 }
pub open spec fn f64_is_inf_bits(b: u64) -> bool { f64_biased(b) == 0x7ff && f64_fraction(b) == 0 }
pub open spec fn f64_finite_bits(b: u64) -> bool { f64_biased(b) != 0x7ff }
pub open spec fn f64_neg(b: u64) -> bool { f64_sign(b) == 1 }
/// significand m (with the hidden bit for normal numbers)
pub open spec fn f64_mant(b: u64) -> int {
    if f64_biased(b) == 0 { f64_fraction(b) } else { f64_fraction(b) + 0x10_0000_0000_0000 }
}
/// exponent e of the *integer* significand: value = (-1)^S * m * 2^e
pub open spec fn f64_exp(b: u64) -> int {
    if f64_biased(b) == 0 { 1 - 1023 - 52 } else { f64_biased(b) - 1023 - 52 }
}

// ---------------- binary32
pub open spec fn f32_sign(b: u32) -> int { b as int / 0x8000_0000 }
pub open spec fn f32_biased(b: u32) -> int { (b as int / 0x80_0000) % 0x100 }
pub open spec fn f32_fraction(b: u32) -> int { b as int % 0x80_0000 }
pub open spec fn f32_is_nan_bits(b: u32) -> bool { f32_biased(b) == 0xff && f32_fraction(b) != 0 }
pub open spec fn f32_is_inf_bits(b: u32) -> bool { f32_biased(b) == 0xff && f32_fraction(b) == 0 }
pub open spec fn f32_finite_bits(b: u32) -> bool { f32_biased(b) != 0xff }
pub open spec fn f32_neg(b: u32) -> bool { f32_sign(b) == 1 }
pub open spec fn f32_mant(b: u32) -> int {
    if f32_biased(b) == 0 { f32_fraction(b) } else { f32_fraction(b) + 0x80_0000 }
}
pub open spec fn f32_exp(b: u32) -> int {
    if f32_biased(b) == 0 { 1 - 127 - 23 } else { f32_biased(b) - 127 - 23 }
}

// ---------------- the rational (-1)^S * m * 2^e as numerator / denominator (denominator a power of two)
pub open spec fn fl_num(neg: bool, m: int, e: int) -> int {
    let a = if e >= 0 { m * p2(e as nat) } else { m };
    if neg { -a } else { a }
}

pub open spec fn fl_den(e: int) -> int {
    if e >= 0 { 1 } else { p2((-e) as nat) }
}

// ---------------- the nearest Decimal
/// remove trailing zero digits of the coefficient while fractional digits remain; 0 is (0, 0)
pub open spec fn strip(c: int, n: nat) -> (int, nat)
    decreases n
{
    if c == 0 { (0, 0) } else if n > 0 && c % 10 == 0 { strip(c / 10, (n - 1) as nat) } else { (c, n) }
}

/// num/den (den > 0) rounded half-to-even to 18 fractional digits, trailing fractional zeros
/// removed: (coefficient, number of fractional digits).  If num/den has at most 18 fractional
/// digits the division is exact and this is the exact value; for integral num/den it is (num/den, 0).
pub open spec fn nearest18(num: int, den: int) -> (int, nat)
    recommends den > 0
{
    strip(round_div(num * pow10(18), den, RoundingMode::RoundHalfEven), 18)
}

/// C13: the result for a finite float (-1)^S * m * 2^e
pub open spec fn dec_of_float(neg: bool, m: int, e: int) -> Result<Decimal, DecimalError> {
    let cn = nearest18(fl_num(neg, m, e), fl_den(e));
    if in_i128(cn.0) {
        Ok(Decimal { coeff: cn.0 as i128, n_frac_digits: cn.1 as u8 })
    } else {
        Err(DecimalError::InternalOverflow)
    }
}

pub open spec fn dec_of_f64_bits(b: u64) -> Result<Decimal, DecimalError> {
    if f64_is_nan_bits(b) { Err(DecimalError::NotANumber) }
    else if f64_is_inf_bits(b) { Err(DecimalError::InfiniteValue) }
    else { dec_of_float(f64_neg(b), f64_mant(b), f64_exp(b)) }
}

pub open spec fn dec_of_f32_bits(b: u32) -> Result<Decimal, DecimalError> {
    if f32_is_nan_bits(b) { Err(DecimalError::NotANumber) }
    else if f32_is_inf_bits(b) { Err(DecimalError::InfiniteValue) }
    else { dec_of_float(f32_neg(b), f32_mant(b), f32_exp(b)) }
}
