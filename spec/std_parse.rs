
// ---- C06: assumptions about std / raw memory used by the parser (each item is part of the trusted base)

/// The bytes of a string: the UTF-8 encoding of its characters.  Left uninterpreted, so every C06 contract
/// holds for *every* byte sequence a `&str` may consist of (the property quantifies over all of them).
pub uninterp spec fn utf8(s: Seq<char>) -> Seq<u8>;

// R8: `<str as AsRef<[u8]>>::as_ref` (= `str::as_bytes`) returns the bytes of the string
pub assume_specification [<str as core::convert::AsRef<[u8]>>::as_ref] (s: &str) -> (r: &[u8])
    ensures r@ == utf8(s@);

/// byte `i` (0..8) of a 64-bit word: bits 8i..8i+7.  For the word produced by a little-endian read of
/// 8 bytes this is the byte at address +i.  (Same definition as `byte` in kani/swar.py.)
pub open spec fn byte_of(w: u64, i: int) -> u8 { ((w >> ((8 * i) as u64)) & 0xff) as u8 }

/// `w` is the little-endian word made of the first 8 bytes of `s`
pub open spec fn le_word_of(w: u64, s: Seq<u8>) -> bool {
    &&& s.len() >= 8
    &&& byte_of(w, 0) == s[0] && byte_of(w, 1) == s[1] && byte_of(w, 2) == s[2] && byte_of(w, 3) == s[3]
    &&& byte_of(w, 4) == s[4] && byte_of(w, 5) == s[5] && byte_of(w, 6) == s[6] && byte_of(w, 7) == s[7]
}

/// all 8 bytes of `w` are ASCII digits
pub open spec fn word_all_digits(w: u64) -> bool {
    &&& is_digit(byte_of(w, 0)) && is_digit(byte_of(w, 1)) && is_digit(byte_of(w, 2)) && is_digit(byte_of(w, 3))
    &&& is_digit(byte_of(w, 4)) && is_digit(byte_of(w, 5)) && is_digit(byte_of(w, 6)) && is_digit(byte_of(w, 7))
}

/// the number denoted by the 8 digits of `w`, lowest-addressed byte most significant
pub open spec fn word_digits_value(w: u64) -> int {
    digit_val(byte_of(w, 0)) * 10000000 + digit_val(byte_of(w, 1)) * 1000000 + digit_val(byte_of(w, 2)) * 100000
        + digit_val(byte_of(w, 3)) * 10000 + digit_val(byte_of(w, 4)) * 1000 + digit_val(byte_of(w, 5)) * 100
        + digit_val(byte_of(w, 6)) * 10 + digit_val(byte_of(w, 7))
}
