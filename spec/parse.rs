
// ---- C06: grammar and value of decimal literals.
// Mathematics only: written from the grammar in the property statement
//     [+|-] ( digits [ . digits* ] | . digits ) [ (e|E) [+|-] digits ]
// over byte sequences; nothing in this file is derived from /repo's code.

pub open spec fn is_digit(b: u8) -> bool { 0x30 <= b && b <= 0x39 }

pub open spec fn digit_val(b: u8) -> int { b as int - 0x30 }

pub open spec fn all_digits(s: Seq<u8>) -> bool { forall|i: int| 0 <= i < s.len() ==> is_digit(#[trigger] s[i]) }

/// length of the longest prefix of `s` that consists of digits
pub open spec fn digit_run(s: Seq<u8>) -> nat
    decreases s.len()
{
    if s.len() > 0 && is_digit(s[0]) { 1 + digit_run(s.skip(1)) } else { 0 }
}

/// the number denoted by a sequence of digits, most significant digit first
pub open spec fn digits_value(s: Seq<u8>) -> int
    decreases s.len()
{
    if s.len() == 0 { 0 } else { 10 * digits_value(s.drop_last()) + digit_val(s.last()) }
}

pub open spec fn is_minus(s: Seq<u8>) -> bool { s.len() > 0 && s[0] == 0x2d }

pub open spec fn has_sign(s: Seq<u8>) -> bool { s.len() > 0 && (s[0] == 0x2b || s[0] == 0x2d) }

/// `s` without an optional leading sign
pub open spec fn after_sign(s: Seq<u8>) -> Seq<u8> { if has_sign(s) { s.skip(1) } else { s } }

pub open spec fn is_exp_marker(b: u8) -> bool { b == 0x65 || b == 0x45 }

/// Result of reading a byte string as a literal.  `digits` is the integer denoted by all digits of the
/// mantissa (integral digits followed by fractional digits), `n_frac` the number of fractional digits,
/// `exp` the signed value of the exponent (0 if there is none): value = (neg ? -1 : 1) * digits * 10^(exp - n_frac).
/// All three are unbounded.
pub enum LitParse {
    Empty,
    Invalid,
    Lit { neg: bool, digits: int, n_frac: int, exp: int },
}

/// recursive-descent recogniser of the literal grammar
pub open spec fn lit_parse(s: Seq<u8>) -> LitParse {
    if s.len() == 0 {
        LitParse::Empty
    } else {
        let s1 = after_sign(s);                              // [+|-]
        let ni = digit_run(s1) as int;                       // integral digits (none in the `.digits` form)
        let s2 = s1.skip(ni);
        let point = s2.len() > 0 && s2[0] == 0x2e;           // '.'
        let s3 = if point { s2.skip(1) } else { s2 };
        let nf = if point { digit_run(s3) as int } else { 0 };   // fractional digits
        let s4 = s3.skip(nf);
        let digits = digits_value(s1.take(ni) + s3.take(nf));
        if !(ni >= 1 || (point && nf >= 1)) {                // digits[.digits*] | .digits
            LitParse::Invalid
        } else if s4.len() == 0 {
            LitParse::Lit { neg: is_minus(s), digits: digits, n_frac: nf, exp: 0 }
        } else if !is_exp_marker(s4[0]) {
            LitParse::Invalid
        } else {
            let s5 = s4.skip(1);                             // (e|E)
            let s6 = after_sign(s5);                         // [+|-]
            let ne = digit_run(s6) as int;                   // digits
            let e = digits_value(s6.take(ne));
            if ne == 0 || s6.skip(ne).len() != 0 {
                LitParse::Invalid
            } else {
                LitParse::Lit { neg: is_minus(s), digits: digits, n_frac: nf, exp: if is_minus(s5) { -e } else { e } }
            }
        }
    }
}

/// 2^127 - 1
pub open spec fn max_coeff() -> int { 0x7fff_ffff_ffff_ffff_ffff_ffff_ffff_ffff }

/// C06, the result of parsing: `Some((coefficient, number of fractional digits))` exactly for grammatical
/// strings whose value has at most 18 fractional digits after applying the exponent and a coefficient
/// within +-(2^127-1); the coefficient consists of the literal's digits (scaled by the part of the exponent
/// that is not absorbed by the fraction), the number of fractional digits is max(0, fraction length - exponent).
pub open spec fn parse_decimal_spec(s: Seq<u8>) -> Option<(int, int)> {
    match lit_parse(s) {
        LitParse::Lit { neg, digits, n_frac, exp } => {
            let n_frac_digits = if n_frac - exp > 0 { n_frac - exp } else { 0 };
            let shift = if exp - n_frac > 0 { exp - n_frac } else { 0 };
            let c = digits * pow10(shift as nat);
            if n_frac_digits <= 18 && c <= max_coeff() {
                Some((if neg { -c } else { c }, n_frac_digits))
            } else {
                None
            }
        },
        _ => None,
    }
}

/// The intermediate result `(coefficient, exponent)` of `str_to_dec`, value = coefficient * 10^exponent:
/// the coefficient is the literal's digits with its sign, the exponent is `exp - n_frac` (a zero coefficient
/// carries no positive exponent: 0 * 10^x = 0 * 10^0).  `None` for the literals that cannot denote a
/// representable Decimal whatever the caller does: more than 18 fractional digits, digits > 2^127-1, or
/// non-zero digits with an exponent > 38 (10^39 > 2^127-1).
pub open spec fn str_to_dec_spec(s: Seq<u8>) -> Option<(int, int)> {
    match lit_parse(s) {
        LitParse::Lit { neg, digits, n_frac, exp } => {
            let x = exp - n_frac;
            if -x > 18 || digits > max_coeff() || (digits != 0 && x > 38) {
                None
            } else {
                Some((if neg { -digits } else { digits }, if digits == 0 && x > 0 { 0 } else { x }))
            }
        },
        _ => None,
    }
}

/// exponent folding: what a `(coefficient, exponent)` pair of `str_to_dec_spec` means as a Decimal
pub open spec fn fold_exponent(c: int, x: int) -> Option<(int, int)> {
    if x < 0 {
        Some((c, -x))
    } else if -max_coeff() <= c * pow10(x as nat) <= max_coeff() {
        Some((c * pow10(x as nat), 0))
    } else {
        None
    }
}

// ---- lemmas (pure mathematics)

pub proof fn lemma_digit_run_bound(s: Seq<u8>)
    ensures digit_run(s) <= s.len(), all_digits(s.take(digit_run(s) as int)),
        digit_run(s) < s.len() ==> !is_digit(s[digit_run(s) as int]),
    decreases s.len()
{
    if s.len() > 0 && is_digit(s[0]) {
        let t = s.skip(1);
        lemma_digit_run_bound(t);
        let n = digit_run(s) as int;
        assert forall|i: int| 0 <= i < n implies is_digit(#[trigger] s.take(n)[i]) by {
            if i > 0 {
                assert(s.take(n)[i] == t.take(n - 1)[i - 1]);
            }
        }
        if n < s.len() {
            assert(s[n] == t[n - 1]);
        }
    }
}

pub proof fn lemma_skip_skip(s: Seq<u8>, a: int, b: int)
    requires 0 <= a, 0 <= b, a + b <= s.len()
    ensures s.skip(a).skip(b) == s.skip(a + b)
{
    assert(s.skip(a).skip(b) =~= s.skip(a + b));
}

/// a run of k digits followed by the run of the rest
pub proof fn lemma_digit_run_split(s: Seq<u8>, k: int)
    requires 0 <= k <= s.len(), all_digits(s.take(k))
    ensures digit_run(s) == k + digit_run(s.skip(k))
    decreases k
{
    if k == 0 {
        assert(s.skip(0) =~= s);
    } else {
        assert(s.take(k)[0] == s[0]);
        let t = s.skip(1);
        assert forall|i: int| 0 <= i < k - 1 implies is_digit(#[trigger] t.take(k - 1)[i]) by {
            assert(t.take(k - 1)[i] == s.take(k)[i + 1]);
        }
        lemma_digit_run_split(t, k - 1);
        lemma_skip_skip(s, 1, k - 1);
    }
}

pub proof fn lemma_digits_value_nonneg(s: Seq<u8>)
    requires all_digits(s)
    ensures digits_value(s) >= 0
    decreases s.len()
{
    if s.len() > 0 {
        let t = s.drop_last();
        assert forall|i: int| 0 <= i < t.len() implies is_digit(#[trigger] t[i]) by { assert(t[i] == s[i]); }
        lemma_digits_value_nonneg(t);
        assert(is_digit(s[s.len() - 1]));
    }
}

/// value of a concatenation
pub proof fn lemma_digits_value_concat(a: Seq<u8>, b: Seq<u8>)
    ensures digits_value(a + b) == digits_value(a) * pow10(b.len()) + digits_value(b)
    decreases b.len()
{
    if b.len() == 0 {
        assert(a + b =~= a);
        assert(pow10(0) == 1);
        assert(digits_value(a) * 1 == digits_value(a));
    } else {
        let b1 = b.drop_last();
        assert((a + b).drop_last() =~= a + b1);
        assert((a + b).last() == b.last());
        lemma_digits_value_concat(a, b1);
        let x = digits_value(a);
        let p = pow10(b1.len());
        assert(pow10(b.len()) == 10 * p);
        assert(10 * (x * p + digits_value(b1)) == x * (10 * p) + 10 * digits_value(b1)) by (nonlinear_arith);
    }
}

/// appending one digit
pub proof fn lemma_digits_value_push(s: Seq<u8>, k: int)
    requires 0 <= k < s.len()
    ensures digits_value(s.take(k + 1)) == 10 * digits_value(s.take(k)) + digit_val(s[k])
{
    assert(s.take(k + 1).drop_last() =~= s.take(k));
    assert(s.take(k + 1).last() == s[k]);
}

/// leading zeros do not contribute
pub proof fn lemma_digits_value_zeros(s: Seq<u8>)
    requires forall|i: int| 0 <= i < s.len() ==> s[i] == 0x30
    ensures digits_value(s) == 0
    decreases s.len()
{
    if s.len() > 0 {
        lemma_digits_value_zeros(s.drop_last());
    }
}

/// a sequence of n digits denotes a number below 10^n
pub proof fn lemma_digits_value_bound(s: Seq<u8>)
    requires all_digits(s)
    ensures 0 <= digits_value(s) < pow10(s.len())
    decreases s.len()
{
    if s.len() > 0 {
        let t = s.drop_last();
        assert forall|i: int| 0 <= i < t.len() implies is_digit(#[trigger] t[i]) by { assert(t[i] == s[i]); }
        lemma_digits_value_bound(t);
        assert(is_digit(s[s.len() - 1]));
    }
}

/// a multiple of ten is not -2^127
pub proof fn lemma_not_i128_min(c: int, x: nat)
    requires -max_coeff() <= c <= max_coeff()
    ensures c * pow10(x) != -max_coeff() - 1
{
    if x == 0 {
        assert(c * 1 == c);
    } else {
        let p = pow10((x - 1) as nat);
        assert(c * (10 * p) == 10 * (c * p)) by (nonlinear_arith);
        assert((10 * (c * p)) % 10 == 0) by (nonlinear_arith);
        assert((-max_coeff() - 1) % 10 == 2) by (compute_only);
    }
}

/// `parse_decimal_spec` is `str_to_dec_spec` followed by exponent folding (C06 for from_str; C18 uses the same)
pub proof fn lemma_parse_fold(s: Seq<u8>)
    ensures
        str_to_dec_spec(s) is None ==> parse_decimal_spec(s) is None,
        str_to_dec_spec(s) is Some ==> ({
            let (c, x) = str_to_dec_spec(s)->Some_0;
            &&& -18 <= x <= 38
            &&& -max_coeff() <= c <= max_coeff()
            &&& parse_decimal_spec(s) == fold_exponent(c, x)
        }),
{
    match lit_parse(s) {
        LitParse::Lit { neg, digits, n_frac, exp } => {
            lemma_lit_digits_nonneg(s);
            let x = exp - n_frac;
            let shift = if x > 0 { x } else { 0 };
            let p = pow10(shift as nat);
            lemma_pow10_pos(shift as nat);
            if digits == 0 {
                assert(0 * p == 0);
                assert(0 * pow10(0) == 0);
            } else if x > 38 {
                lemma_pow10_values();
                lemma_pow10_mono(39, x as nat);
                assert(digits * p >= p) by (nonlinear_arith) requires digits >= 1, p >= 1;
            } else if -x <= 18 {
                assert(pow10(0) == 1);
                assert(digits * 1 == digits);
                assert((-digits) * p == -(digits * p)) by (nonlinear_arith);
                if digits <= max_coeff() {
                    assert(digits * p >= 0) by (nonlinear_arith) requires digits >= 0, p >= 1;
                } else {
                    assert(digits * p >= digits) by (nonlinear_arith) requires digits >= 1, p >= 1;
                }
            }
        },
        _ => {},
    }
}

pub proof fn lemma_lit_digits_nonneg(s: Seq<u8>)
    ensures lit_parse(s) is Lit ==> lit_parse(s)->digits >= 0 && lit_parse(s)->n_frac >= 0
{
    if s.len() > 0 {
        let s1 = after_sign(s);
        let ni = digit_run(s1) as int;
        let s2 = s1.skip(ni);
        let point = s2.len() > 0 && s2[0] == 0x2e;
        let s3 = if point { s2.skip(1) } else { s2 };
        let nf = if point { digit_run(s3) as int } else { 0 };
        lemma_digit_run_bound(s1);
        lemma_digit_run_bound(s3);
        let a = s1.take(ni);
        let b = s3.take(nf);
        assert(all_digits(b)) by {
            if !point { assert(b.len() == 0); }
        }
        assert forall|i: int| 0 <= i < (a + b).len() implies is_digit(#[trigger] (a + b)[i]) by {
            if i < a.len() { assert((a + b)[i] == a[i]); } else { assert((a + b)[i] == b[i - a.len()]); }
        }
        lemma_digits_value_nonneg(a + b);
    }
}
