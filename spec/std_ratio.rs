
// R8 (C09): std items used by as_integer_ratio.rs / `impl Hash for Decimal` that have no vstd
// specification. Every `assume_specification` below is an unchecked assumption about the Rust
// standard library (its documented semantics); the `proof fn`s are proved.
// Needs base.rs (abs_int) and numtheory.rs (pow2i, exact_pow2).
// (`core::mem::swap` is specified by vstd itself.)

/// std: "Computes the absolute value of self. [...] The absolute value of i128::MIN cannot be
/// represented as an i128, and attempting to calculate it will cause an overflow."
/// The overflow case is excluded by the precondition, i.e. every call site must prove x > MIN.

/// std: "Returns the number of trailing zeros in the binary representation of self."
/// Stated for positive x only: 2^r divides x and x / 2^r is odd.
pub assume_specification [i128::trailing_zeros](x: i128) -> (r: u32)
    ensures x > 0 ==> r < 128 && exact_pow2(x as int, r as nat);

/// std: "Compares and returns the minimum of two values. Returns the first argument if the
/// comparison determines them to be equal." (for types whose `cmp` has a vstd model, e.g. u32)
pub assume_specification<T: core::cmp::Ord> [core::cmp::min::<T>](a: T, b: T) -> (r: T)
    ensures
        <T as vstd::std_specs::cmp::OrdSpec>::obeys_cmp_spec() ==>
            r == (if vstd::std_specs::cmp::OrdSpec::cmp_spec(&a, &b) == core::cmp::Ordering::Greater { b } else { a });

/// Verus has no model of `core::hash::Hasher`. The state of the hasher after a value has been
/// fed to it is an uninterpreted function of (state before, value fed): hashing is deterministic
/// and depends on nothing else.
pub uninterp spec fn hash_fed<T, S>(before: S, value: T) -> S;

/// `<(T, B) as Hash>::hash` feeds the pair, and only the pair, to the hasher.
pub assume_specification<T, B, S> [<(T, B) as core::hash::Hash>::hash](v: &(T, B), state: &mut S)
    where B: core::hash::Hash, S: core::hash::Hasher, T: core::hash::Hash
    ensures *final(state) == hash_fed::<(T, B), S>(*old(state), *v);

// ---- shifts of non-negative i128 values are division / multiplication by a power of two (proved)

pub proof fn lemma_i128_shr(x: i128, k: u32)
    requires x >= 0, k < 128
    ensures (x >> k) == (x as int) / pow2i(k as nat), (x >> k) >= 0
{
    let y = x as u128;
    assert((x >> k) == ((x as u128) >> k) as i128 && (x >> k) >= 0) by (bit_vector) requires x >= 0, k < 128;
    vstd::bits::lemma_u128_shr_is_div(y, k as u128);
    lemma_pow2_vstd(k as nat);
}

pub proof fn lemma_i128_shl(x: i128, k: u32)
    requires x >= 0, k < 128, x * pow2i(k as nat) <= i128::MAX
    ensures (x << k) == x * pow2i(k as nat)
    decreases k
{
    if k == 0 {
        assert(x << 0u32 == x) by (bit_vector);
        assert(pow2i(0) == 1);
        assert(x * 1 == x);
    } else {
        let j = (k - 1) as u32;
        lemma_pow2_pos(j as nat);
        let p = pow2i(j as nat);
        assert(pow2i(k as nat) == 2 * p);
        assert(x * p <= x * (2 * p) && x * (2 * p) == 2 * (x * p) && x * p >= 0) by (nonlinear_arith) requires x >= 0, p >= 1;
        lemma_i128_shl(x, j);
        let y = x << j;
        assert(x << k == (x << j) << 1u32) by (bit_vector) requires k >= 1, k < 128, j == k - 1;
        assert(y << 1u32 == 2 * y) by (bit_vector) requires 0 <= y <= 0x3fff_ffff_ffff_ffff_ffff_ffff_ffff_ffffi128;
    }
}
