use vstd::prelude::*;
verus! {
// dev-profile converse: if the mathematical result is out of range, every path panics
fn mul10_add(a: i128, b: i128) -> (r: i128)
    requires !(i128::MIN <= a * 10 <= i128::MAX && i128::MIN <= a * 10 + b <= i128::MAX)
    ensures false
{
    let t = a * 10;
    t + b
}
// mutated: silently wrapping first op
fn mul10_add_mut(a: i128, b: i128) -> (r: i128)
    requires !(i128::MIN <= a * 10 <= i128::MAX && i128::MIN <= a * 10 + b <= i128::MAX)
    ensures false
{
    let t = a.wrapping_mul(10);
    t + b
}
}
fn main() {}
