use vstd::prelude::*;
verus! {
pub open spec fn pow10(n: nat) -> int decreases n { if n == 0 { 1 } else { 10 * pow10((n - 1) as nat) } }

const POWERS_OF_10: [i128; 39] = [
    1,
    10,
    100,
    1000,
    10000,
    100000,
    1000000,
    10000000,
    100000000,
    1000000000,
    10000000000,
    100000000000,
    1000000000000,
    10000000000000,
    100000000000000,
    1000000000000000,
    10000000000000000,
    100000000000000000,
    1000000000000000000,
    10000000000000000000,
    100000000000000000000,
    1000000000000000000000,
    10000000000000000000000,
    100000000000000000000000,
    1000000000000000000000000,
    10000000000000000000000000,
    100000000000000000000000000,
    1000000000000000000000000000,
    10000000000000000000000000000,
    100000000000000000000000000000,
    1000000000000000000000000000000,
    10000000000000000000000000000000,
    100000000000000000000000000000000,
    1000000000000000000000000000000000,
    10000000000000000000000000000000000,
    100000000000000000000000000000000000,
    1000000000000000000000000000000000000,
    10000000000000000000000000000000000000,
    100000000000000000000000000000000000000,
];

proof fn lemma_table(n: nat)
    requires n < 39
    ensures POWERS_OF_10[n as int] == pow10(n)
{
    assert(pow10(0) == 1) by { reveal_with_fuel(pow10, 2); }
    assert(pow10(1) == 10) by { reveal_with_fuel(pow10, 2); }
    assert(pow10(2) == 100) by { reveal_with_fuel(pow10, 2); }
    assert(pow10(3) == 1000) by { reveal_with_fuel(pow10, 2); }
    assert(pow10(4) == 10000) by { reveal_with_fuel(pow10, 2); }
    assert(pow10(5) == 100000) by { reveal_with_fuel(pow10, 2); }
    assert(pow10(6) == 1000000) by { reveal_with_fuel(pow10, 2); }
    assert(pow10(7) == 10000000) by { reveal_with_fuel(pow10, 2); }
    assert(pow10(8) == 100000000) by { reveal_with_fuel(pow10, 2); }
    assert(pow10(9) == 1000000000) by { reveal_with_fuel(pow10, 2); }
    assert(pow10(10) == 10000000000) by { reveal_with_fuel(pow10, 2); }
    assert(pow10(11) == 100000000000) by { reveal_with_fuel(pow10, 2); }
    assert(pow10(12) == 1000000000000) by { reveal_with_fuel(pow10, 2); }
    assert(pow10(13) == 10000000000000) by { reveal_with_fuel(pow10, 2); }
    assert(pow10(14) == 100000000000000) by { reveal_with_fuel(pow10, 2); }
    assert(pow10(15) == 1000000000000000) by { reveal_with_fuel(pow10, 2); }
    assert(pow10(16) == 10000000000000000) by { reveal_with_fuel(pow10, 2); }
    assert(pow10(17) == 100000000000000000) by { reveal_with_fuel(pow10, 2); }
    assert(pow10(18) == 1000000000000000000) by { reveal_with_fuel(pow10, 2); }
    assert(pow10(19) == 10000000000000000000) by { reveal_with_fuel(pow10, 2); }
    assert(pow10(20) == 100000000000000000000) by { reveal_with_fuel(pow10, 2); }
    assert(pow10(21) == 1000000000000000000000) by { reveal_with_fuel(pow10, 2); }
    assert(pow10(22) == 10000000000000000000000) by { reveal_with_fuel(pow10, 2); }
    assert(pow10(23) == 100000000000000000000000) by { reveal_with_fuel(pow10, 2); }
    assert(pow10(24) == 1000000000000000000000000) by { reveal_with_fuel(pow10, 2); }
    assert(pow10(25) == 10000000000000000000000000) by { reveal_with_fuel(pow10, 2); }
    assert(pow10(26) == 100000000000000000000000000) by { reveal_with_fuel(pow10, 2); }
    assert(pow10(27) == 1000000000000000000000000000) by { reveal_with_fuel(pow10, 2); }
    assert(pow10(28) == 10000000000000000000000000000) by { reveal_with_fuel(pow10, 2); }
    assert(pow10(29) == 100000000000000000000000000000) by { reveal_with_fuel(pow10, 2); }
    assert(pow10(30) == 1000000000000000000000000000000) by { reveal_with_fuel(pow10, 2); }
    assert(pow10(31) == 10000000000000000000000000000000) by { reveal_with_fuel(pow10, 2); }
    assert(pow10(32) == 100000000000000000000000000000000) by { reveal_with_fuel(pow10, 2); }
    assert(pow10(33) == 1000000000000000000000000000000000) by { reveal_with_fuel(pow10, 2); }
    assert(pow10(34) == 10000000000000000000000000000000000) by { reveal_with_fuel(pow10, 2); }
    assert(pow10(35) == 100000000000000000000000000000000000) by { reveal_with_fuel(pow10, 2); }
    assert(pow10(36) == 1000000000000000000000000000000000000) by { reveal_with_fuel(pow10, 2); }
    assert(pow10(37) == 10000000000000000000000000000000000000) by { reveal_with_fuel(pow10, 2); }
    assert(pow10(38) == 100000000000000000000000000000000000000) by { reveal_with_fuel(pow10, 2); }
}

pub const fn ten_pow(n: u8) -> (r: i128)
    requires n <= 38
    ensures r == pow10(n as nat)
{
    proof { lemma_table(n as nat); }
    POWERS_OF_10[n as usize]
}
}
fn main() {}
