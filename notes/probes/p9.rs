use vstd::prelude::*;
verus! {

struct AsciiDecLit<'a> {
    bytes: &'a [u8],
}

impl<'a> AsciiDecLit<'a> {
    const fn new(bytes: &'a [u8]) -> Self {
        Self { bytes }
    }
    const fn is_empty(&self) -> bool {
        self.bytes.is_empty()
    }
    const fn len(&self) -> usize {
        self.bytes.len()
    }
    const fn first(&self) -> Option<&u8> {
        self.bytes.first()
    }
    fn first_eq(&self, b: u8) -> bool {
        Some(&b) == self.first()
    }
    const fn first_is_digit(&self) -> bool {
        matches!(self.first(), Some(c) if c.wrapping_sub(b'0') < 10)
    }
    #[verifier::external_body]
    unsafe fn skip_n(&mut self, n: usize) -> &mut Self {
        self.bytes = self.bytes.get_unchecked(n..);
        self
    }
    fn accum_exp(&mut self, exp: &mut isize) -> usize {
        let start_len = self.len();
        while let Some(c) = self.first()
            invariant true
            decreases self.bytes@.len()
        {
            let d = c.wrapping_sub(b'0');
            if d < 10 {
                if *exp < 0x1000000 {
                    *exp = exp.wrapping_mul(10).wrapping_add(d as isize);
                }
                // Safety: safe because of call to self.first above
                unsafe {
                    self.skip_n(1);
                }
            } else {
                break;
            }
        }
        start_len - self.len()
    }
}

} // verus!
fn main() {}
