use vstd::prelude::*;
verus! {

pub open spec fn B64() -> int { 0x1_0000_0000_0000_0000 }
pub open spec fn B128() -> int { B64() * B64() }

pub broadcast proof fn lemma_hi(u: u128)
    ensures #[trigger] (u >> 64) == (u as int) / B64()
{
    assert((u >> 64) == u / 0x1_0000_0000_0000_0000u128) by (bit_vector);
}
pub broadcast proof fn lemma_lo(u: u128)
    ensures #[trigger] (u & 0xffffffffffffffff) == (u as int) % B64()
{
    assert((u & 0xffffffffffffffff) == u % 0x1_0000_0000_0000_0000u128) by (bit_vector);
}
pub broadcast proof fn lemma_shl64(u: u128)
    requires u < 0x1_0000_0000_0000_0000u128
    ensures #[trigger] (u << 64) == (u as int) * B64()
{
    assert(u < 0x1_0000_0000_0000_0000u128 ==> (u << 64) == mul(u, 0x1_0000_0000_0000_0000u128)) by (bit_vector);
}

#[inline(always)]
const fn u128_hi(u: u128) -> (r: u128)
    ensures r == (u as int) / B64(), r < B64()
{
    broadcast use lemma_hi;
    u >> 64
}

#[inline(always)]
const fn u128_lo(u: u128) -> (r: u128)
    ensures r == (u as int) % B64(), r < B64()
{
    broadcast use lemma_lo;
    u & 0xffffffffffffffff
}

proof fn lemma_mul_bound(a: int, b: int)
    requires 0 <= a < B64(), 0 <= b < B64()
    ensures 0 <= a * b <= (B64() - 1) * (B64() - 1)
{
    assert(0 <= a * b <= (B64() - 1) * (B64() - 1)) by (nonlinear_arith)
        requires 0 <= a <= B64() - 1, 0 <= b <= B64() - 1;
}

#[inline(always)]
const fn u128_mul_u128(x: u128, y: u128) -> (res: (u128, u128))
    ensures res.0 * B128() + res.1 == x * y
{
    broadcast use lemma_shl64;
    let xh = u128_hi(x);
    let xl = u128_lo(x);
    let yh = u128_hi(y);
    let yl = u128_lo(y);
    proof {
        lemma_mul_bound(xl as int, yl as int);
        lemma_mul_bound(xl as int, yh as int);
        lemma_mul_bound(xh as int, yl as int);
        lemma_mul_bound(xh as int, yh as int);
    }
    let mut t = xl * yl;
    let mut rl = u128_lo(t);
    let ghost t0 = t;
    t = xl * yh + u128_hi(t);
    let ghost t1 = t;
    let mut rh = u128_hi(t);
    t = xh * yl + u128_lo(t);
    let ghost t2 = t;
    rl += u128_lo(t) << 64;
    rh += xh * yh + u128_hi(t);
    proof {
        let (ixh, ixl, iyh, iyl) = (xh as int, xl as int, yh as int, yl as int);
        let (i0, i1, i2) = (t0 as int, t1 as int, t2 as int);
        let b = B64();
        assert(x * y == (ixh * b + ixl) * (iyh * b + iyl));
        assert((ixh * b + ixl) * (iyh * b + iyl) == ixh*iyh*(b*b) + (ixh*iyl + ixl*iyh)*b + ixl*iyl) by (nonlinear_arith);
        assert(B128() == b*b);
        assert(i0 == (i0 / b) * b + i0 % b && i1 == (i1 / b) * b + i1 % b && i2 == (i2 / b) * b + i2 % b) by (nonlinear_arith) requires b > 0;
        assert((rh as int) * (b*b) + (rl as int) == ixh*iyh*(b*b) + (ixh*iyl + ixl*iyh)*b + ixl*iyl) by (nonlinear_arith)
            requires
              i0 == ixl*iyl, i1 == ixl*iyh + i0 / b, i2 == ixh*iyl + i1 % b,
              rl as int == i0 % b + (i2 % b) * b,
              rh as int == i1 / b + ixh*iyh + i2 / b,
              i0 == (i0 / b) * b + i0 % b, i1 == (i1 / b) * b + i1 % b, i2 == (i2 / b) * b + i2 % b;
    }
    (rh, rl)
}

} // verus!
fn main() {}
