use vstd::prelude::*;
use core::mem::size_of;
verus! {

#[derive(Copy, Clone)]
pub struct Decimal {
    pub coeff: i128,
    pub n_frac_digits: u8,
}

#[inline(always)]
fn n_signif_bits(v: u128) -> u32 {
    u128::BITS - v.leading_zeros()
}

trait Float: Sized {
    type B: Sized;
    const BITS: u32 = size_of::<Self::B>() as u32 * 8;
    const FRACTION_BITS: u32;
    const EXP_BIAS: i32;
    fn from_bits(bits: u64) -> Self;

    fn from_decimal(d: Decimal) -> Self {
        const EXTRA_BITS: u32 = 3;
        const MASK_EXTRA_BITS: [u128; 2] = [7, 3];
        const TIE: u32 = 4;

        let add_bits = Self::FRACTION_BITS + EXTRA_BITS;
        let mut num = d.coeff.unsigned_abs();
        let mut den = 10_u128.pow(d.n_frac_digits as u32);
        let num_lz = num.leading_zeros();
        let den_lz = den.leading_zeros();
        let num_shl = (num_lz + add_bits).saturating_sub(den_lz);
        let den_shl = den_lz.saturating_sub(num_lz).saturating_sub(add_bits);
        num <<= num_shl;
        den <<= den_shl;
        let quot = num / den;
        let rem = num % den;
        let adj = (n_signif_bits(quot) == add_bits) as usize;
        let mut rnd = ((quot & MASK_EXTRA_BITS[adj]) as u32) << adj as u32;
        rnd |= (rem != 0) as u32;
        let signif = (quot >> (EXTRA_BITS - adj as u32)) as u64;
        let exp = den_lz as i32 - num_lz as i32 - adj as i32;
        let mut bits = signif
            + (((Self::EXP_BIAS + exp - 1) as u64) << Self::FRACTION_BITS);
        bits += (rnd > TIE || rnd == TIE && (signif & 1) as u32 == 1) as u64;
        bits |= ((d.coeff < 0) as u64) << (Self::BITS - 1);
        Self::from_bits(bits)
    }
}

impl Float for f64 {
    type B = u64;
    const FRACTION_BITS: u32 = Self::MANTISSA_DIGITS - 1;
    const EXP_BIAS: i32 = Self::MAX_EXP - 1;

    #[inline(always)]
    fn from_bits(bits: u64) -> Self {
        Self::from_bits(bits)
    }
}

fn f64_decode(f: f64) -> (u64, i16, i8) {
    let bits = f.to_bits();
    let sign_bit: u8 = (bits >> 63) as u8;
    let biased_exp = ((bits >> 52) & 0x7ff) as i16;
    assert_ne!(biased_exp, 0x7ff);
    let fraction = bits & 0xfffffffffffff;
    let (significand, exponent, sign) = if biased_exp == 0 {
        (0, 0, 0)
    } else {
        (
            fraction | 0x10000000000000, // add integer bit
            biased_exp - 1023 - 52,      // exponent bias and fraction shift
            1 - (sign_bit << 1) as i8,   // map sign bit to sign (1 / -1)
        )
    };
    (significand, exponent, sign)
}

} // verus!
fn main() {}
