use vstd::prelude::*;
use vstd::string::*;
verus! {

pub uninterp spec fn digits(n: nat) -> Seq<char>;
pub open spec fn disp_i128(v: int) -> Seq<char> { if v < 0 { seq!['-'] + digits((-v) as nat) } else { digits(v as nat) } }
pub uninterp spec fn zero_pad(s: Seq<char>, w: nat) -> Seq<char>;

// generated from the literal "{0}{1}.{2:03$}"
#[verifier::external_body]
pub fn fmt_lit_7(a0: &str, a1: i128, a2: i128, a3: usize) -> (s: String)
    ensures s@ == a0@ + disp_i128(a1 as int) + seq!['.'] + zero_pad(disp_i128(a2 as int), a3 as nat)
{ format!("{0}{1}.{2:03$}", a0, a1, a2, a3) }

pub struct FormatterStub { pub log: Ghost<Seq<(bool, Seq<char>, Seq<char>)>> }
impl FormatterStub {
    #[verifier::external_body]
    pub fn precision(&self) -> Option<usize> { None }
    #[verifier::external_body]
    pub fn pad_integral(&mut self, is_nonnegative: bool, prefix: &str, buf: &str) -> (r: Result<(), ()>)
        ensures final(self).log@ == old(self).log@.push((is_nonnegative, prefix@, buf@))
    { Ok(()) }
}

fn demo(c: i128, f: u8, form: &mut FormatterStub) -> (r: Result<(), ()>)
    requires c > i128::MIN
    ensures final(form).log@.len() == old(form).log@.len() + 1
{
    let tmp: String;
    let int_ = if c < 0 { -c } else { c };
    if f > 0 {
        tmp = fmt_lit_7(if c >= 0 { "" } else { "-" }, int_, 0, f as usize);
    } else {
        tmp = fmt_lit_7("", int_, 0, 0);
    }
    form.pad_integral(c >= 0, "", &tmp)
}

} // verus!
fn main() {}
