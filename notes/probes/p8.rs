use vstd::prelude::*;
verus! {

#[derive(Clone, Copy, Debug, Eq, PartialEq)]
pub enum RoundingMode {
    Round05Up,
    RoundCeiling,
    RoundDown,
    RoundFloor,
    RoundHalfDown,
    RoundHalfEven,
    RoundHalfUp,
    RoundUp,
}

pub uninterp spec fn thread_default_mode() -> RoundingMode;

impl RoundingMode {
    #[verifier::external_body]
    pub fn default() -> (m: RoundingMode)
        ensures m == thread_default_mode()
    { unimplemented!() }
}

pub open spec fn eff_mode(mode: Option<RoundingMode>) -> RoundingMode {
    match mode { None => thread_default_mode(), Some(m) => m }
}

// floor quotient q, remainder r in (0, d): exact value = q + r/d.
pub open spec fn round_up_spec(q: int, r: int, d: int, m: RoundingMode) -> bool {
    match m {
        RoundingMode::Round05Up => (q >= 0 && q % 5 == 0) || (q < 0 && (q + 1) % 5 != 0),
        RoundingMode::RoundCeiling => true,
        RoundingMode::RoundDown => q < 0,
        RoundingMode::RoundFloor => false,
        RoundingMode::RoundHalfDown => 2 * r > d || (2 * r == d && q < 0),
        RoundingMode::RoundHalfEven => 2 * r > d || (2 * r == d && q % 2 != 0),
        RoundingMode::RoundHalfUp => 2 * r > d || (2 * r == d && q >= 0),
        RoundingMode::RoundUp => q >= 0,
    }
}

pub open spec fn round_quot_spec(q: int, r: int, d: int, m: RoundingMode) -> int {
    if r == 0 { q } else if round_up_spec(q, r, d, m) { q + 1 } else { q }
}

pub broadcast proof fn lemma_shl1(x: u128)
    requires x < 0x8000_0000_0000_0000_0000_0000_0000_0000u128
    ensures #[trigger] (x << 1) == 2 * x
{
    assert(x < 0x8000_0000_0000_0000_0000_0000_0000_0000u128 ==> (x << 1) == mul(2, x)) by (bit_vector);
}

fn round_quot(
    quot: i128,
    rem: u128,
    divisor: u128,
    mode: Option<RoundingMode>,
) -> (res: i128)
    requires 0 < divisor, rem < divisor, divisor <= i128::MAX as u128, quot < i128::MAX
    ensures res == round_quot_spec(quot as int, rem as int, divisor as int, eff_mode(mode))
{
    broadcast use lemma_shl1;
    if rem == 0 {
        // no need for rounding
        return quot;
    }
    // here: |divisor| >= 2 => rem <= |divident| / 2,
    // therefor it's safe to use rem << 1
    let mode = match mode {
        None => RoundingMode::default(),
        Some(mode) => mode,
    };
    match mode {
        RoundingMode::Round05Up => {
            if quot >= 0 && quot % 5 == 0 || quot < 0 && (quot + 1) % 5 != 0 {
                return quot + 1;
            }
        }
        RoundingMode::RoundCeiling => {
            return quot + 1;
        }
        RoundingMode::RoundDown => {
            if quot < 0 {
                return quot + 1;
            }
        }
        RoundingMode::RoundFloor => {
            return quot;
        }
        RoundingMode::RoundHalfDown => {
            let rem_doubled = rem << 1;
            if rem_doubled > divisor || rem_doubled == divisor && quot < 0 {
                return quot + 1;
            }
        }
        RoundingMode::RoundHalfEven => {
            let rem_doubled = rem << 1;
            if rem_doubled > divisor
                || rem_doubled == divisor && quot % 2 != 0
            {
                return quot + 1;
            }
        }
        RoundingMode::RoundHalfUp => {
            let rem_doubled = rem << 1;
            if rem_doubled > divisor || rem_doubled == divisor && quot >= 0 {
                return quot + 1;
            }
        }
        RoundingMode::RoundUp => {
            if quot >= 0 {
                return quot + 1;
            }
        }
    }
    // fall-through: round towards 0
    quot
}

} // verus!
fn main() {}
