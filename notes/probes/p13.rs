use vstd::prelude::*;
use core::ops::{Add, Mul};
verus! {

#[derive(Copy, Clone)]
pub struct Decimal { pub coeff: i128, pub n_frac_digits: u8 }

#[verifier::external_body]
pub fn explicit_panic() -> !
    requires false
{ panic!() }

pub open spec fn dec_of(i: int) -> Decimal { Decimal { coeff: i as i128, n_frac_digits: 0 } }
pub open spec fn ok_add(x: Decimal, y: Decimal) -> bool { x.n_frac_digits == 0 && y.n_frac_digits == 0 && i128::MIN <= x.coeff + y.coeff <= i128::MAX }
pub open spec fn spec_add(x: Decimal, y: Decimal) -> Decimal { Decimal { coeff: (x.coeff + y.coeff) as i128, n_frac_digits: 0 } }

impl vstd::std_specs::ops::AddSpecImpl<Decimal> for u8 {
    open spec fn obeys_add_spec() -> bool { true }
    open spec fn add_req(self, rhs: Decimal) -> bool { ok_add(dec_of(self as int), rhs) }
    open spec fn add_spec(self, rhs: Decimal) -> Decimal { spec_add(dec_of(self as int), rhs) }
}
impl Add<Decimal> for u8 {
    type Output = Decimal;
    fn add(self, rhs: Decimal) -> Self::Output {
        if rhs.n_frac_digits == 0 {
            Self::Output { coeff: Add::add(i128::from(self), rhs.coeff), n_frac_digits: 0 }
        } else {
            { explicit_panic(); };
        }
    }
}
impl<'a> vstd::std_specs::ops::AddSpecImpl<Decimal> for &'a u8 {
    open spec fn obeys_add_spec() -> bool { true }
    open spec fn add_req(self, rhs: Decimal) -> bool { ok_add(dec_of(*self as int), rhs) }
    open spec fn add_spec(self, rhs: Decimal) -> Decimal { spec_add(dec_of(*self as int), rhs) }
}
impl<'a> Add<Decimal> for &'a u8 where u8: Add<Decimal> {
    type Output = <u8 as Add<Decimal>>::Output;
    fn add(self, rhs: Decimal) -> Self::Output { Add::add(*self, rhs) }
}

// crate trait with woven ghost members, generic user
pub trait DivRounded<Rhs = Self> {
    type Output;
    spec fn dr_ok(self, rhs: Rhs, n: u8) -> bool;
    spec fn dr_spec(self, rhs: Rhs, n: u8) -> Self::Output;
    fn div_rounded(self, rhs: Rhs, n_frac_digits: u8) -> (r: Self::Output)
        requires self.dr_ok(rhs, n_frac_digits)
        ensures r == self.dr_spec(rhs, n_frac_digits);
}
impl DivRounded<Decimal> for Decimal {
    type Output = Decimal;
    open spec fn dr_ok(self, rhs: Decimal, n: u8) -> bool { rhs.coeff == 1 }
    open spec fn dr_spec(self, rhs: Decimal, n: u8) -> Decimal { self }
    fn div_rounded(self, rhs: Decimal, n_frac_digits: u8) -> Decimal {
        if rhs.coeff != 1 { explicit_panic(); }
        self
    }
}
pub trait Quantize<Rhs = Self> {
    type Output;
    fn quantize(self, quant: Rhs) -> Self::Output;
}
impl<T, Q> Quantize<Q> for T
where
    Q: Copy,
    T: DivRounded<Q>,
    <T as DivRounded<Q>>::Output: Mul<Q>,
{
    type Output = <<T as DivRounded<Q>>::Output as Mul<Q>>::Output;
    fn quantize(self, quant: Q) -> (r: Self::Output)
    {
        self.div_rounded(quant, 0) * quant
    }
}

} // verus!
fn main() {}
