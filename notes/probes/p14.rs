use vstd::prelude::*;
use core::ops::Add;
verus! {
#[derive(Copy, Clone)]
pub struct D { pub c: i128 }

#[verifier::external_body]
pub fn explicit_panic() -> !
    ensures false
{ panic!() }

impl vstd::std_specs::ops::AddSpecImpl<D> for D {
    open spec fn obeys_add_spec() -> bool { false }
    open spec fn add_req(self, rhs: D) -> bool { !(i128::MIN <= self.c + rhs.c <= i128::MAX) }
    open spec fn add_spec(self, rhs: D) -> D { self }
}
impl Add<D> for D {
    type Output = D;
    fn add(self, rhs: D) -> (r: D)
        ensures false
    {
        D { c: (self.c + rhs.c) }
    }
}
// mutant: wrapping
pub struct E { pub c: i128 }
impl vstd::std_specs::ops::AddSpecImpl<E> for E {
    open spec fn obeys_add_spec() -> bool { false }
    open spec fn add_req(self, rhs: E) -> bool { !(i128::MIN <= self.c + rhs.c <= i128::MAX) }
    open spec fn add_spec(self, rhs: E) -> E { self }
}
impl Add<E> for E {
    type Output = E;
    fn add(self, rhs: E) -> (r: E)
        ensures false
    {
        E { c: self.c.wrapping_add(rhs.c) }
    }
}
}
fn main() {}
