use vstd::prelude::*;
verus! {
fn pp(x: i128, y: i128) -> (q: i128) requires y > 0, x >= 0 ensures q as int == (x as int) / (y as int) { x / y }
fn pn(x: i128, y: i128) -> (q: i128) requires y < 0, x >= 0, y > i128::MIN ensures q as int == -((x as int) / (-(y as int))) { x / y }
fn np(x: i128, y: i128) -> (q: i128) requires y > 0, x < 0, x > i128::MIN ensures q as int == -((-(x as int)) / (y as int)) { x / y }
fn nn(x: i128, y: i128) -> (q: i128) requires y < 0, x < 0, x > i128::MIN, y > i128::MIN ensures q as int == ((-(x as int)) / (-(y as int))) { x / y }
fn mpp(x: i128, y: i128) -> (q: i128) requires y > 0, x >= 0 ensures q as int == (x as int) % (y as int) { x % y }
fn mpn(x: i128, y: i128) -> (q: i128) requires y < 0, x >= 0, y > i128::MIN ensures q as int == ((x as int) % (-(y as int))) { x % y }
fn mnp(x: i128, y: i128) -> (q: i128) requires y > 0, x < 0, x > i128::MIN ensures q as int == -((-(x as int)) % (y as int)) { x % y }
fn mnn(x: i128, y: i128) -> (q: i128) requires y < 0, x < 0, x > i128::MIN, y > i128::MIN ensures q as int == -((-(x as int)) % (-(y as int))) { x % y }
fn ovf(x: i128, y: i128) -> (q: i128) requires y != 0 { x / y }
fn ovf2(x: i128, y: i128) -> (q: i128) requires y != 0 { x % y }
}
fn main() {}
