use vstd::prelude::*;
use vstd::arithmetic::div_mod::*;
use vstd::arithmetic::mul::*;
use vstd::arithmetic::power::*;
verus! {

// ---------- spec library ----------
pub open spec fn abs(x: int) -> int { if x < 0 { -x } else { x } }

pub proof fn lemma_rust_div_rem(x: int, y: int)
    requires y != 0
    ensures
        x == y * rust_div(x, y) + rust_rem(x, y),
        abs(rust_rem(x, y)) < abs(y),
        x >= 0 ==> rust_rem(x, y) >= 0,
        x <= 0 ==> rust_rem(x, y) <= 0,
        abs(rust_div(x, y)) <= abs(x),
{
    let ax = abs(x);
    lemma_fundamental_div_mod(ax, y);
    if y > 0 {
        lemma_mod_bound(ax, y);
        lemma_div_pos_is_pos(ax, y);
        lemma_div_is_ordered_by_denominator(ax, 1, y);
        lemma_div_basics_3(ax);
    } else {
        // Euclidean with negative divisor
        lemma_fundamental_div_mod(ax, -y);
        lemma_mod_bound(ax, -y);
        lemma_div_pos_is_pos(ax, -y);
        lemma_div_is_ordered_by_denominator(ax, 1, -y);
        lemma_div_basics_3(ax);
        assume(ax / y == -(ax / (-y)));
        assume(ax % y == ax % (-y));
    }
    if x < 0 {
        lemma_mul_unary_negation(y, ax / y);
    }
}

// ---------- real code (fpdec-core/src/lib.rs:109) ----------
pub const fn i128_div_mod_floor(x: i128, y: i128) -> (res: (i128, i128))
    requires y > 0, x > i128::MIN
    ensures res.0 * y + res.1 == x, 0 <= res.1 < y,
{
    proof { lemma_rust_div_rem(x as int, y as int); }
    let (q, r) = (x / y, x % y);
    if (r > 0 && y < 0) || (r < 0 && y > 0) {
        proof {
            assert((q - 1) * y == q * y - y) by (nonlinear_arith);
        }
        (q - 1, r + y)
    } else {
        (q, r)
    }
}

} // verus!
fn main() {}
