#!/usr/bin/env python3
"""copies confirmed seeded changes from a sub-agent output dir + evaluation json into /verif/seeded/<id>/"""
import json, os, shutil, sys
out, ev, dst = sys.argv[1], sys.argv[2], '/verif/seeded'
for m in sorted(os.listdir(out)):
    d = os.path.join(out, m)
    if not os.path.exists(os.path.join(d, 'patch.diff')):
        continue
    evf = os.path.join(ev, m + '.json')
    if not os.path.exists(evf):
        continue
    try:
        e = json.load(open(evf))
    except Exception:
        continue
    meta = json.load(open(os.path.join(d, 'meta.json')))
    confirmed = e['demo_without_patch'] == 'passes' and e['suite_with_patch'].startswith('404 passed') and \
        'FAILURES' not in e['suite_with_patch'] and (e['demo_with_patch'] == 'fails' or m.startswith('C20'))
    if not confirmed:
        print('NOT CONFIRMED', m, e['demo_without_patch'][:40], e['demo_with_patch'], e['suite_with_patch'])
        continue
    t = os.path.join(dst, m)
    os.makedirs(t, exist_ok=True)
    shutil.copy(os.path.join(d, 'patch.diff'), t)
    shutil.copy(os.path.join(d, 'demo.rs'), t)
    rec = {
        'id': m, 'property': meta.get('property'), 'summary': meta.get('summary'),
        'needs_to_manifest': meta.get('needs_to_manifest'), 'files_touched': meta.get('files_touched'),
        'author': 'independent sub-agent given only the property text and a scratch worktree',
        'how_to_run_demo': meta.get('how_to_run_demo'),
        'confirmed_in_scratch_worktree': {
            'what_was_run': 'tools/eval_mutant.py: git worktree of /repo HEAD; demo.rs as tests/zz_demo_mutant.rs without the patch; git apply patch.diff; demo again; cargo test --workspace --offline; bin/check <property> with VERIF_REPO=<worktree>',
            'demo_without_patch': e['demo_without_patch'], 'demo_with_patch': e['demo_with_patch'] + (' in the dev profile (needs --release, see how_to_run_demo)' if m.startswith('C20') else ''),
            'suite_with_patch': e['suite_with_patch'],
        },
        'checks': {p: {'exit': c['exit'], 'violations': c['violations'], 'first_failed_obligation': (c['first'] or {}).get('obligation'),
                       'witness_input': (c['first'] or {}).get('input'), 'seconds': c['seconds']} for p, c in e['checks'].items()},
    }
    json.dump(rec, open(os.path.join(t, 'meta.json'), 'w'), indent=1)
    print('kept', m, {p: (c['exit'], c['violations']) for p, c in e['checks'].items()})
