#!/usr/bin/env python3
"""tools/stub_homes.py [--write] : modularity audit.

Every external_body stub that carries a contract must have that contract PROVED somewhere: in the unit that
verifies the function with its real body (its "home" unit) or by a Kani step.  A property check is only
self-contained if, for every stub used by its units, the home is part of the same check - otherwise a change
inside the callee that breaks the callee's contract would go unnoticed by that property.

--write regenerates lib/unit_needs.json ({unit: [home units it needs]}), which lib/props.py uses to close every
property's unit list.  Without --write the tool only reports and exits 1 when a property is not closed."""
import importlib, json, os, sys
VERIF = os.path.dirname(os.path.dirname(os.path.abspath(__file__)))
sys.path.insert(0, os.path.join(VERIF, 'lib')); sys.path.insert(0, os.path.join(VERIF, 'units'))
import props  # noqa: E402

PREF = ['core_kernel', 'wide', 'magnitude', 'cmp', 'add_sub', 'conv_int', 'parser', 'unops']


# stub clauses that are deliberately not part of the home contract (each is an explained assumption)
EXTRA_OK = {
    ('from_str::impl FromStr for Decimal::from_str', 'r == from_str_result(lit@)'):
        'names the result of from_str by an uninterpreted function of the input (from_str is a pure function); DESIGN section 7 (C15)',
    ('binops::cmp::impl PartialEq<Decimal> for Decimal::eq',
     'value:if valid(*self) && valid(*other) { val_cmp(*self, *other) == 0 } else { arbitrary() }'):
        'value form (needed by vstd PartialEqSpecImpl) of the home clause (valid && valid) ==> (r <==> val_cmp == 0)',
    ('binops::cmp::impl PartialOrd<Decimal> for Decimal::partial_cmp',
     'value:if valid(*self) && valid(*other) { Some(ord_of(val_cmp(*self, *other))) } else { arbitrary() }'):
        'value form (needed by vstd PartialOrdSpecImpl) of the home clause (valid && valid) ==> r == Some(ord_of(val_cmp))',
}


def _norm(e):
    return ' '.join(str(e[1] if isinstance(e, tuple) else e).split())


def contract_mismatches():
    """stub contracts must be re-statements of the home contract: every clause the stub promises is a clause
    the home unit proves (post, or ok for the D-form "returns ==> ok"), and the stub requires at least what
    the home requires."""
    U = {}
    for un, ud in props.UNITS.items():
        U[un] = getattr(importlib.import_module(ud.get('module', un)), ud.get('builder', 'build'))()
    home = {}
    for un, u in U.items():
        for k, c in u.fn_contracts.items():
            if not c.stub:
                home.setdefault(k, []).append((un, c))
    out = []
    for un, u in U.items():
        for k, c in u.fn_contracts.items():
            if not c.stub or k not in home:
                continue
            best = None
            for hn, hc in home[k]:
                proved = set(_norm(x) for x in (hc.post or [])) | set(_norm(x) for x in (hc.ok or []))
                if hc.value:
                    proved.add('value:' + ' '.join(str(hc.value).split()))
                claimed = set(_norm(x) for x in (c.post or [])) | set(_norm(x) for x in (c.ok or []))
                if c.value:
                    claimed.add('value:' + ' '.join(str(c.value).split()))
                extra = set(e for e in claimed - proved if (k, e) not in EXTRA_OK)
                weaker = set(_norm(x) for x in (hc.pre or [])) - set(_norm(x) for x in (c.pre or []))
                # a stub that promises the home's ok-clauses as postconditions (D-form) needs none of them as requires
                if not extra and not weaker:
                    best = None
                    break
                best = (un, k, hn, sorted(extra), sorted(weaker))
            if best:
                out.append(best)
    return out


def build_all():
    home, stubs = {}, {}
    for un, ud in props.UNITS.items():
        mod = importlib.import_module(ud.get('module', un))
        u = getattr(mod, ud.get('builder', 'build'))()
        for k, c in u.fn_contracts.items():
            if c.stub:
                stubs.setdefault(un, set()).add(k)
            else:
                home.setdefault(k, set()).add(un)
    return home, stubs


def main():
    home, stubs = build_all()
    needs = {}
    for un, ks in stubs.items():
        for k in sorted(ks):
            hs = home.get(k, set()) - {un}
            if k in home and un in home[k]:
                continue
            if not hs:
                if k not in props.KANI_HOMES:
                    print('NO HOME for stub %s (unit %s): its contract is an assumption' % (k, un))
                continue
            h = sorted(hs, key=lambda x: (PREF.index(x) if x in PREF else 99, x))[0]
            needs.setdefault(un, [])
            if h not in needs[un]:
                needs[un].append(h)
    if '--write' in sys.argv:
        json.dump({k: sorted(v) for k, v in sorted(needs.items())}, open(os.path.join(VERIF, 'lib', 'unit_needs.json'), 'w'), indent=1)
        print('written lib/unit_needs.json')
        return 0
    bad = 0
    for pid, sp in props.PROPS.items():
        us = set(sp['units'])
        for un in us:
            for k in stubs.get(un, ()):
                if k in props.KANI_HOMES:
                    if props.KANI_HOMES[k] not in sp.get('kani', []) + sp.get('kani_bounded', []):
                        print('%s: Kani home %s of stub %s is not a step of this check' % (pid, props.KANI_HOMES[k], k)); bad += 1
                    continue
                if not (home.get(k, set()) & us):
                    print('%s: stub %s (unit %s) has no home unit in this check (homes: %s)' % (pid, k, un, sorted(home.get(k, []))))
                    bad += 1
    for un, k, hn, extra, weaker in contract_mismatches():
        print('stub %s in unit %s differs from its home contract (%s): promises %s; home additionally requires %s' % (k, un, hn, extra, weaker))
        bad += 1
    print('not closed / inconsistent: %d' % bad)
    return 1 if bad else 0


if __name__ == '__main__':
    sys.exit(main())
