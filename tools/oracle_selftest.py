#!/usr/bin/env python3
"""Differential self-test of replay/oracle.py against the UNCHANGED real crate: every mismatch is either a
defect of /repo or an oracle bug - both must be looked at before the fallback search can be trusted."""
import sys, os, time
V = os.path.dirname(os.path.dirname(os.path.abspath(__file__)))
sys.path.insert(0, os.path.join(V, 'lib'))
import witness
seed = int(sys.argv[1]) if len(sys.argv) > 1 else 1
bad = 0
keys = sorted(set(witness.KERNEL_OPS)) + [
    "binops::add_sub::impl Add<&Decimal> for &Decimal where Decimal: Add<Decimal>::add",
    "binops::add_sub::impl<'a> Sub<Decimal> for &'a Decimal where Decimal: Sub<Decimal>::sub",
    "binops::mul::impl Mul<&Decimal> for Decimal where Decimal: Mul<Decimal>::mul",
    "binops::div::impl Div<&Decimal> for &i128::div",
    "binops::rem::impl Rem<&i64> for &Decimal::rem",
    "binops::checked_add_sub::impl CheckedAdd<&Decimal> for &Decimal::checked_add",
    "binops::checked_rem::impl CheckedRem<&Decimal> for i32::checked_rem",
    "binops::checked_div::impl CheckedDiv<&i128> for &Decimal::checked_div",
    "binops::checked_mul::impl CheckedMul<&Decimal> for u64::checked_mul",
    "binops::cmp::impl PartialOrd<Decimal> for i128::partial_cmp",
    "binops::cmp::impl PartialOrd<i8> for Decimal::partial_cmp",
    "binops::cmp::impl PartialEq<Decimal> for u64::eq",
    "binops::cmp::impl Ord for Decimal::cmp",
]
for k in keys:
    t0 = time.time()
    w = witness.search('SELFTEST', None, None, {'fn': k}, 'quick', seed, budget=40)
    print('%-50s %s (%.1fs)' % (k, 'MISMATCH %s' % w if w else 'ok', time.time() - t0))
    bad += 1 if w else 0
for pair_fn in ['powers_of_ten::', 'binops::mul_rounded::checked_mul_rounded', 'round::', 'binops::div_rounded::checked_div_rounded', 'binops::rem::rem']:
    w = witness.search('C20', None, None, {'fn': pair_fn}, 'quick', seed, profile_pair=('dev', 'release'), budget=40)
    print('%-50s %s' % ('[dev vs release] ' + pair_fn, 'MISMATCH %s' % w if w else 'ok'))
    bad += 1 if w else 0
sys.exit(1 if bad else 0)
