#!/usr/bin/env python3
"""regenerates the two generated tables of DESIGN.md in place (section 0 summary, section 13 seeded changes)"""
import os, subprocess, sys, re
V = os.path.dirname(os.path.dirname(os.path.abspath(__file__)))
out = subprocess.run([sys.executable, os.path.join(V, 'tools', 'gen_design_tables.py')], stdout=subprocess.PIPE, text=True, check=True).stdout
t1, t2 = out.split('\n\n', 1)
p = os.path.join(V, 'DESIGN.md')
s = open(p).read()


def repl(s, header_prefix, table):
    i = s.index(header_prefix)
    j = i
    lines = s[i:].split('\n')
    n = 0
    for ln in lines:
        if ln.startswith('|'):
            n += len(ln) + 1
        else:
            break
    return s[:i] + table.strip('\n') + '\n' + s[i + n:]


s = repl(s, '| id | units (home units of callee contracts included)', t1)
s = repl(s, '| seeded change | property | what it needs to manifest', t2)
open(p, 'w').write(s)
print('spliced')
