#!/usr/bin/env python3
"""tools/eval_refactor.py <dir with patch.diff/meta.json>: applies a behaviour-preserving change in a scratch
worktree and runs the checks of the properties anchored in the touched files; exit codes must not be 1."""
import json, os, subprocess, sys, tempfile, shutil, fcntl
VERIF = os.path.dirname(os.path.dirname(os.path.abspath(__file__)))
MAP = {'src/binops/add_sub.rs': ['C01', 'C17', 'C20'], 'fpdec-core/src/rounding.rs': ['C05', 'C04', 'C02', 'C03', 'C16'],
       'src/unops.rs': ['C15', 'C10'], 'src/binops/rem.rs': ['C10', 'C17'], 'src/round.rs': ['C05', 'C20'],
       'src/binops/mul.rs': ['C02', 'C17', 'C20'], 'src/binops/cmp.rs': ['C08', 'C17'], 'fpdec-core/src/parser.rs': ['C06', 'C18', 'C07'],
       'src/format.rs': ['C07', 'C11'], 'src/as_integer_ratio.rs': ['C09'], 'src/into_int.rs': ['C14'],
       'fpdec-core/src/lib.rs': ['C16', 'C02', 'C03', 'C15'], 'src/from_float.rs': ['C13'], 'src/into_float.rs': ['C12'],
       'src/binops/checked_div.rs': ['C03', 'C17'], 'src/lib.rs': ['C03', 'C13', 'C15', 'C09'], 'src/binops/div.rs': ['C03', 'C17'],
       'src/binops/div_rounded.rs': ['C04', 'C03', 'C17'], 'src/from_str.rs': ['C06', 'C18', 'C07'],
       'fpdec-core/src/powers_of_ten.rs': ['C01', 'C05', 'C08', 'C18'], 'src/binops/checked_add_sub.rs': ['C01', 'C17'],
       'src/binops/checked_mul.rs': ['C02', 'C17'], 'src/binops/mul_rounded.rs': ['C04', 'C02'], 'src/quantize.rs': ['C04'],
       'src/from_int.rs': ['C14', 'C15'], 'src/binops/checked_rem.rs': ['C10', 'C17'],
       'src/binops/mod.rs': ['C01', 'C02', 'C03', 'C10', 'C17'], 'fpdec-macros/src/lib.rs': ['C18']}
mdir = os.path.abspath(sys.argv[1])
patch = open(os.path.join(mdir, 'patch.diff')).read()
files = [l[6:].strip() for l in patch.splitlines() if l.startswith('+++ b/')]
props = []
for f in files:
    for p in MAP.get(f, []):
        if p not in props:
            props.append(p)
wt = tempfile.mkdtemp(prefix='fpdec-verif-ref.'); os.rmdir(wt)
out = {'refactoring': os.path.basename(mdir), 'files': files, 'checks': {}}
def sh(cmd, **kw):
    p = subprocess.run(cmd, stdout=subprocess.PIPE, stderr=subprocess.STDOUT, text=True, **kw)
    return p.returncode, p.stdout
try:
    with open('/tmp/fpdec-verif-worktree.lock', 'w') as lk:
        fcntl.flock(lk, fcntl.LOCK_EX)
        sh(['git', '-C', '/repo', 'worktree', 'add', '-q', wt, 'HEAD'])
    rc, o = sh(['git', 'apply', os.path.join(mdir, 'patch.diff')], cwd=wt)
    out['patch_applies'] = rc == 0
    env = dict(os.environ); env['VERIF_REPO'] = wt
    so = tempfile.mkdtemp(prefix='fpdec-verif-refout.')
    env['VERIF_SCRATCH_TARGET'] = os.path.join(so, 't')
    env['VERIF_EVIDENCE_DIR'] = os.path.join(so, 'e'); env['VERIF_REPLAY_DIR'] = os.path.join(so, 'r')
    for p in props:
        rc, o = sh([os.path.join(VERIF, 'bin', 'check'), p], cwd=VERIF, env=env)
        lines = [l[:260] for l in o.splitlines() if l.startswith(('VIOLATION', 'UNDECIDED'))]
        out['checks'][p] = {'exit': rc, 'lines': lines[:4]}
finally:
    with open('/tmp/fpdec-verif-worktree.lock', 'w') as lk:
        fcntl.flock(lk, fcntl.LOCK_EX)
        sh(['git', '-C', '/repo', 'worktree', 'remove', '--force', wt])
    shutil.rmtree(wt, ignore_errors=True)
    try:
        shutil.rmtree(so, ignore_errors=True)
    except NameError:
        pass
print(json.dumps(out, indent=1))
