#!/usr/bin/env python3
"""prints the as-built tables of DESIGN.md (section 0 summary table, section 13) from lib/props.py, evidence/ and seeded/"""
import json, os, sys
V = os.path.dirname(os.path.dirname(os.path.abspath(__file__)))
sys.path.insert(0, os.path.join(V, 'lib'))
import props
print('| id | units (home units of callee contracts included) | level | obligations (last run) | quick wall |')
print('|----|------|-------|------|------|')
for pid in sorted(props.PROPS):
    p = props.PROPS[pid]
    ev = {}
    try:
        ev = json.load(open(os.path.join(V, 'evidence', pid + '.json')))
    except Exception:
        pass
    cov = ev.get('coverage', {})
    print('| %s | %s%s | %s | %s / %s discharged | %s s |' % (pid, ', '.join(p['units']), (' + ' + ', '.join(p['kani'])) if p.get('kani') else '',
          p.get('level', 'proof'), cov.get('discharged', '?'), cov.get('obligations', '?'), ev.get('wall_s', '?')))
print()
print('| seeded change | property | what it needs to manifest | caught by | first failed obligation | concrete input found | first evaluation (before the check was strengthened) |')
print('|---|---|---|---|---|---|---|')
sd = os.path.join(V, 'seeded')
for m in sorted(os.listdir(sd)):
    mp = os.path.join(sd, m, 'meta.json')
    if not os.path.exists(mp):
        continue
    d = json.load(open(mp))
    for p, c in d['checks'].items():
        ob = c.get('first_failed_obligation') or {}
        w = c.get('witness_input')
        caught = 'bin/check %s exit %d (%d violation lines)' % (p, c['exit'], c['violations']) if c['exit'] == 1 else ('**missed** (exit %d)' % c['exit'])
        fe = (d.get('first_evaluation') or {}).get(p)
        fes = '' if not fe or fe.get('exit') == 1 else ('exit %d: %s' % (fe['exit'], '; '.join(x.replace('UNDECIDED property=%s ' % p, '') for x in (fe.get('undecided') or ['no obligation failed']))[:140])).replace('|', '/')
        print('| %s | %s | %s | %s | %s | %s | %s |' % (m, d['property'], (d.get('needs_to_manifest') or '').replace('|', '/').replace('\n', ' ')[:160],
              caught, ('%s : %s' % (ob.get('function', ob.get('kani_harness', '')), ob.get('clause') or ob.get('kind') or '')).replace('|', '/')[:110],
              ('`%s %s %s n=%s %s` → got %s' % (w['op'], w['lhs'], w['rhs'], w['n'], w['mode'], w['got'])).replace('|', '/')[:150] if w else 'no-failing-input-found', fes))
