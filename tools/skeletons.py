#!/usr/bin/env python3
"""tools/skeletons.py [--write] : control-flow skeletons of the functions under contract.

lib/skeletons.json records, for every function verified with its body, the skeleton (lib/vgen.py:skeleton) of the
text the proof scripts were written and last re-validated for.  --write regenerates the file from /repo's current
tree (to be done together with a full green run of bin/check-all); without --write the tool lists functions whose
current skeleton differs."""
import importlib, json, os, sys
VERIF = os.path.dirname(os.path.dirname(os.path.abspath(__file__)))
sys.path.insert(0, os.path.join(VERIF, 'lib')); sys.path.insert(0, os.path.join(VERIF, 'units'))
import props, runner  # noqa: E402

out = {}
sigs = {}
for un, ud in props.UNITS.items():
    mod = importlib.import_module(ud.get('module', un))
    u = getattr(mod, ud.get('builder', 'build'))()
    src = runner.load_sources(tuple(ud['sources']), tuple(ud.get('features', ())))
    with runner._GEN_LOCK:
        text, linemap, meta = u.generate(src, 'F')
    for k, m in meta.get('functions', {}).items():
        c = u.fn_contracts.get(k)
        if c is not None and c.stub:
            continue
        out.setdefault(k, m['skeleton'])
        if m.get('params') is not None:
            sigs.setdefault(k, m['params'])
f = os.path.join(VERIF, 'lib', 'skeletons.json')
if '--write' in sys.argv:
    json.dump(out, open(f, 'w'), indent=0, sort_keys=True)
    json.dump(sigs, open(os.path.join(VERIF, 'lib', 'signatures.json'), 'w'), indent=0, sort_keys=True)
    print('written %d skeletons' % len(out))
else:
    ref = json.load(open(f))
    diff = [k for k in out if ref.get(k) != out[k]]
    print('%d functions, %d differ from lib/skeletons.json' % (len(out), len(diff)))
    for k in diff[:40]:
        print('  ', k)
    sys.exit(1 if diff else 0)
