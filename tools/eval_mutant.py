#!/usr/bin/env python3
"""tools/eval_mutant.py <mutant dir> [--props C01,C17] : confirm a seeded change independently
(suite passes with it, demo fails with it / passes without it) and run the registered checks
against it (VERIF_REPO=<scratch worktree>). Prints a JSON summary; removes the worktree."""
import json, os, shutil, subprocess, sys, tempfile, time

VERIF = os.path.dirname(os.path.dirname(os.path.abspath(__file__)))


def sh(cmd, cwd=None, env=None, timeout=3600):
    p = subprocess.run(cmd, cwd=cwd, env=env, shell=isinstance(cmd, str), stdout=subprocess.PIPE, stderr=subprocess.STDOUT,
                       text=True, timeout=timeout)
    return p.returncode, p.stdout


def main():
    mdir = os.path.abspath(sys.argv[1])
    props = None
    if '--props' in sys.argv:
        props = sys.argv[sys.argv.index('--props') + 1].split(',')
    meta = json.load(open(os.path.join(mdir, 'meta.json')))
    if props is None:
        props = [meta['property']]
    wt = tempfile.mkdtemp(prefix='fpdec-verif-mut.')
    os.rmdir(wt)
    out = {'mutant': os.path.basename(mdir), 'props': props}
    try:
        import fcntl
        with open('/tmp/fpdec-verif-worktree.lock', 'w') as lk:
            fcntl.flock(lk, fcntl.LOCK_EX)
            rc, o = sh(['git', '-C', '/repo', 'worktree', 'add', '-q', wt, 'HEAD'])
        env = dict(os.environ)
        env['CARGO_TARGET_DIR'] = os.path.join(wt, 'target')
        env.pop('RUSTUP_TOOLCHAIN', None)
        demo = os.path.join(mdir, 'demo.rs')
        as_example = '#[test]' not in open(demo).read()
        if as_example:
            # the demo is a program (fn main; exit status != 0 or panic = property violated)
            feats = meta.get('features') or []
            if isinstance(feats, str):
                feats = [f for f in feats.replace(',', ' ').split() if f]
            fopt = (' --features ' + ','.join(feats)) if feats else ''
            ropt = ' --release' if meta.get('release') else ''
            ddir, dcmd = os.path.join(wt, 'examples'), 'cargo run -q --offline%s%s --example zz_demo_mutant 2>&1 | tail -25; echo EXIT=${PIPESTATUS[0]}' % (fopt, ropt)
        else:
            ddir, dcmd = os.path.join(wt, 'tests'), 'cargo test --offline --test zz_demo_mutant 2>&1 | tail -25'
        os.makedirs(ddir, exist_ok=True)
        dfile = os.path.join(ddir, 'zz_demo_mutant.rs')
        shutil.copy(demo, dfile)

        def demo_ok(o):
            if as_example:
                return 'EXIT=0' in o
            return 'test result: ok' in o and 'FAILED' not in o
        rc0, o0 = sh(['bash', '-c', dcmd], cwd=wt, env=env)
        out['demo_without_patch'] = 'passes' if demo_ok(o0) else 'DOES NOT PASS: ' + o0[-600:]
        rc, o = sh(['git', 'apply', os.path.join(mdir, 'patch.diff')], cwd=wt)
        if rc != 0:
            # the patch was written against an earlier HEAD: retry with context fuzz
            rc, o = sh('patch -p1 --fuzz=3 --no-backup-if-mismatch < %s' % os.path.join(mdir, 'patch.diff'), cwd=wt)
            out['patch_applied_with_fuzz'] = rc == 0
        out['patch_applies'] = rc == 0
        rc1, o1 = sh(['bash', '-c', dcmd], cwd=wt, env=env)
        if as_example:
            out['demo_with_patch'] = 'fails' if ('EXIT=' in o1 and 'EXIT=0' not in o1 and 'could not compile' not in o1) else 'DOES NOT FAIL'
        else:
            out['demo_with_patch'] = 'fails' if ('FAILED' in o1 or 'panicked' in o1 or 'error' in o1) and 'test result: ok' not in o1 else 'DOES NOT FAIL'
        os.unlink(dfile)
        if as_example and not os.listdir(ddir):
            os.rmdir(ddir)
        rc2, o2 = sh('cargo test --workspace --offline 2>&1 | grep -E "test result|FAILED|error\\[" ', cwd=wt, env=env)
        passed = sum(int(l.split('ok.')[1].split('passed')[0]) for l in o2.splitlines() if 'test result: ok.' in l)
        out['suite_with_patch'] = '%d passed%s' % (passed, '' if 'FAILED' not in o2 and 'error[' not in o2 else ' BUT FAILURES: ' + o2[-400:])
        shutil.rmtree(os.path.join(wt, 'target'), ignore_errors=True)
        env2 = dict(os.environ)
        env2['VERIF_REPO'] = wt
        env2['VERIF_SCRATCH_TARGET'] = scratch_t = tempfile.mkdtemp(prefix='fpdec-verif-tgt.')
        scratch_out = tempfile.mkdtemp(prefix='fpdec-verif-mutout.')
        env2['VERIF_EVIDENCE_DIR'] = os.path.join(scratch_out, 'evidence')
        env2['VERIF_REPLAY_DIR'] = os.path.join(scratch_out, 'replays')
        out['checks'] = {}
        for p in props:
            t0 = time.time()
            rc, o = sh([os.path.join(VERIF, 'bin', 'check'), p], cwd=VERIF, env=env2)
            lines = [l for l in o.splitlines() if l.startswith(('VIOLATION', 'UNDECIDED', 'KNOWN-FINDING'))]
            viol = [l for l in lines if l.startswith('VIOLATION')]
            first = None
            if viol:
                try:
                    path = viol[0].split('replay=')[1].split()[0]
                    rec = json.load(open(path))
                    first = {'obligation': rec['obligation'], 'input': rec.get('input')}
                except Exception:
                    pass
            out['checks'][p] = {'exit': rc, 'violations': len(viol), 'violations_with_input': len([l for l in viol if 'no-failing-input-found' not in l]), 'undecided': [l for l in lines if l.startswith('UNDECIDED')][:3],
                                'first': first, 'seconds': round(time.time() - t0, 1), 'summary': o.splitlines()[-1] if o else ''}
    finally:
        import fcntl
        with open('/tmp/fpdec-verif-worktree.lock', 'w') as lk:
            fcntl.flock(lk, fcntl.LOCK_EX)
            sh(['git', '-C', '/repo', 'worktree', 'remove', '--force', wt])
        shutil.rmtree(wt, ignore_errors=True)
        try:
            shutil.rmtree(scratch_out, ignore_errors=True)
        except NameError:
            pass
        try:
            shutil.rmtree(scratch_t, ignore_errors=True)
        except NameError:
            pass
    print(json.dumps(out, indent=1))


if __name__ == '__main__':
    main()
