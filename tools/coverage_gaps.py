#!/usr/bin/env python3
"""lists functions of the expanded crates that are in no unit (neither verified nor stubbed)"""
import sys, os, importlib
V = os.path.dirname(os.path.dirname(os.path.abspath(__file__)))
sys.path.insert(0, os.path.join(V, 'lib')); sys.path.insert(0, os.path.join(V, 'units'))
import props, runner, rsx
covered = set(); stubbed = set()
for un, ud in props.UNITS.items():
    src = runner.load_sources(tuple(ud['sources']), tuple(ud.get('features', ())))
    u = getattr(importlib.import_module(ud.get('module', un)), ud.get('builder', 'build'))()
    try:
        text, linemap, meta = u.generate(src, 'F')
    except Exception as ex:
        print('cannot generate', un, ex); continue
    for k in meta['functions']:
        c = u.fn_contracts.get(k)
        (stubbed if (c is not None and c.stub) else covered).add(k)
allf = {}
for srcname, feats in (('core', ()), ('fpdec', ()), ('macros', ()), ('fpdec', ('num-traits',)), ('fpdec', ('rkyv',)), ('fpdec', ('serde-as-str',))):
    idx = runner.load_sources((srcname,), feats)[srcname]
    for k, it in idx.items():
        if isinstance(it, list):
            continue
        if it.kind == 'fn' and it.body is not None:
            if any(a in k for a in ('::core::', 'automatically_derived')):
                continue
            allf.setdefault(k, (srcname, feats))
miss = sorted(k for k in allf if k not in covered and k not in stubbed)
only_stub = sorted(k for k in allf if k in stubbed and k not in covered)
print('functions with bodies in the expansions:', len(allf), ' verified with body:', len([k for k in allf if k in covered]), ' only as stub:', len(only_stub), ' in no unit:', len(miss))
print('\n-- only as stub (body never verified):'); [print('  ', k) for k in only_stub]
print('\n-- in no unit:'); [print('  ', k, allf[k]) for k in miss]
