#!/bin/bash
# re-evaluates every seeded change (seeded/*/) against the current /verif and /repo HEAD; results in $1 (default /tmp/fpdec-verif-regress)
out=${1:-/tmp/fpdec-verif-regress}; mkdir -p $out; cd /verif
ls seeded | xargs -P ${PAR:-3} -I{} sh -c "tools/eval_mutant.py seeded/{} > $out/{}.json 2>&1"
python3 - $out <<'PY'
import json,sys,os
out=sys.argv[1]; bad=0
for f in sorted(os.listdir(out)):
    try: d=json.load(open(os.path.join(out,f)))
    except Exception: print(f,'BAD OUTPUT'); bad+=1; continue
    ck={p:(c['exit'],c['violations']) for p,c in d['checks'].items()}
    caught=all(c['exit']==1 for c in d['checks'].values())
    if not caught: bad+=1
    print(d['mutant'], 'caught' if caught else 'MISSED', ck)
print('missed or bad:', bad)
PY
