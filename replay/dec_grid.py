"""Bounded sanity run for the trusted shell of the Dec! proc macro (rule R9): a fixed grid of literals is
compiled with the REAL macro and compared with Decimal::from_str of the same text (sign joined).
Not a proof: it exercises what no contract can reach (TokenStream::to_string rendering, blank removal,
quote! emission)."""
import os
import shutil
import subprocess
import tempfile

VERIF = os.path.dirname(os.path.dirname(os.path.abspath(__file__)))
REPO = os.environ.get('VERIF_REPO', '/repo')

LITS = ['0', '1', '17', '17.5', '0.5', '.5', '5.', '1.50', '00028.700', '1e3', '1E3', '1.5e2', '15e-1', '1e-18', '0.000000000000000001',
        '123456789.123456789', '1e38', '170141183460469231731687303715884105727', '17014118346046923173168730371588410572.7e1',
        '0e5', '0.0', '1e003', '0.000000000000000000000000000000000000001e25', '700004.002E13', '99999999999999999999999999999999999999',
        '1.000000000000000000', '2.5e+2', '2.5e-2', '10', '100.001']
SIGNS = ['', '-', '- ', '+', '+ ']


def run():
    """returns None (all agree) or a dict describing the first disagreement"""
    scratch = tempfile.mkdtemp(prefix='fpdec-verif-decgrid.')
    try:
        os.makedirs(os.path.join(scratch, 'src'))
        lines = []
        for l in LITS:
            for s in SIGNS:
                txt = s + l
                joined = (s.strip() + l)
                lines.append('    {{ let d: Decimal = Dec!({tok}); let f = Decimal::from_str("{j}").unwrap(); '
                             'println!("{{}}\\t{{}}\\t{{}}\\t{{}}\\t{t}", d.coefficient(), d.n_frac_digits(), f.coefficient(), f.n_frac_digits()); }}'
                             .format(tok=txt, j=joined, t=txt.replace(' ', '_')))
        open(os.path.join(scratch, 'src', 'main.rs'), 'w').write(
            'use fpdec::{Dec, Decimal};\nuse std::str::FromStr;\nfn main() {\n' + '\n'.join(lines) + '\n}\n')
        open(os.path.join(scratch, 'Cargo.toml'), 'w').write(
            '[package]\nname = "fpdec_dec_grid"\nversion = "0.0.0"\nedition = "2021"\n\n[dependencies]\nfpdec = { path = "%s" }\n\n[workspace]\n' % REPO)
        env = dict(os.environ)
        import hashlib
        env['CARGO_TARGET_DIR'] = os.path.join(VERIF, '.cache', 'decgrid-target-' + hashlib.sha1(os.path.abspath(REPO).encode()).hexdigest()[:8])
        if os.environ.get('VERIF_SCRATCH_TARGET'):
            env['CARGO_TARGET_DIR'] = os.path.join(os.environ['VERIF_SCRATCH_TARGET'], 'decgrid-target')
        env['CARGO_NET_OFFLINE'] = 'true'
        env.pop('RUSTUP_TOOLCHAIN', None)
        p = subprocess.run(['cargo', 'run', '--offline', '-q'], cwd=scratch, env=env, stdout=subprocess.PIPE, stderr=subprocess.PIPE, text=True)
        if p.returncode != 0:
            return {'op': 'dec_macro_grid', 'lhs': '-', 'rhs': '-', 'n': 0, 'mode': '-', 'prec': '-',
                    'expected': 'every literal of the grid is accepted by Dec! (all are accepted by from_str)',
                    'got': 'compile/run error: ' + p.stderr[-600:]}
        for ln in p.stdout.splitlines():
            c1, n1, c2, n2, t = ln.split('\t')
            if (c1, n1) != (c2, n2):
                return {'op': 'dec_macro_grid', 'lhs': 's:' + t.replace('_', ' ').encode().hex(), 'rhs': '-', 'n': 0, 'mode': '-', 'prec': '-',
                        'expected': 'Dec!(%s) == from_str: D:%s:%s' % (t.replace('_', ' '), c2, n2), 'got': 'D:%s:%s' % (c1, n1)}
        return None
    finally:
        shutil.rmtree(scratch, ignore_errors=True)


if __name__ == '__main__':
    print(run())
