"""Builds the replay driver against the repository under test (dev or release profile)."""
import os
import shutil
import subprocess
import sys
import tempfile

VERIF = os.path.dirname(os.path.dirname(os.path.abspath(__file__)))
REPO = os.environ.get('VERIF_REPO', '/repo')


def build(profile='dev', features=()):
    scratch = tempfile.mkdtemp(prefix='fpdec-verif-driver.')
    try:
        os.makedirs(os.path.join(scratch, 'src'))
        shutil.copy(os.path.join(VERIF, 'replay', 'driver', 'src', 'main.rs'), os.path.join(scratch, 'src', 'main.rs'))
        with open(os.path.join(scratch, 'Cargo.toml'), 'w') as f:
            f.write('[package]\nname = "fpdec_replay_driver"\nversion = "0.0.0"\nedition = "2021"\n\n'
                    '[dependencies]\nfpdec = { path = "%s" }\nrkyv = { version = "0.7", optional = true, features = ["validation", "strict"] }\nserde_json = { version = "1.0", optional = true }\nnum-traits = { version = "0.2", optional = true }\n\n'
                    '[features]\nrkyv = ["fpdec/rkyv", "dep:rkyv"]\nserde = ["fpdec/serde-as-str", "dep:serde_json"]\nnumtraits = ["fpdec/num-traits", "dep:num-traits"]\n\n[workspace]\n\n'
                    '[profile.release]\noverflow-checks = false\ndebug-assertions = false\nopt-level = 3\n' % REPO)
        lock = os.path.join(REPO, 'Cargo.lock')
        import hashlib
        target = os.path.join(VERIF, '.cache', 'replay-target-' + hashlib.sha1(os.path.abspath(REPO).encode()).hexdigest()[:8])
        if os.environ.get('VERIF_SCRATCH_TARGET'):
            # evaluation of a scratch worktree: keep the build output with the worktree so that it is removed with it
            target = os.path.join(os.environ['VERIF_SCRATCH_TARGET'], 'replay-target')
        env = dict(os.environ)
        env['CARGO_TARGET_DIR'] = target
        env['CARGO_NET_OFFLINE'] = 'true'
        env.pop('RUSTUP_TOOLCHAIN', None)
        lock = os.path.join(REPO, 'Cargo.lock')
        if os.path.exists(lock):
            shutil.copy(lock, os.path.join(scratch, 'Cargo.lock'))
        cmd = ['cargo', 'build', '--offline', '-q']
        if features:
            cmd += ['--features', ','.join(features)]
            target += '-' + '-'.join(features)
            env['CARGO_TARGET_DIR'] = target
        if profile == 'release':
            cmd.append('--release')
        p = subprocess.run(cmd, cwd=scratch, env=env, stdout=subprocess.PIPE, stderr=subprocess.PIPE, text=True)
        if p.returncode != 0:
            raise RuntimeError('driver build failed:\n' + p.stderr[-3000:])
        return os.path.join(target, 'release' if profile == 'release' else 'debug', 'fpdec_replay_driver')
    finally:
        shutil.rmtree(scratch, ignore_errors=True)


if __name__ == '__main__':
    print(build(sys.argv[1] if len(sys.argv) > 1 else 'dev'))
