"""Exact oracle for the public operations of fpdec, written from the property statements with
fractions.Fraction.  Used ONLY to find and replay concrete failing inputs after the verifier has
reported a failed obligation; it never decides a property."""
from fractions import Fraction
import math
import struct

I128_MIN = -(1 << 127)
I128_MAX = (1 << 127) - 1
MODES = ['Round05Up', 'RoundCeiling', 'RoundDown', 'RoundFloor', 'RoundHalfDown', 'RoundHalfEven', 'RoundHalfUp', 'RoundUp']
INT_RANGES = {'u8': (0, 255), 'i8': (-128, 127), 'u16': (0, 65535), 'i16': (-32768, 32767),
              'u32': (0, 2**32 - 1), 'i32': (-2**31, 2**31 - 1), 'u64': (0, 2**64 - 1), 'i64': (-2**63, 2**63 - 1),
              'i128': (I128_MIN, I128_MAX), 'u128': (0, 2**128 - 1)}


def in_i128(v):
    return I128_MIN <= v <= I128_MAX


def in_coeff(v):
    return -I128_MAX <= v <= I128_MAX


def round_frac(q, mode):
    """round the rational q to an integer under `mode` (definitions of Python's decimal constants)"""
    f = math.floor(q)
    if q == f:
        return f
    toward_zero = f if q > 0 else f + 1
    away = f + 1 if q > 0 else f
    r = q - f
    half = Fraction(1, 2)
    if mode == 'RoundCeiling':
        return f + 1
    if mode == 'RoundFloor':
        return f
    if mode == 'RoundDown':
        return toward_zero
    if mode == 'RoundUp':
        return away
    if mode in ('RoundHalfUp', 'RoundHalfDown', 'RoundHalfEven'):
        if r < half:
            return f
        if r > half:
            return f + 1
        if mode == 'RoundHalfUp':
            return away
        if mode == 'RoundHalfDown':
            return toward_zero
        return f if f % 2 == 0 else f + 1
    if mode == 'Round05Up':
        return away if toward_zero % 5 == 0 else toward_zero
    raise ValueError(mode)


class Operand:
    def __init__(self, enc):
        self.enc = enc
        p = enc.split(':')
        self.kind = p[0]
        if self.kind == 'd':
            self.c = int(p[1])
            self.n = int(p[2])
            self.val = Fraction(self.c, 10 ** self.n)
        elif self.kind in INT_RANGES:
            self.c = int(p[1])
            self.n = 0
            self.val = Fraction(self.c)
        elif self.kind == 's':
            self.s = bytes.fromhex(p[1] if len(p) > 1 else '').decode('utf-8', 'replace')
        elif self.kind in ('f64', 'f32'):
            self.bits = int(p[1])

    @property
    def is_dec(self):
        return self.kind == 'd'

    def is_one(self):
        return self.c == 10 ** self.n


def D(c, n):
    return 'D:%d:%d' % (c, n)


def strip(c, n):
    if c == 0:
        return 0, 0
    while n > 0 and c % 10 == 0:
        c //= 10
        n -= 1
    return c, n


class Expect:
    """set of acceptable outputs + human description"""

    def __init__(self, accept, desc=None, pred=None):
        self.accept = set(accept)
        self.pred = pred
        self.desc = desc or ' | '.join(sorted(self.accept))

    def ok(self, got):
        if got in self.accept:
            return True
        if self.pred is not None:
            return self.pred(got)
        return False


def fits_or_signal(c, n, signal):
    """result coefficient c at scale n; at c == i128::MIN both outcomes are accepted"""
    if in_coeff(c):
        return Expect([D(c, n)])
    if c == I128_MIN:
        return Expect([D(c, n), signal])
    return Expect([signal])


def expect(op, l, r, n, mode, prec=None):
    """returns Expect or None (no oracle for this op / operand combination)"""
    # by-reference operand forms (&a op &b, &a op b, a op &b) have the value semantics of the by-value form
    if op[-3:] in ('_rr', '_rv', '_vr'):
        op = op[:-3]
    if op in ('try_from_str', 'try_from_string', 'parse'):
        op = 'from_str'
    # feature num-traits (C15): Zero / One / Signed / Num agree with the inherent predicates and operators
    if op == 'nt_is_zero':
        return Expect(['B:%d' % (l.val == 0)])
    if op == 'nt_is_one':
        return Expect(['B:%d' % (l.val == 1)])
    if op == 'nt_abs':
        return Expect([D(abs(l.c), l.n)]) if in_i128(abs(l.c)) else Expect(['PANIC'])
    if op == 'nt_signum':
        return Expect([D(1 if l.val > 0 else -1 if l.val < 0 else 0, 0)])
    if op == 'nt_is_positive':
        return Expect(['B:%d' % (l.val > 0)])
    if op == 'nt_is_negative':
        return Expect(['B:%d' % (l.val < 0)])
    if op == 'nt_abs_sub':
        if l.val <= r.val:
            return Expect([D(0, 0)])
        return expect('sub', l, r, n, mode, prec)
    if op == 'nt_from_str_radix':
        if n != 10:
            return Expect(['ERR:Invalid'])
        return expect_from_str(l.s)
    if op in ('ne', 'lt', 'le', 'gt', 'ge'):
        import operator as _o
        f = {'ne': _o.ne, 'lt': _o.lt, 'le': _o.le, 'gt': _o.gt, 'ge': _o.ge}[op]
        return Expect(['B:%d' % (1 if f(l.val, r.val) else 0)])
    if op in ('max', 'min'):
        # Ord::max returns the second argument when the two compare equal, Ord::min the first
        if l.val == r.val:
            w = r if op == 'max' else l
        else:
            w = (l if l.val > r.val else r) if op == 'max' else (l if l.val < r.val else r)
        return Expect([D(w.c, w.n)])
    if op == 'is_negative':
        return Expect(['B:%d' % (l.val < 0)])
    if op == 'is_positive':
        return Expect(['B:%d' % (l.val > 0)])
    if op == 'numerator':
        return Expect(['I:%d' % l.val.numerator])
    if op == 'denominator':
        return Expect(['I:%d' % l.val.denominator])
    if op == 'from_u128':
        try:
            u = int(l.s)
        except Exception:
            return None
        if not (0 <= u < 2 ** 128):
            return None
        return Expect([D(u, 0)]) if u <= I128_MAX else Expect(['ERR:InternalOverflow'])
    chk = op.startswith('checked_')
    signal = 'NONE' if chk else 'PANIC'
    base = op[8:] if chk else op
    if base.endswith('_assign'):
        base = base[:-7]
    if base in ('add', 'sub'):
        m = max(l.n, r.n)
        a = l.c * 10 ** (m - l.n)
        b = r.c * 10 ** (m - r.n)
        res = a + b if base == 'add' else a - b
        if in_i128(a) and in_i128(b) and in_i128(res):
            return Expect([D(res, m)])
        return Expect([signal])
    if base == 'mul' and op != 'checked_mul':
        if l.is_dec and r.is_dec:
            if l.c == 0 or r.c == 0:
                return Expect([D(0, 0)])
            acc = []
            if r.is_one():
                acc.append(D(l.c, l.n))
            if l.is_one():
                acc.append(D(r.c, r.n))
            if acc:
                return Expect(acc)
            pq = l.n + r.n
            if pq <= 18:
                return fits_or_signal(l.c * r.c, pq, signal)
            return fits_or_signal(round_frac(Fraction(l.c * r.c, 10 ** (pq - 18)), mode), 18, signal)
        res = l.c * r.c
        return Expect([D(res, l.n + r.n)]) if in_i128(res) else Expect([signal])
    if op == 'checked_mul':
        if l.is_dec and r.is_dec:
            if l.c == 0 or r.c == 0:
                return Expect([D(0, 0)])
            acc = []
            if r.is_one():
                acc.append(D(l.c, l.n))
            if l.is_one():
                acc.append(D(r.c, r.n))
            if acc:
                return Expect(acc)
            if l.n + r.n > 18 or not in_i128(l.c * r.c):
                return Expect(['NONE'])
            return Expect([D(l.c * r.c, l.n + r.n)])
        res = l.c * r.c
        return Expect([D(res, l.n + r.n)]) if in_i128(res) else Expect(['NONE'])
    if base == 'div':
        if r.c == 0:
            return Expect([signal])
        if l.c == 0:
            return Expect([D(0, 0)])
        if r.is_one():
            return Expect([D(l.c, l.n)])
        c = round_frac(l.val / r.val * 10 ** 18, mode)
        if in_coeff(c) or c == I128_MIN:
            sc, sn = strip(c, 18)
            e = Expect([D(sc, sn)])
            if c == I128_MIN:
                e.accept.add(signal)
            return e
        return Expect([signal])
    if op == 'div_rounded':
        if n > 18 and not l.is_dec and not r.is_dec:
            return None       # known finding D4b (int/int, n > 18): excluded from witness search, reported by its own obligations
        if n > 18:
            return Expect(['PANIC'])
        if r.c == 0:
            return Expect(['PANIC'])
        if l.c == 0:
            return Expect([D(0, 0)])
        return fits_or_signal(round_frac(l.val / r.val * 10 ** n, mode), n, 'PANIC')
    if op == 'mul_rounded':
        if n > 18:
            return Expect(['PANIC'])
        if l.c == 0 or r.c == 0:
            return Expect([D(0, 0)])
        pq = l.n + r.n
        if n >= pq:
            return fits_or_signal(l.c * r.c, pq, 'PANIC')
        return fits_or_signal(round_frac(l.val * r.val * 10 ** n, mode), n, 'PANIC')
    if base == 'rem':
        if r.c == 0:
            return Expect([signal])
        q = l.val / r.val
        t = math.floor(q) if q >= 0 else math.ceil(q)
        rem = l.val - r.val * t
        m = max(l.n, r.n)

        def pred(got, rem=rem, m=m):
            if not got.startswith('D:'):
                return False
            _, c, k = got.split(':')
            return int(k) <= m and int(k) <= 18 and Fraction(int(c), 10 ** int(k)) == rem
        may_fail = l.n < r.n and not in_i128(l.c * 10 ** (r.n - l.n))
        return Expect([signal] if may_fail else [], desc='exact remainder %s at scale <= %d%s' % (rem, m, ' or overflow signal' if may_fail else ''), pred=pred)
    if op in ('round', 'checked_round'):
        sig = 'NONE' if op == 'checked_round' else 'PANIC'
        if n >= l.n:
            return Expect([D(l.c, l.n)])
        q = round_frac(l.val * Fraction(10) ** n, mode)
        if n >= 0:
            return Expect([D(q, n)]) if in_i128(q) else Expect([sig])
        c = q * 10 ** (-n)
        return Expect([D(c, 0)]) if in_i128(c) else Expect([sig])
    if op in ('rkyv_eq', 'rkyv_eq_dec', 'rkyv_dec_eq'):
        return Expect(['B:%d' % (1 if l.val == r.val else 0)])
    if op in ('rkyv_partial_cmp', 'rkyv_cmp', 'rkyv_partial_cmp_dec', 'rkyv_dec_partial_cmp'):
        return Expect(['ORD:%d' % ((l.val > r.val) - (l.val < r.val))])
    if op == 'serde_to_json':
        return Expect(['S:' + ('"' + canonical(l.c, l.n) + '"').encode().hex()])
    if op == 'serde_roundtrip':
        return Expect([D(l.c, l.n)])
    if op == 'rkyv_roundtrip':
        return Expect([D(l.c, l.n)])
    if op == 'eq':
        return Expect(['B:%d' % (1 if l.val == r.val else 0)])
    if op in ('partial_cmp', 'cmp'):
        return Expect(['ORD:%d' % ((l.val > r.val) - (l.val < r.val))])
    if op == 'neg':
        return Expect([D(-l.c, l.n)])
    if op == 'abs':
        return Expect([D(abs(l.c), l.n)])
    if op == 'floor':
        return Expect([D(math.floor(l.val), 0)])
    if op == 'ceil':
        return Expect([D(math.ceil(l.val), 0)])
    if op == 'trunc':
        return Expect([D(math.floor(l.val) if l.val >= 0 else math.ceil(l.val), 0)])
    if op == 'fract':
        t = math.floor(l.val) if l.val >= 0 else math.ceil(l.val)
        fr = l.val - t
        if l.n == 0:
            return Expect([D(0, 0)])
        return Expect([D(int(fr * 10 ** l.n), l.n)])
    if op == 'magnitude':
        if l.c == 0:
            return Expect(['I:0'])
        return Expect(['I:%d' % (len(str(abs(l.c))) - 1 - l.n)])
    if op == 'eq_zero':
        return Expect(['B:%d' % (l.c == 0)])
    if op == 'eq_one':
        return Expect(['B:%d' % (l.val == 1)])
    if op == 'hash_is_ratio_hash':
        return Expect(['B:1'])
    if op == 'ratio':
        return Expect(['T:%d:%d' % (l.val.numerator, l.val.denominator)])
    if op in ('to_string', 'string_from', 'debug'):
        s = canonical(l.c, l.n)
        if op == 'debug':
            s = 'Dec!(' + s + ')'
        return Expect(['S:' + s.encode().hex()])
    if op == 'format':
        p = l.n if prec is None else min(prec, 18)
        if p >= l.n:
            c = abs(l.c) * 10 ** (p - l.n)
        else:
            c = abs(round_frac(l.val * 10 ** p, mode))
        s = ('-' if l.c < 0 else '') + canonical(c, p)
        return Expect(['S:' + s.encode().hex()])
    if op == 'from_int':
        return Expect([D(l.c, 0)])
    if op == 'into_int':
        t = r.s
        lo, hi = INT_RANGES[t]
        if l.val.denominator != 1:
            return Expect(['ERR:NotAnIntValue'])
        v = l.val.numerator
        return Expect(['I:%d' % v]) if lo <= v <= hi else Expect(['ERR:ValueOutOfRange'])
    if op == 'from_str':
        return expect_from_str(l.s)
    if op == 'try_from_float':
        return expect_from_float(l)
    if op in ('into_f64', 'into_f32'):
        x = float(l.val)     # Fraction -> float is correctly rounded (ties to even)
        if op == 'into_f64':
            bits = struct.unpack('<Q', struct.pack('<d', x))[0]
        else:
            bits = f32_bits_rne(l.val)
        if l.c == 0:
            bits = 0
        return Expect(['F:%d' % bits])
    return None


def canonical(c, n):
    s = '-' if c < 0 else ''
    a = abs(c)
    ip, fp = divmod(a, 10 ** n)
    s += str(ip)
    if n > 0:
        s += '.' + str(fp).rjust(n, '0')
    return s


def f32_bits_rne(q):
    sign = 1 if q < 0 else 0
    a = abs(q)
    if a == 0:
        return 0
    e = 0
    # find e with 2^23 <= a / 2^e < 2^24
    num, den = a.numerator, a.denominator
    e = num.bit_length() - den.bit_length() - 24
    while Fraction(num, den) / Fraction(2) ** e >= 2 ** 24:
        e += 1
    while Fraction(num, den) / Fraction(2) ** e < 2 ** 23:
        e -= 1
    m = round_frac(a / Fraction(2) ** e, 'RoundHalfEven')
    if m == 2 ** 24:
        m = 2 ** 23
        e += 1
    return (sign << 31) | ((e + 23 + 127) << 23) | (m - 2 ** 23)


def parse_literal(s):
    """grammar of C06: [+|-](digits[.digits*] | .digits)[(e|E)[+|-]digits] -> (sign, int digits, frac digits, exp) or None"""
    i = 0
    n = len(s)
    sign = 1
    if i < n and s[i] in '+-':
        sign = -1 if s[i] == '-' else 1
        i += 1
    j = i
    while j < n and s[j] in '0123456789':
        j += 1
    ip = s[i:j]
    fp = ''
    had_point = False
    if j < n and s[j] == '.':
        had_point = True
        k = j + 1
        while k < n and s[k] in '0123456789':
            k += 1
        fp = s[j + 1:k]
        j = k
    if ip == '' and fp == '':
        return None
    exp = 0
    if j < n and s[j] in 'eE':
        k = j + 1
        es = 1
        if k < n and s[k] in '+-':
            es = -1 if s[k] == '-' else 1
            k += 1
        m = k
        while m < n and s[m] in '0123456789':
            m += 1
        if m == k:
            return None
        exp = es * int(s[k:m])
        j = m
    if j != n:
        return None
    return sign, ip, fp, exp


def expect_from_str(s):
    if s == '':
        return Expect(['ERR:Empty'])

    def is_err_not_empty(got):
        return got.startswith('ERR:') and got != 'ERR:Empty'
    lit = parse_literal(s) if s.isascii() else None
    if lit is None:
        return Expect([], desc='Err(kind != Empty)', pred=is_err_not_empty)
    sign, ip, fp, exp = lit
    digits = int((ip + fp) or '0')
    coeff = sign * digits
    nfrac = len(fp) - exp
    if nfrac > 18 and digits != 0:
        return Expect([], desc='Err (more than 18 fractional digits)', pred=is_err_not_empty)
    if nfrac > 18 and digits == 0:
        # value 0 with an over-long fraction: the statement demands <= 18 fractional digits after the exponent
        return Expect([], desc='Err (more than 18 fractional digits)', pred=is_err_not_empty)
    if nfrac < 0:
        if digits == 0:
            coeff = 0
        elif -nfrac > 40:
            return Expect([], desc='Err (coefficient beyond +-(2^127-1))', pred=is_err_not_empty)
        else:
            coeff = coeff * 10 ** (-nfrac)
        nfrac = 0
    if not in_coeff(coeff):
        return Expect([], desc='Err (coefficient beyond +-(2^127-1))', pred=is_err_not_empty)
    return Expect([D(coeff, nfrac)])


def expect_from_float(l):
    if l.kind == 'f64':
        b = l.bits
        sign = b >> 63
        be = (b >> 52) & 0x7ff
        fr = b & ((1 << 52) - 1)
        if be == 0x7ff:
            return Expect(['ERR:InfiniteValue' if fr == 0 else 'ERR:NotANumber'])
        m, e = (fr, -1074) if be == 0 else (fr | (1 << 52), be - 1075)
    else:
        b = l.bits
        sign = b >> 31
        be = (b >> 23) & 0xff
        fr = b & ((1 << 23) - 1)
        if be == 0xff:
            return Expect(['ERR:InfiniteValue' if fr == 0 else 'ERR:NotANumber'])
        m, e = (fr, -149) if be == 0 else (fr | (1 << 23), be - 150)
    v = Fraction(m) * Fraction(2) ** e * (-1 if sign else 1)
    c = round_frac(v * 10 ** 18, 'RoundHalfEven')
    sc, sn = strip(c, 18)
    if in_i128(sc):
        return Expect([D(sc, sn)])
    return Expect(['ERR:InternalOverflow'])
