//! Replay driver: one public operation of the real crate per input line.
//! line:  op \t lhs \t rhs \t n \t mode          (fields may be "-")
//! operands:  d:<coeff>:<n_frac>  |  u8:<v> .. i128:<v>  |  s:<hex utf8>  |  f64:<bits>  |  f32:<bits>
//! output: D:<coeff>:<n> | NONE | PANIC | ORD:<-1|0|1> | B:<0|1> | S:<hex> | ERR:<kind> | I:<v> | F:<bits> | T:<a>:<b>
use fpdec::*;
use std::cmp::Ordering;
use std::io::{self, BufRead, Write};
use std::panic::{catch_unwind, AssertUnwindSafe};
use std::str::FromStr;

#[derive(Clone, Debug)]
enum V { D(Decimal), U8(u8), I8(i8), U16(u16), I16(i16), U32(u32), I32(i32), U64(u64), I64(i64), I128(i128), S(String), F64(f64), F32(f32), Nil }

fn unhex(s: &str) -> String {
    let b: Vec<u8> = (0..s.len() / 2).map(|i| u8::from_str_radix(&s[2 * i..2 * i + 2], 16).unwrap()).collect();
    String::from_utf8_lossy(&b).into_owned()
}
fn hex(s: &str) -> String { s.bytes().map(|b| format!("{:02x}", b)).collect() }

fn parse(s: &str) -> V {
    let p: Vec<&str> = s.split(':').collect();
    match p[0] {
        "d" => V::D(Decimal::new_raw(p[1].parse().unwrap(), p[2].parse().unwrap())),
        "u8" => V::U8(p[1].parse().unwrap()), "i8" => V::I8(p[1].parse().unwrap()),
        "u16" => V::U16(p[1].parse().unwrap()), "i16" => V::I16(p[1].parse().unwrap()),
        "u32" => V::U32(p[1].parse().unwrap()), "i32" => V::I32(p[1].parse().unwrap()),
        "u64" => V::U64(p[1].parse().unwrap()), "i64" => V::I64(p[1].parse().unwrap()),
        "i128" => V::I128(p[1].parse().unwrap()),
        "s" => V::S(unhex(p.get(1).unwrap_or(&""))),
        "f64" => V::F64(f64::from_bits(p[1].parse().unwrap())),
        "f32" => V::F32(f32::from_bits(p[1].parse().unwrap())),
        _ => V::Nil,
    }
}
fn mode(s: &str) -> RoundingMode {
    match s {
        "Round05Up" => RoundingMode::Round05Up, "RoundCeiling" => RoundingMode::RoundCeiling,
        "RoundDown" => RoundingMode::RoundDown, "RoundFloor" => RoundingMode::RoundFloor,
        "RoundHalfDown" => RoundingMode::RoundHalfDown, "RoundHalfUp" => RoundingMode::RoundHalfUp,
        "RoundUp" => RoundingMode::RoundUp, _ => RoundingMode::RoundHalfEven,
    }
}
fn d(x: Decimal) -> String { format!("D:{}:{}", x.coefficient(), x.n_frac_digits()) }
fn od(x: Option<Decimal>) -> String { match x { Some(v) => d(v), None => "NONE".into() } }
fn ord(o: Option<Ordering>) -> String {
    match o { Some(Ordering::Less) => "ORD:-1".into(), Some(Ordering::Equal) => "ORD:0".into(), Some(Ordering::Greater) => "ORD:1".into(), None => "NONE".into() }
}

// binary operations over every (Decimal, int) / (int, Decimal) / (Decimal, Decimal) combination
macro_rules! with_int { ($v:expr, $i:ident => $e:expr, $other:expr) => { match $v {
    V::U8($i) => $e, V::I8($i) => $e, V::U16($i) => $e, V::I16($i) => $e, V::U32($i) => $e,
    V::I32($i) => $e, V::U64($i) => $e, V::I64($i) => $e, V::I128($i) => $e, _ => $other } } }
macro_rules! binop { ($l:expr, $r:expr, |$a:ident, $b:ident| $e:expr) => { match ($l.clone(), $r.clone()) {
    (V::D($a), V::D($b)) => $e,
    (V::D($a), rv) => with_int!(rv, $b => $e, "BADARG".to_string()),
    (lv, V::D($b)) => with_int!(lv, $a => $e, "BADARG".to_string()),
    _ => "BADARG".to_string() } } }
macro_rules! intint { ($l:expr, $r:expr, |$a:ident, $b:ident| $e:expr) => { match ($l.clone(), $r.clone()) {
    (V::U8($a), V::U8($b)) => $e, (V::I8($a), V::I8($b)) => $e, (V::U16($a), V::U16($b)) => $e, (V::I16($a), V::I16($b)) => $e,
    (V::U32($a), V::U32($b)) => $e, (V::I32($a), V::I32($b)) => $e, (V::U64($a), V::U64($b)) => $e, (V::I64($a), V::I64($b)) => $e,
    (V::I128($a), V::I128($b)) => $e, _ => "BADARG".to_string() } } }

#[cfg(feature = "rkyv")]
fn rk(op: &str, a: Decimal, b: Decimal) -> String {
    use rkyv::Deserialize;
    let ba = rkyv::to_bytes::<_, 256>(&a).unwrap();
    let bb = rkyv::to_bytes::<_, 256>(&b).unwrap();
    let aa = rkyv::check_archived_root::<Decimal>(&ba[..]).unwrap();
    let ab = rkyv::check_archived_root::<Decimal>(&bb[..]).unwrap();
    match op {
        "rkyv_eq" => format!("B:{}", (aa == ab) as u8),
        "rkyv_eq_dec" => format!("B:{}", (*aa == b) as u8),
        "rkyv_dec_eq" => format!("B:{}", (a == *ab) as u8),
        "rkyv_partial_cmp" => ord(aa.partial_cmp(ab)),
        "rkyv_cmp" => ord(Some(aa.cmp(ab))),
        "rkyv_partial_cmp_dec" => ord(aa.partial_cmp(&b)),
        "rkyv_dec_partial_cmp" => ord(a.partial_cmp(ab)),
        "rkyv_roundtrip" => { let x: Decimal = aa.deserialize(&mut rkyv::Infallible).unwrap(); d(x) }
        _ => "BADOP".into(),
    }
}
#[cfg(not(feature = "rkyv"))]
fn rk(_op: &str, _a: Decimal, _b: Decimal) -> String { "BADOP".into() }

#[cfg(feature = "numtraits")]
fn nt(op: &str, a: Decimal, b: Decimal, s: &str, n: i32) -> String {
    use num_traits::{Num, One, Signed, Zero};
    match op {
        "nt_is_zero" => format!("B:{}", Zero::is_zero(&a) as u8),
        "nt_is_one" => format!("B:{}", One::is_one(&a) as u8),
        "nt_zero" => d(<Decimal as Zero>::zero()),
        "nt_one" => d(<Decimal as One>::one()),
        "nt_abs" => d(Signed::abs(&a)),
        "nt_signum" => d(Signed::signum(&a)),
        "nt_is_positive" => format!("B:{}", Signed::is_positive(&a) as u8),
        "nt_is_negative" => format!("B:{}", Signed::is_negative(&a) as u8),
        "nt_abs_sub" => d(Signed::abs_sub(&a, &b)),
        "nt_from_str_radix" => match <Decimal as Num>::from_str_radix(s, n as u32) { Ok(v) => d(v), Err(e) => format!("ERR:{:?}", e) },
        _ => "BADOP".into(),
    }
}
#[cfg(not(feature = "numtraits"))]
fn nt(_op: &str, _a: Decimal, _b: Decimal, _s: &str, _n: i32) -> String { "BADOP".into() }

#[cfg(feature = "serde")]
fn sd(op: &str, a: Decimal) -> String {
    match op {
        "serde_to_json" => match serde_json::to_string(&a) { Ok(s) => format!("S:{}", hex(&s)), Err(_) => "ERR:ser".into() },
        "serde_roundtrip" => match serde_json::to_string(&a) {
            Ok(s) => match serde_json::from_str::<Decimal>(&s) { Ok(v) => d(v), Err(_) => "ERR:de".into() },
            Err(_) => "ERR:ser".into() },
        _ => "BADOP".into(),
    }
}
#[cfg(not(feature = "serde"))]
fn sd(_op: &str, _a: Decimal) -> String { "BADOP".into() }

fn run(op: &str, l: &V, r: &V, n: i32, prec: Option<usize>) -> String {
    if op.starts_with("serde_") {
        return match l { V::D(a) => sd(op, *a), _ => "BADARG".into() };
    }
    if op.starts_with("rkyv_") {
        return match (l, r) {
            (V::D(a), V::D(b)) => rk(op, *a, *b),
            (V::D(a), _) => rk(op, *a, *a),
            _ => "BADARG".into() };
    }
    match op {
        "add_rr" => binop!(l, r, |a, b| d(&a + &b)),
        "add_rv" => binop!(l, r, |a, b| d(&a + b)),
        "add_vr" => binop!(l, r, |a, b| d(a + &b)),
        "sub_rr" => binop!(l, r, |a, b| d(&a - &b)),
        "sub_rv" => binop!(l, r, |a, b| d(&a - b)),
        "sub_vr" => binop!(l, r, |a, b| d(a - &b)),
        "mul_rr" => binop!(l, r, |a, b| d(&a * &b)),
        "mul_rv" => binop!(l, r, |a, b| d(&a * b)),
        "mul_vr" => binop!(l, r, |a, b| d(a * &b)),
        "div_rr" => binop!(l, r, |a, b| d(&a / &b)),
        "div_rv" => binop!(l, r, |a, b| d(&a / b)),
        "div_vr" => binop!(l, r, |a, b| d(a / &b)),
        "rem_rr" => binop!(l, r, |a, b| d(&a % &b)),
        "rem_rv" => binop!(l, r, |a, b| d(&a % b)),
        "rem_vr" => binop!(l, r, |a, b| d(a % &b)),
        "checked_add_rr" => binop!(l, r, |a, b| od(CheckedAdd::checked_add(&a, &b))),
        "checked_add_rv" => binop!(l, r, |a, b| od(CheckedAdd::checked_add(&a, b))),
        "checked_add_vr" => binop!(l, r, |a, b| od(CheckedAdd::checked_add(a, &b))),
        "checked_sub_rr" => binop!(l, r, |a, b| od(CheckedSub::checked_sub(&a, &b))),
        "checked_sub_rv" => binop!(l, r, |a, b| od(CheckedSub::checked_sub(&a, b))),
        "checked_sub_vr" => binop!(l, r, |a, b| od(CheckedSub::checked_sub(a, &b))),
        "checked_mul_rr" => binop!(l, r, |a, b| od(CheckedMul::checked_mul(&a, &b))),
        "checked_mul_rv" => binop!(l, r, |a, b| od(CheckedMul::checked_mul(&a, b))),
        "checked_mul_vr" => binop!(l, r, |a, b| od(CheckedMul::checked_mul(a, &b))),
        "checked_div_rr" => binop!(l, r, |a, b| od(CheckedDiv::checked_div(&a, &b))),
        "checked_div_rv" => binop!(l, r, |a, b| od(CheckedDiv::checked_div(&a, b))),
        "checked_div_vr" => binop!(l, r, |a, b| od(CheckedDiv::checked_div(a, &b))),
        "checked_rem_rr" => binop!(l, r, |a, b| od(CheckedRem::checked_rem(&a, &b))),
        "checked_rem_rv" => binop!(l, r, |a, b| od(CheckedRem::checked_rem(&a, b))),
        "checked_rem_vr" => binop!(l, r, |a, b| od(CheckedRem::checked_rem(a, &b))),
        "eq_rr" => binop!(l, r, |a, b| format!("B:{}", (&a == &b) as u8)),
        "ne" => binop!(l, r, |a, b| format!("B:{}", (a != b) as u8)),
        "lt" => binop!(l, r, |a, b| format!("B:{}", (a < b) as u8)),
        "le" => binop!(l, r, |a, b| format!("B:{}", (a <= b) as u8)),
        "gt" => binop!(l, r, |a, b| format!("B:{}", (a > b) as u8)),
        "ge" => binop!(l, r, |a, b| format!("B:{}", (a >= b) as u8)),
        "max" => match (l, r) { (V::D(a), V::D(b)) => d(core::cmp::max(*a, *b)), _ => "BADARG".into() },
        "min" => match (l, r) { (V::D(a), V::D(b)) => d(core::cmp::min(*a, *b)), _ => "BADARG".into() },
        "is_negative" => match l { V::D(a) => format!("B:{}", a.is_negative() as u8), _ => "BADARG".into() },
        "is_positive" => match l { V::D(a) => format!("B:{}", a.is_positive() as u8), _ => "BADARG".into() },
        "numerator" => match l { V::D(a) => format!("I:{}", a.numerator()), _ => "BADARG".into() },
        "denominator" => match l { V::D(a) => format!("I:{}", a.denominator()), _ => "BADARG".into() },
        "try_from_str" => match l { V::S(s) => match Decimal::try_from(s.as_str()) { Ok(v) => d(v), Err(e) => format!("ERR:{:?}", e) }, _ => "BADARG".into() },
        "try_from_string" => match l { V::S(s) => match Decimal::try_from(s.clone()) { Ok(v) => d(v), Err(e) => format!("ERR:{:?}", e) }, _ => "BADARG".into() },
        "parse" => match l { V::S(s) => match s.parse::<Decimal>() { Ok(v) => d(v), Err(e) => format!("ERR:{:?}", e) }, _ => "BADARG".into() },
        "from_u128" => match l { V::S(s) => match s.parse::<u128>() { Ok(u) => match Decimal::try_from(u) { Ok(v) => d(v), Err(e) => format!("ERR:{:?}", e) }, Err(_) => "BADARG".into() }, _ => "BADARG".into() },
        o if o.starts_with("nt_") => {
            let a = match l { V::D(a) => *a, _ => Decimal::ZERO };
            let b = match r { V::D(b) => *b, _ => Decimal::ZERO };
            let s = match l { V::S(s) => s.clone(), _ => String::new() };
            nt(o, a, b, &s, n)
        }
        "add" => binop!(l, r, |a, b| d(a + b)),
        "sub" => binop!(l, r, |a, b| d(a - b)),
        "mul" => binop!(l, r, |a, b| d(a * b)),
        "div" => binop!(l, r, |a, b| d(a / b)),
        "rem" => binop!(l, r, |a, b| d(a % b)),
        "add_assign" => match (l, r) { (V::D(a), rv) => { let mut x = *a; match rv.clone() { V::D(b) => x += b, o => with_int!(o, b => x += b, ()) }; d(x) } _ => "BADARG".into() },
        "sub_assign" => match (l, r) { (V::D(a), rv) => { let mut x = *a; match rv.clone() { V::D(b) => x -= b, o => with_int!(o, b => x -= b, ()) }; d(x) } _ => "BADARG".into() },
        "mul_assign" => match (l, r) { (V::D(a), rv) => { let mut x = *a; match rv.clone() { V::D(b) => x *= b, o => with_int!(o, b => x *= b, ()) }; d(x) } _ => "BADARG".into() },
        "div_assign" => match (l, r) { (V::D(a), rv) => { let mut x = *a; match rv.clone() { V::D(b) => x /= b, o => with_int!(o, b => x /= b, ()) }; d(x) } _ => "BADARG".into() },
        "rem_assign" => match (l, r) { (V::D(a), rv) => { let mut x = *a; match rv.clone() { V::D(b) => x %= b, o => with_int!(o, b => x %= b, ()) }; d(x) } _ => "BADARG".into() },
        "checked_add" => binop!(l, r, |a, b| od(CheckedAdd::checked_add(a, b))),
        "checked_sub" => binop!(l, r, |a, b| od(CheckedSub::checked_sub(a, b))),
        "checked_mul" => binop!(l, r, |a, b| od(CheckedMul::checked_mul(a, b))),
        "checked_div" => binop!(l, r, |a, b| od(CheckedDiv::checked_div(a, b))),
        "checked_rem" => binop!(l, r, |a, b| od(CheckedRem::checked_rem(a, b))),
        "div_rounded" => match (l, r) {
            (V::D(_), _) | (_, V::D(_)) => binop!(l, r, |a, b| d(DivRounded::div_rounded(a, b, n as u8))),
            _ => intint!(l, r, |a, b| d(DivRounded::div_rounded(a, b, n as u8))) },
        "mul_rounded" => match (l, r) { (V::D(a), V::D(b)) => d(a.mul_rounded(*b, n as u8)), _ => "BADARG".into() },
        "quantize" => match (l, r) {
            (V::D(_), _) | (_, V::D(_)) => binop!(l, r, |a, b| d(Quantize::quantize(a, b))),
            _ => intint!(l, r, |a, b| d(Quantize::quantize(a, b))) },
        "eq" => binop!(l, r, |a, b| format!("B:{}", (a == b) as u8)),
        "partial_cmp" => binop!(l, r, |a, b| ord(a.partial_cmp(&b))),
        "cmp" => match (l, r) { (V::D(a), V::D(b)) => ord(Some(a.cmp(b))), _ => "BADARG".into() },
        "round" => match l { V::D(a) => d(a.round(n as i8)), _ => "BADARG".into() },
        "checked_round" => match l { V::D(a) => od(a.checked_round(n as i8)), _ => "BADARG".into() },
        "neg" => match l { V::D(a) => d(-*a), _ => "BADARG".into() },
        "abs" => match l { V::D(a) => d(a.abs()), _ => "BADARG".into() },
        "floor" => match l { V::D(a) => d(a.floor()), _ => "BADARG".into() },
        "ceil" => match l { V::D(a) => d(a.ceil()), _ => "BADARG".into() },
        "trunc" => match l { V::D(a) => d(a.trunc()), _ => "BADARG".into() },
        "fract" => match l { V::D(a) => d(a.fract()), _ => "BADARG".into() },
        "magnitude" => match l { V::D(a) => format!("I:{}", a.magnitude()), _ => "BADARG".into() },
        "eq_zero" => match l { V::D(a) => format!("B:{}", a.eq_zero() as u8), _ => "BADARG".into() },
        "eq_one" => match l { V::D(a) => format!("B:{}", a.eq_one() as u8), _ => "BADARG".into() },
        "hash_is_ratio_hash" => match l { V::D(a) => {
            use std::collections::hash_map::DefaultHasher;
            use std::hash::{Hash, Hasher};
            let mut h1 = DefaultHasher::new(); a.hash(&mut h1);
            let mut h2 = DefaultHasher::new(); a.as_integer_ratio().hash(&mut h2);
            format!("B:{}", (h1.finish() == h2.finish()) as u8) } _ => "BADARG".into() },
        "ratio" => match l { V::D(a) => { let (x, y) = a.as_integer_ratio(); format!("T:{}:{}", x, y) } _ => "BADARG".into() },
        "from_str" => match l { V::S(s) => match Decimal::from_str(s) { Ok(v) => d(v), Err(e) => format!("ERR:{:?}", e) }, _ => "BADARG".into() },
        "to_string" => match l { V::D(a) => format!("S:{}", hex(&a.to_string())), _ => "BADARG".into() },
        "string_from" => match l { V::D(a) => format!("S:{}", hex(&String::from(*a))), _ => "BADARG".into() },
        "debug" => match l { V::D(a) => format!("S:{}", hex(&format!("{:?}", a))), _ => "BADARG".into() },
        "format" => match l { V::D(a) => match prec { Some(p) => format!("S:{}", hex(&format!("{:.*}", p, a))), None => format!("S:{}", hex(&format!("{}", a))) }, _ => "BADARG".into() },
        "from_int" => with_int!(l.clone(), a => d(Decimal::from(a)), "BADARG".to_string()),
        "try_from_float" => match l {
            V::F64(f) => match Decimal::try_from(*f) { Ok(v) => d(v), Err(e) => format!("ERR:{:?}", e) },
            V::F32(f) => match Decimal::try_from(*f) { Ok(v) => d(v), Err(e) => format!("ERR:{:?}", e) },
            _ => "BADARG".into() },
        "into_f64" => match l { V::D(a) => format!("F:{}", f64::from(*a).to_bits()), _ => "BADARG".into() },
        "into_f32" => match l { V::D(a) => format!("F:{}", f32::from(*a).to_bits()), _ => "BADARG".into() },
        "into_int" => match (l, r) { (V::D(a), V::S(t)) => {
            macro_rules! ti { ($t:ty) => { match <$t>::try_from(*a) { Ok(v) => format!("I:{}", v), Err(e) => format!("ERR:{:?}", e) } } }
            match t.as_str() { "u8" => ti!(u8), "i8" => ti!(i8), "u16" => ti!(u16), "i16" => ti!(i16), "u32" => ti!(u32), "i32" => ti!(i32),
                "u64" => ti!(u64), "i64" => ti!(i64), "i128" => ti!(i128), "u128" => ti!(u128), _ => "BADARG".into() } } _ => "BADARG".into() },
        _ => "BADOP".into(),
    }
}

fn main() {
    std::panic::set_hook(Box::new(|_| {}));
    let stdin = io::stdin();
    let out = io::stdout();
    for line in stdin.lock().lines() {
        let line = line.unwrap();
        let f: Vec<&str> = line.split('\t').collect();
        if f.len() < 5 { continue; }
        let (op, l, r) = (f[0], parse(f[1]), parse(f[2]));
        let n: i32 = f[3].parse().unwrap_or(0);
        let prec: Option<usize> = if f.len() > 5 { f[5].parse().ok() } else { None };
        let m = mode(f[4]);
        let res = catch_unwind(AssertUnwindSafe(|| { RoundingMode::set_default(m); run(op, &l, &r, n, prec) }));
        let mut o = out.lock();
        match res { Ok(s) => writeln!(o, "{}", s).unwrap(), Err(_) => writeln!(o, "PANIC").unwrap() }
    }
}
