#!/usr/bin/env python3
"""C15 (magnitude chain): independent Kani cross-check of the two branch-free bit tricks
`less_than_5` and `u8` (fpdec-core/src/lib.rs, copied there from core's int_log10.rs) on their
full input domains.  The Verus unit `magnitude` already proves both bodies (`by (bit_vector)`);
this script re-proves the same contracts with a second tool (CBMC) on the compiled code.

A scratch copy of fpdec-core (from $VERIF_REPO or /repo) is made in a temp dir, the module below is
appended *mechanically* to the copy of src/lib.rs (so that it can see the private `less_than_5`; the
functions themselves are untouched), `cargo kani` is run per harness, and the scratch copy is
removed.  The harnesses are loop-free and range over every input (u32 < 100_000 resp. every u8),
therefore complete (proof, not bounded).

Contracts (identical to units/magnitude.py):
  less_than_5(v), v < 100_000 : r == floor(log10 v) for v >= 1 (10^r <= v < 10^(r+1)), r == 0 for v == 0
  u8(v)                       : the same for every u8

usage: kani/magnitude.py [--keep] [--json]      exit 0 = all proved, 1 = a harness failed, 2 = tool problem
"""
import json
import os
import re
import shutil
import subprocess
import sys
import tempfile
import time

REPO = os.environ.get('VERIF_REPO', '/repo')

HARNESS = r'''

// ---- appended by /verif/kani/magnitude.py (not part of the crate) ----
#[cfg(kani)]
mod verif_magnitude_harness {
    use super::*;

    /// floor(log10 v) by decimal thresholds (0 for v == 0)
    fn log10_floor(v: u32) -> u32 {
        if v < 10 { 0 } else if v < 100 { 1 } else if v < 1_000 { 2 } else if v < 10_000 { 3 } else { 4 }
    }

    #[kani::proof]
    fn magnitude_less_than_5() {
        let v: u32 = kani::any();
        kani::assume(v < 100_000);
        assert!(less_than_5(v) == log10_floor(v));
    }

    #[kani::proof]
    fn magnitude_u8() {
        let v: u8 = kani::any();
        assert!(u8(v) == log10_floor(v as u32));
    }

    /// vacuity guard: the assumed domain is inhabited at both ends
    #[kani::proof]
    fn magnitude_domain_inhabited() {
        assert!(less_than_5(0) == 0 && less_than_5(99_999) == 4 && less_than_5(10_000) == 4 && less_than_5(9_999) == 3);
        assert!(u8(0) == 0 && u8(255) == 2 && u8(100) == 2 && u8(99) == 1 && u8(9) == 0);
    }
}
'''

HARNESSES = ['magnitude_less_than_5', 'magnitude_u8', 'magnitude_domain_inhabited']


def main():
    keep = '--keep' in sys.argv
    as_json = '--json' in sys.argv
    src = os.path.join(REPO, 'fpdec-core')
    parser_rs = os.path.join(src, 'src', 'lib.rs')
    text = open(parser_rs).read()
    for fn in ('const fn less_than_5(val: u32) -> u32', 'pub const fn u8(val: u8) -> u32'):
        if fn not in text:
            print('ANCHOR-LOST: %s not found in %s' % (fn, parser_rs))
            return 2
    tmp = tempfile.mkdtemp(prefix='fpdec-verif.kani-magnitude.')
    results = {}
    rc = 0
    try:
        dst = os.path.join(tmp, 'fpdec-core')
        shutil.copytree(src, dst, ignore=shutil.ignore_patterns('target', 'Cargo.lock'))
        # license-file = "../LICENSE.TXT" points outside the copy: irrelevant for building, but keep cargo quiet
        lic = os.path.join(REPO, 'LICENSE.TXT')
        if os.path.exists(lic):
            shutil.copy(lic, os.path.join(tmp, 'LICENSE.TXT'))
        with open(os.path.join(dst, 'src', 'lib.rs'), 'a') as f:
            f.write(HARNESS)
        # stand-alone workspace
        with open(os.path.join(dst, 'Cargo.toml'), 'a') as f:
            f.write('\n[workspace]\n')
        env = dict(os.environ)
        env['CARGO_NET_OFFLINE'] = 'true'
        env['CARGO_TARGET_DIR'] = os.path.join(tmp, 'target')
        for h in HARNESSES:
            t0 = time.time()
            cmd = ['cargo', 'kani', '--harness', h]
            try:
                p = subprocess.run(cmd, cwd=dst, env=env, stdout=subprocess.PIPE, stderr=subprocess.STDOUT,
                                   text=True, timeout=900)
                out = p.stdout
            except subprocess.TimeoutExpired:
                out = 'TIMEOUT'
            dt = time.time() - t0
            ok = 'VERIFICATION:- SUCCESSFUL' in out
            failed = 'VERIFICATION:- FAILED' in out
            m = re.search(r'\*\* (\d+) of (\d+) failed', out)
            results[h] = {'ok': ok, 'failed': failed, 'seconds': round(dt, 1), 'cmd': ' '.join(cmd),
                          'checks': m.group(0) if m else None}
            if not as_json:
                print('[kani %s] %s (%.1fs) %s' % (h, 'SUCCESSFUL' if ok else ('FAILED' if failed else 'ERROR'), dt,
                                                   m.group(0) if m else ''))
            if failed:
                rc = max(rc, 1)
                if not as_json:
                    print('\n'.join(l for l in out.splitlines() if 'FAILURE' in l or 'Failed Checks' in l))
            elif not ok:
                rc = 2
                if not as_json:
                    print(out[-3000:])
    finally:
        if keep:
            print('scratch copy kept in', tmp)
        else:
            shutil.rmtree(tmp, ignore_errors=True)
    if as_json:
        print(json.dumps({'rc': rc, 'harnesses': results}))
    return rc


if __name__ == '__main__':
    sys.exit(main())
