#!/usr/bin/env python3
"""C06 (trusted raw-memory primitives): BOUNDED Kani check of the `unsafe` bodies that the Verus unit
only sees as external_body stubs: `AsciiDecLit::skip_n` (get_unchecked), `read_u64_unchecked`
(ptr::read_unaligned + from_le) and `read_u64`.

Bound: byte buffers of length 0..=16 with symbolic content, symbolic length and symbolic n. Within the
bound Kani/CBMC checks (a) memory safety of the unsafe operations (pointer dereference / bounds checks
of the model), (b) the functional contract used by the stubs: skip_n(n) leaves exactly bytes[n..],
read_u64_unchecked returns the little-endian word of the first 8 bytes, read_u64 is Some iff len >= 8.
The functions are length-agnostic, but this remains a bounded stand-in: it is reported under
`bounded` in the evidence and never counted as a discharged proof obligation.

usage: kani/prims.py [--keep] [--json]      exit 0 = all harnesses pass, 1 = a harness failed, 2 = tool problem
"""
import json
import os
import re
import shutil
import subprocess
import sys
import tempfile
import time

REPO = os.environ.get('VERIF_REPO', '/repo')

HARNESS = r'''

// ---- appended by /verif/kani/prims.py (not part of the crate) ----
#[cfg(kani)]
mod verif_prims {
    use super::*;

    #[kani::proof]
    fn prim_skip_n_bounded16() {
        let arr: [u8; 16] = kani::any();
        let len: usize = kani::any();
        kani::assume(len <= 16);
        let n: usize = kani::any();
        kani::assume(n <= len);
        let mut lit = AsciiDecLit::new(&arr[..len]);
        unsafe {
            lit.skip_n(n);
        }
        assert!(lit.len() == len - n);
        assert!(lit.bytes.as_ptr() == arr[n..len].as_ptr());
        if n < len {
            assert!(*lit.first().unwrap() == arr[n]);
        } else {
            assert!(lit.is_empty());
        }
    }

    #[kani::proof]
    fn prim_read_u64_bounded16() {
        let arr: [u8; 16] = kani::any();
        let len: usize = kani::any();
        kani::assume(len <= 16);
        let lit = AsciiDecLit::new(&arr[..len]);
        let r = lit.read_u64();
        assert!(r.is_some() == (len >= 8));
        if len >= 8 {
            let w = unsafe { lit.read_u64_unchecked() };
            let expected = u64::from_le_bytes([arr[0], arr[1], arr[2], arr[3], arr[4], arr[5], arr[6], arr[7]]);
            assert!(w == expected);
            assert!(r.unwrap() == expected);
        }
    }
}
'''

HARNESSES = ['prim_skip_n_bounded16', 'prim_read_u64_bounded16']


def main():
    keep = '--keep' in sys.argv
    as_json = '--json' in sys.argv
    src = os.path.join(REPO, 'fpdec-core')
    parser_rs = os.path.join(src, 'src', 'parser.rs')
    text = open(parser_rs).read()
    for fn in ('unsafe fn skip_n(&mut self, n: usize) -> &mut Self', 'unsafe fn read_u64_unchecked(&self) -> u64'):
        if fn not in text:
            print('ANCHOR-LOST: %s not found in %s' % (fn, parser_rs))
            return 2
    tmp = tempfile.mkdtemp(prefix='fpdec-verif.kani-prims.')
    results = {}
    rc = 0
    try:
        dst = os.path.join(tmp, 'fpdec-core')
        shutil.copytree(src, dst, ignore=shutil.ignore_patterns('target', 'Cargo.lock'))
        # license-file = "../LICENSE.TXT" points outside the copy: irrelevant for building, but keep cargo quiet
        lic = os.path.join(REPO, 'LICENSE.TXT')
        if os.path.exists(lic):
            shutil.copy(lic, os.path.join(tmp, 'LICENSE.TXT'))
        with open(os.path.join(dst, 'src', 'parser.rs'), 'a') as f:
            f.write(HARNESS)
        # stand-alone workspace
        with open(os.path.join(dst, 'Cargo.toml'), 'a') as f:
            f.write('\n[workspace]\n')
        env = dict(os.environ)
        env['CARGO_NET_OFFLINE'] = 'true'
        env['CARGO_TARGET_DIR'] = os.path.join(tmp, 'target')
        for h in HARNESSES:
            t0 = time.time()
            cmd = ['cargo', 'kani', '--harness', h]
            try:
                p = subprocess.run(cmd, cwd=dst, env=env, stdout=subprocess.PIPE, stderr=subprocess.STDOUT,
                                   text=True, timeout=900)
                out = p.stdout
            except subprocess.TimeoutExpired:
                out = 'TIMEOUT'
            dt = time.time() - t0
            ok = 'VERIFICATION:- SUCCESSFUL' in out
            failed = 'VERIFICATION:- FAILED' in out
            m = re.search(r'\*\* (\d+) of (\d+) failed', out)
            results[h] = {'ok': ok, 'failed': failed, 'seconds': round(dt, 1), 'cmd': ' '.join(cmd),
                          'checks': m.group(0) if m else None}
            if not as_json:
                print('[kani %s] %s (%.1fs) %s' % (h, 'SUCCESSFUL' if ok else ('FAILED' if failed else 'ERROR'), dt,
                                                   m.group(0) if m else ''))
            if failed:
                rc = max(rc, 1)
                if not as_json:
                    print('\n'.join(l for l in out.splitlines() if 'FAILURE' in l or 'Failed Checks' in l))
            elif not ok:
                rc = 2
                if not as_json:
                    print(out[-3000:])
    finally:
        if keep:
            print('scratch copy kept in', tmp)
        else:
            shutil.rmtree(tmp, ignore_errors=True)
    if as_json:
        print(json.dumps({'rc': rc, 'harnesses': results}))
    return rc


if __name__ == '__main__':
    sys.exit(main())
