#!/usr/bin/env python3
"""C12 (integer / zero shortcut): Kani proofs of the REAL `<f64 as From<Decimal>>::from` and
`<f32 as From<Decimal>>::from` (/repo/src/into_float.rs) on the branch the Verus unit `into_float` can only
take relative to a trusted cast: Decimals with n_frac_digits == 0 (every coefficient in Decimal::MIN..=MAX)
and zero coefficients with 0..=18 fractional digits.

A scratch copy of the working tree of $VERIF_REPO or /repo (without target/, .git/, tests/) is made in a temp
dir, the module below is appended *mechanically* to the copy of src/into_float.rs (the functions themselves are
untouched), `cargo kani` is run per harness, and the scratch copy is removed.  All harnesses are loop-free and
range over every i128 coefficient > i128::MIN resp. every n_frac_digits <= 18, therefore complete (proof, not
bounded).  CBMC models `i128 as f64 / f32` bit-precisely as the IEEE-754 conversion under round-to-nearest-even,
which is what the Rust reference prescribes for `as`; that rustc/LLVM implement the reference is what remains
assumed.

Statements proved (the oracle `rne_int_bits` is integer-only: leading_zeros, shifts, guard/sticky comparison; it
is the den == 1 instance of spec/float_rne.rs `float_bits_of`, transcribed to executable Rust):

  int  : for all c in Decimal::MIN..=MAX :  f64::from(Decimal::new_raw(c, 0)).to_bits() == sign(c) | rne(|c|)
  zero : for all n in 0..=18             :  f64::from(Decimal::new_raw(0, n)).to_bits() == 0      (+0.0)
  (the same two for f32)

usage: kani/cast.py [--keep] [--json]      exit 0 = all proved, 1 = a harness failed, 2 = tool problem
"""
import json
import os
import re
import shutil
import subprocess
import sys
import tempfile
import time

REPO = os.environ.get('VERIF_REPO', '/repo')

HARNESS = r'''

// ---- appended by /verif/kani/cast.py (not part of the crate) ----
#[cfg(kani)]
mod verif_cast_harness {
    use super::*;

    /// bit pattern of the binary float (f fraction bits, exponent bias, total width) nearest to the integer c,
    /// ties to even, sign of c, 0 -> +0.0; integer arithmetic only
    fn rne_int_bits(c: i128, f: u32, bias: u32, bits: u32) -> u64 {
        if c == 0 {
            return 0;
        }
        let sign: u64 = if c < 0 { 1u64 << (bits - 1) } else { 0 };
        let a: u128 = c.unsigned_abs();
        let nb: u32 = 128 - a.leading_zeros(); // 2^(nb-1) <= a < 2^nb
        let e: u32 = nb - 1;
        let m: u128;
        if nb <= f + 1 {
            m = a << (f + 1 - nb); // exact
        } else {
            let sh = nb - (f + 1);
            let q = a >> sh;
            let r = a & ((1u128 << sh) - 1);
            let half = 1u128 << (sh - 1);
            let up = r > half || (r == half && (q & 1) == 1);
            m = if up { q + 1 } else { q };
        }
        // carry out of the significand: 2^(f+1) -> 2^f, exponent + 1
        let (m, e) = if m == (1u128 << (f + 1)) { (m >> 1, e + 1) } else { (m, e) };
        sign | (((e + bias) as u64) << f) | ((m as u64) & ((1u64 << f) - 1))
    }

    #[kani::proof]
    fn cast_int_f64() {
        let c: i128 = kani::any();
        kani::assume(c > i128::MIN);
        let d = Decimal::new_raw(c, 0);
        assert!(f64::from(d).to_bits() == rne_int_bits(c, 52, 1023, 64));
    }

    #[kani::proof]
    fn cast_int_f32() {
        let c: i128 = kani::any();
        kani::assume(c > i128::MIN);
        let d = Decimal::new_raw(c, 0);
        assert!(f32::from(d).to_bits() as u64 == rne_int_bits(c, 23, 127, 32));
    }

    #[kani::proof]
    fn cast_zero_f64() {
        let n: u8 = kani::any();
        kani::assume(n <= 18);
        assert!(f64::from(Decimal::new_raw(0, n)).to_bits() == 0);
    }

    #[kani::proof]
    fn cast_zero_f32() {
        let n: u8 = kani::any();
        kani::assume(n <= 18);
        assert!(f32::from(Decimal::new_raw(0, n)).to_bits() == 0);
    }

    /// sanity of the oracle on hand-computed patterns (also the vacuity guard of the assumptions above)
    #[kani::proof]
    fn cast_oracle_examples() {
        assert!(rne_int_bits(1, 52, 1023, 64) == 0x3FF0_0000_0000_0000);
        assert!(rne_int_bits(-2, 52, 1023, 64) == 0xC000_0000_0000_0000);
        assert!(rne_int_bits((1 << 53) + 1, 52, 1023, 64) == 0x4340_0000_0000_0000); // tie -> even (down)
        assert!(rne_int_bits((1 << 53) + 3, 52, 1023, 64) == 0x4340_0000_0000_0002); // tie -> even (up)
        assert!(rne_int_bits(i128::MAX, 52, 1023, 64) == 0x47E0_0000_0000_0000); // carry: 2^127
        assert!(rne_int_bits(1, 23, 127, 32) == 0x3F80_0000);
        assert!(rne_int_bits((1 << 24) + 1, 23, 127, 32) == 0x4B80_0000);
        assert!(rne_int_bits((1 << 24) + 3, 23, 127, 32) == 0x4B80_0002);
        let c: i128 = kani::any();
        kani::assume(c > i128::MIN);
        kani::cover!(c < 0);
        kani::cover!(c > (1 << 100));
    }
}
'''

HARNESSES = ['cast_int_f64', 'cast_int_f32', 'cast_zero_f64', 'cast_zero_f32', 'cast_oracle_examples']


def main():
    keep = '--keep' in sys.argv
    as_json = '--json' in sys.argv
    target_rs = os.path.join(REPO, 'src', 'into_float.rs')
    text = open(target_rs).read()
    for fn in ('impl From<Decimal> for f64', 'impl From<Decimal> for f32'):
        if fn not in text:
            print('ANCHOR-LOST: %s not found in %s' % (fn, target_rs))
            return 2
    tmp = tempfile.mkdtemp(prefix='fpdec-verif.kani-cast.')
    results = {}
    rc = 0
    try:
        dst = os.path.join(tmp, 'fpdec')
        shutil.copytree(REPO, dst, ignore=shutil.ignore_patterns('target', '.git', 'tests', 'examples', 'benches'))
        with open(os.path.join(dst, 'src', 'into_float.rs'), 'a') as f:
            f.write(HARNESS)
        env = dict(os.environ)
        env['CARGO_NET_OFFLINE'] = 'true'
        env['CARGO_TARGET_DIR'] = os.path.join(tmp, 'target')
        for h in HARNESSES:
            t0 = time.time()
            cmd = ['cargo', 'kani', '--harness', h]
            try:
                p = subprocess.run(cmd, cwd=dst, env=env, stdout=subprocess.PIPE, stderr=subprocess.STDOUT,
                                   text=True, timeout=900)
                out = p.stdout
            except subprocess.TimeoutExpired:
                out = 'TIMEOUT'
            dt = time.time() - t0
            ok = 'VERIFICATION:- SUCCESSFUL' in out
            failed = 'VERIFICATION:- FAILED' in out
            m = re.search(r'\*\* (\d+) of (\d+) failed', out)
            results[h] = {'ok': ok, 'failed': failed, 'seconds': round(dt, 1), 'cmd': ' '.join(cmd),
                          'checks': m.group(0) if m else None}
            if not as_json:
                print('[kani %s] %s (%.1fs) %s' % (h, 'SUCCESSFUL' if ok else ('FAILED' if failed else 'ERROR'), dt,
                                                   m.group(0) if m else ''))
            if failed:
                rc = max(rc, 1)
                # counterexample: Kani's concrete playback prints the bytes of every kani::any() of the failing
                # trace; the first value is the coefficient (i128, little endian) resp. n_frac_digits (u8)
                try:
                    p2 = subprocess.run(cmd + ['-Z', 'concrete-playback', '--concrete-playback=print'], cwd=dst, env=env,
                                        stdout=subprocess.PIPE, stderr=subprocess.STDOUT, text=True, timeout=900)
                    mv = re.search(r'concrete_vals: Vec<Vec<u8>> = vec!\[\s*(?://[^\n]*\n\s*)?vec!\[([0-9, ]*)\]', p2.stdout)
                    if mv:
                        bs = bytes(int(x) for x in mv.group(1).split(',') if x.strip())
                        op = 'into_f64' if h.endswith('f64') else 'into_f32'
                        if h.startswith('cast_int') and len(bs) == 16:
                            results[h]['cex'] = {'op': op, 'lhs': 'd:%d:0' % int.from_bytes(bs, 'little', signed=True)}
                        elif h.startswith('cast_zero') and len(bs) == 1:
                            results[h]['cex'] = {'op': op, 'lhs': 'd:0:%d' % bs[0]}
                except Exception as ex:  # no counterexample: the violation is still reported
                    results[h]['cex_error'] = str(ex)[:200]
                if not as_json:
                    print('\n'.join(l for l in out.splitlines() if 'FAILURE' in l or 'Failed Checks' in l))
            elif not ok:
                rc = 2
                if not as_json:
                    print(out[-3000:])
    finally:
        if keep:
            print('scratch copy kept in', tmp)
        else:
            shutil.rmtree(tmp, ignore_errors=True)
    if as_json:
        print(json.dumps({'rc': rc, 'harnesses': results}))
    return rc


if __name__ == '__main__':
    sys.exit(main())
