#!/usr/bin/env python3
"""C06 (SWAR helpers): Kani proofs of `chunk_contains_8_digits` and `chunk_to_u64`
(fpdec-core/src/parser.rs) on the full u64 domain.

A scratch copy of fpdec-core (from $VERIF_REPO or /repo) is made in a temp dir, the module
below is appended *mechanically* to the copy of src/parser.rs (so it can see the private
functions; the functions themselves are untouched), `cargo kani` is run per harness, and the
scratch copy is removed.  Both harnesses are loop-free and range over every u64, therefore
complete (proof, not bounded).

The statements proved here are, verbatim, the contracts under which the two functions appear
as stubs in units/parser.py (byte i = bits 8i..8i+7, i.e. the byte at address +i of the
little-endian word that `read_u64` produces):

  contains : chunk_contains_8_digits(k)  <==>  for all i in 0..8: b'0' <= byte_i(k) <= b'9'
  to_u64   : (for all i: byte_i(k) is a digit)  ==>
             chunk_to_u64(k) == sum_i (byte_i(k) - b'0') * 10^(7-i)

usage: kani/swar.py [--keep] [--json]      exit 0 = both proved, 1 = a harness failed, 2 = tool problem
"""
import json
import os
import re
import shutil
import subprocess
import sys
import tempfile
import time

REPO = os.environ.get('VERIF_REPO', '/repo')

HARNESS = r'''

// ---- appended by /verif/kani/swar.py (not part of the crate) ----
#[cfg(kani)]
mod verif_harness {
    use super::*;

    /// byte i of the little-endian word = byte at address +i of the 8 bytes read by `read_u64`
    fn byte(k: u64, i: u32) -> u8 {
        (k >> (8 * i)) as u8
    }

    fn is_digit(b: u8) -> bool {
        b'0' <= b && b <= b'9'
    }

    fn all_digits(k: u64) -> bool {
        is_digit(byte(k, 0)) && is_digit(byte(k, 1)) && is_digit(byte(k, 2)) && is_digit(byte(k, 3))
            && is_digit(byte(k, 4)) && is_digit(byte(k, 5)) && is_digit(byte(k, 6)) && is_digit(byte(k, 7))
    }

    fn d(k: u64, i: u32) -> u64 {
        (byte(k, i) - b'0') as u64
    }

    #[kani::proof]
    fn swar_contains_8_digits() {
        let k: u64 = kani::any();
        assert!(chunk_contains_8_digits(k) == all_digits(k));
    }

    #[kani::proof]
    fn swar_chunk_to_u64() {
        let k: u64 = kani::any();
        kani::assume(all_digits(k));
        let expected = d(k, 0) * 10_000_000 + d(k, 1) * 1_000_000 + d(k, 2) * 100_000 + d(k, 3) * 10_000
            + d(k, 4) * 1_000 + d(k, 5) * 100 + d(k, 6) * 10 + d(k, 7);
        assert!(chunk_to_u64(k) == expected);
    }

    /// vacuity guard for the assumption above: some word satisfies it
    #[kani::proof]
    fn swar_assumption_satisfiable() {
        let k: u64 = 0x3736353433323130; // "01234567" little endian
        assert!(all_digits(k));
        assert!(chunk_to_u64(k) == 1234567);
        kani::cover!(all_digits(k));
    }
}
'''

HARNESSES = ['swar_contains_8_digits', 'swar_chunk_to_u64', 'swar_assumption_satisfiable']


def main():
    keep = '--keep' in sys.argv
    as_json = '--json' in sys.argv
    src = os.path.join(REPO, 'fpdec-core')
    parser_rs = os.path.join(src, 'src', 'parser.rs')
    text = open(parser_rs).read()
    for fn in ('fn chunk_contains_8_digits(chunk: u64) -> bool', 'fn chunk_to_u64(mut chunk: u64) -> u64'):
        if fn not in text:
            print('ANCHOR-LOST: %s not found in %s' % (fn, parser_rs))
            return 2
    tmp = tempfile.mkdtemp(prefix='fpdec-verif.kani-swar.')
    results = {}
    rc = 0
    try:
        dst = os.path.join(tmp, 'fpdec-core')
        shutil.copytree(src, dst, ignore=shutil.ignore_patterns('target', 'Cargo.lock'))
        # license-file = "../LICENSE.TXT" points outside the copy: irrelevant for building, but keep cargo quiet
        lic = os.path.join(REPO, 'LICENSE.TXT')
        if os.path.exists(lic):
            shutil.copy(lic, os.path.join(tmp, 'LICENSE.TXT'))
        with open(os.path.join(dst, 'src', 'parser.rs'), 'a') as f:
            f.write(HARNESS)
        # stand-alone workspace
        with open(os.path.join(dst, 'Cargo.toml'), 'a') as f:
            f.write('\n[workspace]\n')
        env = dict(os.environ)
        env['CARGO_NET_OFFLINE'] = 'true'
        env['CARGO_TARGET_DIR'] = os.path.join(tmp, 'target')
        for h in HARNESSES:
            t0 = time.time()
            cmd = ['cargo', 'kani', '--harness', h]
            try:
                p = subprocess.run(cmd, cwd=dst, env=env, stdout=subprocess.PIPE, stderr=subprocess.STDOUT,
                                   text=True, timeout=900)
                out = p.stdout
            except subprocess.TimeoutExpired:
                out = 'TIMEOUT'
            dt = time.time() - t0
            ok = 'VERIFICATION:- SUCCESSFUL' in out
            failed = 'VERIFICATION:- FAILED' in out
            m = re.search(r'\*\* (\d+) of (\d+) failed', out)
            results[h] = {'ok': ok, 'failed': failed, 'seconds': round(dt, 1), 'cmd': ' '.join(cmd),
                          'checks': m.group(0) if m else None}
            if not as_json:
                print('[kani %s] %s (%.1fs) %s' % (h, 'SUCCESSFUL' if ok else ('FAILED' if failed else 'ERROR'), dt,
                                                   m.group(0) if m else ''))
            if failed:
                rc = max(rc, 1)
                # counterexample: the word k of the failing trace (Kani concrete playback); its 8 bytes in memory
                # order ARE an 8-byte chunk of a literal - if they are ASCII, the literal is replayed through
                # from_str on the real crate by lib/report.py
                try:
                    p2 = subprocess.run(cmd + ['-Z', 'concrete-playback', '--concrete-playback=print'], cwd=dst, env=env,
                                        stdout=subprocess.PIPE, stderr=subprocess.STDOUT, text=True, timeout=900)
                    mv = re.search(r'concrete_vals: Vec<Vec<u8>> = vec!\[\s*(?://[^\n]*\n\s*)?vec!\[([0-9, ]*)\]', p2.stdout)
                    if mv:
                        bs = bytes(int(x) for x in mv.group(1).split(',') if x.strip())
                        results[h]['word'] = int.from_bytes(bs, 'little')
                        if len(bs) == 8 and all(0x20 <= b < 0x7f for b in bs):
                            results[h]['cex'] = {'op': 'from_str', 'lhs': 's:' + bs.hex()}
                except Exception as ex:  # no counterexample: the violation is still reported
                    results[h]['cex_error'] = str(ex)[:200]
                if not as_json:
                    print('\n'.join(l for l in out.splitlines() if 'FAILURE' in l or 'Failed Checks' in l))
            elif not ok:
                rc = 2
                if not as_json:
                    print(out[-3000:])
    finally:
        if keep:
            print('scratch copy kept in', tmp)
        else:
            shutil.rmtree(tmp, ignore_errors=True)
    if as_json:
        print(json.dumps({'rc': rc, 'harnesses': results}))
    return rc


if __name__ == '__main__':
    sys.exit(main())
