"""Steps (2)-(4): select items from the expansion, apply the fixed rewrite
rules, weave contracts, and emit one single-file Verus program per unit.

A *unit* is a list of entries, each naming an item of the real (expanded)
source by key, together with an optional contract.  The text of every
function body in the generated file is the text rustc printed for the
working tree, modified only by the global rules in `rewrite_body`.
"""
import hashlib
import os
import re

import rsx
from rsx import AnchorLost

VERIF = os.path.dirname(os.path.dirname(os.path.abspath(__file__)))

# --------------------------------------------------------------------------
# rewrite rules (global, pattern based; see DESIGN.md section 3)
# --------------------------------------------------------------------------

OPS = {'Add::add': '+', 'Sub::sub': '-', 'Mul::mul': '*', 'Div::div': '/', 'Rem::rem': '%'}

RULE_COUNTS = {}


def _count(rule, n=1):
    RULE_COUNTS[rule] = RULE_COUNTS.get(rule, 0) + n


def _split_args(s):
    """s is the text between the parens of a call; split at top-level commas."""
    args = []
    depth = 0
    last = 0
    for kind, a, b in rsx.tokens(s):
        if kind != 'p':
            continue
        ch = s[a]
        if ch in '([{':
            depth += 1
        elif ch in ')]}':
            depth -= 1
        elif ch == ',' and depth == 0:
            args.append(s[last:a])
            last = b
    tail = s[last:]
    if tail.strip():
        args.append(tail)
    return [x.strip() for x in args]


def strip_attrs_and_comments(s):
    """R1: drop `#[...]` attributes and comments (token level)."""
    out = []
    toks = list(rsx.tokens(s))
    i = 0
    n = len(toks)
    while i < n:
        kind, a, b = toks[i]
        if kind == 'comment':
            i += 1
            continue
        if kind == 'p' and s[a] == '#':
            j = i + 1
            while j < n and toks[j][0] == 'ws':
                j += 1
            if j < n and s[toks[j][1]] == '!':
                j += 1
            if j < n and s[toks[j][1]] == '[':
                end = rsx.match_close(s, toks[j][1])
                while i < n and toks[i][1] < end:
                    i += 1
                _count('R1.attr')
                continue
        out.append(s[a:b])
        i += 1
    return ''.join(out)


def _replace_calls(s, pattern, repl_fn):
    """Find `pattern(` (regex, must end right before the '(') outside literals
    and replace the whole call expression by repl_fn(match, [args])."""
    out = []
    pos = 0
    rx = re.compile(pattern)
    # mask of literal/comment regions
    lit = []
    for kind, a, b in rsx.tokens(s):
        if kind in ('str', 'char', 'comment'):
            lit.append((a, b))

    def in_lit(i):
        for a, b in lit:
            if a <= i < b:
                return True
        return False
    while True:
        m = rx.search(s, pos)
        if not m:
            break
        if in_lit(m.start()):
            out.append(s[pos:m.end()])
            pos = m.end()
            continue
        op = m.end()
        if op >= len(s) or s[op] != '(':
            out.append(s[pos:m.end()])
            pos = m.end()
            continue
        end = rsx.match_close(s, op)
        inner = s[op + 1:end - 1]
        out.append(s[pos:m.start()])
        out.append(repl_fn(m, _split_args(inner)))
        pos = end
    out.append(s[pos:])
    return ''.join(out)


def rewrite_body(s):
    """Apply R3, R10, R11 and the path flattening (R2) to item text."""
    # R2: path flattening – the three crates become one flat namespace
    s2 = re.sub(r'(?<![A-Za-z0-9_:])::(core|std|alloc)::', r'\1::', s)
    s2 = re.sub(r'(?<![A-Za-z0-9_:])(crate|fpdec_core|fpdec_macros)::(binops::\w+::|\w+::)?(?=[A-Za-z_])',
                lambda m: _flat(m), s2)
    s = s2

    # R3: panics
    def rp(m, args):
        _count('R3.panic')
        return 'explicit_panic()'
    s = _replace_calls(s, r'core::panicking::(panic_display|panic_fmt|panic|assert_failed|panic_explicit)', rp)
    s = re.sub(r'let kind = core::panicking::AssertKind::\w+;', '', s)
    # `if true { ... }` produced by cfg!(debug_assertions)-guarded debug_assert!: keep as is.

    # R10: UFCS operator calls -> infix
    def ro(m, args):
        if len(args) != 2:
            raise AnchorLost('UFCS operator call with %d args' % len(args))
        _count('R10.ufcs')
        return '((%s) %s (%s))' % (rewrite_ufcs(args[0]), OPS[m.group(1)], rewrite_ufcs(args[1]))

    def rewrite_ufcs(t):
        return _replace_calls(t, r'(?<![A-Za-z0-9_:])(Add::add|Sub::sub|Mul::mul|Div::div|Rem::rem)', ro)
    s = rewrite_ufcs(s)
    # x.neg() on a local -> (-x)
    s, k = re.subn(r'(?<![A-Za-z0-9_.])([a-z_][a-z0-9_]*)\.neg\(\)', r'(-\1)', s)
    _count('R10.neg', k)
    # R11: reserved identifiers
    s, k = re.subn(r'(?<![A-Za-z0-9_])int(?![A-Za-z0-9_])', 'int_', s)
    _count('R11.int', k)
    s, k = re.subn(r'(?<![A-Za-z0-9_])nat(?![A-Za-z0-9_])', 'nat_', s)
    _count('R11.nat', k)
    return s


def _flat(m):
    _count('R2.path')
    return ''


# --------------------------------------------------------------------------
# contracts
# --------------------------------------------------------------------------

class Loop:
    def __init__(self, inv=(), dec=None, body_entry=None, ensures=(), invariant_except_break=()):
        self.inv = list(inv)
        self.dec = dec
        self.body_entry = body_entry
        self.ensures = list(ensures)
        self.inv_eb = list(invariant_except_break)


class Contract:
    """pre: list[str]; ok: list[str] or None (total function);
    post: list[(name, expr)]; value: for operator traits, expression of the result;
    """

    def __init__(self, pre=(), ok=None, post=(), ret='r', entry=None, loops=(), value=None,
                 stub=False, props=(), no_unwind=False, exit_hint=None, opaque_body=False,
                 extra_attrs=(), rlimit=None):
        self.pre = list(pre)
        self.ok = None if ok is None else list(ok)
        self.post = list(post)
        self.ret = ret
        self.entry = entry
        self.loops = list(loops)
        self.value = value
        self.stub = stub          # external_body: contract assumed in this unit
        self.props = list(props)
        self.exit_hint = exit_hint
        self.extra_attrs = list(extra_attrs)
        self.rlimit = rlimit


STD_OP_TRAITS = {
    'Add': ('AddSpecImpl', 'add'), 'Sub': ('SubSpecImpl', 'sub'), 'Mul': ('MulSpecImpl', 'mul'),
    'Div': ('DivSpecImpl', 'div'), 'Rem': ('RemSpecImpl', 'rem'), 'Neg': ('NegSpecImpl', 'neg'),
}


class Segment:
    __slots__ = ('text', 'tag')

    def __init__(self, text, tag=None):
        self.text = text
        self.tag = tag


class Emitter:
    def __init__(self):
        self.segs = []

    def emit(self, text, tag=None):
        if not text.endswith('\n'):
            text += '\n'
        self.segs.append(Segment(text, tag))

    def render(self):
        """Return (text, linemap) where linemap[i] (1-based line) = tag stack."""
        lines = []
        linemap = {}
        ln = 1
        for sg in self.segs:
            k = sg.text.count('\n')
            if sg.tag is not None:
                for j in range(ln, ln + k):
                    linemap[j] = sg.tag
            lines.append(sg.text)
            ln += k
        return ''.join(lines), linemap


def weave_fn(item_text, key, contract, mode, em, in_trait_impl_of_std_op=False, is_trait_decl=False):
    """Emit the function `item_text` with `contract` woven in.
    mode: 'F' (forward: requires pre && ok, ensures post) or
          'D' (dev-profile partial correctness: requires pre, ensures ok && post)."""
    text = rewrite_body(strip_attrs_and_comments(item_text))
    sig, body = rsx.fn_parts(text)
    c = contract
    if c is None:
        em.emit(text, ('fn', key))
        return
    # --- return type
    sig = sig.rstrip()
    m = None
    depth = 0
    arrow = None
    for kind, a, b in rsx.tokens(sig):
        if kind == 'p':
            ch = sig[a]
            if ch in '([<' and not (ch == '<' and False):
                if ch != '<':
                    depth += 1
            elif ch in ')]':
                depth -= 1
            elif ch == '-' and sig[a:a + 2] == '->' and depth == 0:
                arrow = a
                break
    if arrow is not None:
        ret_t = sig[arrow + 2:].strip()
        where = ''
        wm = re.search(r'\bwhere\b', ret_t)
        if wm:
            where = ' ' + ret_t[wm.start():]
            ret_t = ret_t[:wm.start()].strip()
        sig2 = sig[:arrow] + '-> (%s: %s)%s' % (c.ret, ret_t, where)
    else:
        sig2 = sig
    requires = []
    ensures = []
    for p in c.pre:
        requires.append(('pre', p))
    if c.ok is not None:
        if mode == 'F':
            for p in c.ok:
                requires.append(('ok', p))
        else:
            for i, p in enumerate(c.ok):
                ensures.append(('ok%d' % i, p))
    for name, e in c.post:
        ensures.append((name, e))
    attrs = ''
    for a in c.extra_attrs:
        attrs += a + '\n'
    if c.rlimit:
        attrs += '#[verifier::rlimit(%s)]\n' % c.rlimit
    if c.stub:
        attrs += '#[verifier::external_body]\n'
    em.emit(attrs + sig2, ('fn', key))
    if in_trait_impl_of_std_op:
        # requires come through the *SpecImpl block; only extra ensures allowed here
        requires = []
        ensures = [(n, e) for (n, e) in ensures if n != '__value__']
    if requires:
        em.emit('    requires', ('fn', key))
        for n, p in requires:
            em.emit('        %s,' % p, ('req', key, n))
    if ensures:
        em.emit('    ensures', ('fn', key))
        for n, p in ensures:
            em.emit('        %s,' % p, ('ens', key, n))
    if body is None:
        em.emit(';', ('fn', key))
        return
    if c.stub:
        em.emit('{ unimplemented!() }', ('fn', key))
        return
    body = weave_loops(body, c.loops, key)
    # entry hint
    if c.entry:
        body = '{\n    proof { ' + c.entry + ' }\n' + body[1:]
    if c.exit_hint:
        # wrap: let r = { body }; proof{..}; r   -- only used when no early return matters
        raise AnchorLost('exit_hint unsupported')
    em.emit(body, ('fn', key))


_LOOP_KW = ('while', 'loop', 'for')


def weave_loops(body, loops, key):
    if not loops:
        return body
    toks = [(k, a, b) for (k, a, b) in rsx.tokens(body)]
    sig = [(k, a, b) for (k, a, b) in toks if k not in ('ws', 'comment')]
    found = []
    for idx, (k, a, b) in enumerate(sig):
        if k == 'id' and body[a:b] in _LOOP_KW:
            # `for` in `impl ... for` cannot occur inside a body; `for<'a>` HRTB neither here
            # find body-open brace: first '{' at depth 0
            depth = 0
            j = idx + 1
            while j < len(sig):
                kk, aa, bb = sig[j]
                if kk == 'p':
                    ch = body[aa]
                    if ch in '([':
                        depth += 1
                    elif ch in ')]':
                        depth -= 1
                    elif ch == '{' and depth == 0:
                        found.append(aa)
                        break
                j += 1
    if len(found) != len(loops):
        raise AnchorLost('%s: %d loops in body, %d loop contracts' % (key, len(found), len(loops)))
    out = []
    pos = 0
    for brace, lp in zip(found, loops):
        out.append(body[pos:brace])
        if lp is not None:
            spec = '\n'
            if lp.inv_eb:
                spec += '    invariant_except_break\n' + ''.join('        %s,\n' % i for i in lp.inv_eb)
            if lp.inv:
                spec += '    invariant\n' + ''.join('        %s,\n' % i for i in lp.inv)
            if lp.ensures:
                spec += '    ensures\n' + ''.join('        %s,\n' % i for i in lp.ensures)
            if lp.dec:
                spec += '    decreases %s,\n' % lp.dec
            out.append(spec)
            if lp.body_entry:
                out.append('{ proof { ' + lp.body_entry + ' }\n')
                pos = brace + 1
                continue
        pos = brace
    out.append(body[pos:])
    return ''.join(out)


# --------------------------------------------------------------------------
# Unit
# --------------------------------------------------------------------------

class Entry:
    def __init__(self, src, key, contract=None, kind='item', spec_impl=None, trait_weave=None, raw=None):
        self.src = src
        self.key = key
        self.contract = contract
        self.kind = kind
        self.spec_impl = spec_impl
        self.trait_weave = trait_weave
        self.raw = raw


class Unit:
    """A generated Verus file. Entries are emitted in order."""

    def __init__(self, name, specs=(), uses=()):
        self.name = name
        self.specs = list(specs)
        self.uses = list(uses)
        self.entries = []
        self.fn_contracts = {}   # key -> Contract (for accounting)

    # -- declaration API used by units/*.py
    def item(self, src, key):
        """Include a non-function item (struct, enum, const, ...) verbatim (after R1/R2)."""
        self.entries.append(Entry(src, key, kind='item'))

    def fn(self, src, key, contract=None):
        self.entries.append(Entry(src, key, contract, kind='fn'))
        if contract is not None:
            self.fn_contracts[key] = contract

    def impl(self, src, key, methods, spec_impl=None, extra=None):
        """Include an impl block. methods: {fn name: Contract or None}.
        spec_impl: text emitted before the impl (the vstd *SpecImpl block), may depend on mode
        (callable(mode) -> str)."""
        e = Entry(src, key, methods, kind='impl', spec_impl=spec_impl)
        e.extra = extra
        self.entries.append(e)
        for mname, c in methods.items():
            if c is not None:
                self.fn_contracts[key + '::' + mname] = c

    def trait(self, src, key, methods, ghost=None):
        """Include a trait declaration; methods: {fn name: Contract}; ghost: extra text (spec fn decls)."""
        e = Entry(src, key, methods, kind='trait')
        e.extra = ghost
        self.entries.append(e)

    def raw(self, text, tag=None):
        self.entries.append(Entry(None, tag, kind='raw', raw=text))

    # -- generation
    def generate(self, sources, mode):
        """sources: {src name: index dict from rsx.index}. Returns (text, linemap, meta)."""
        em = Emitter()
        em.emit('#![allow(unused_imports, unused_variables, unused_mut, dead_code, unused_parens, '
                'unused_braces, non_snake_case, non_camel_case_types, unused_assignments, unreachable_code)]')
        em.emit('use vstd::prelude::*;')
        em.emit('use core::ops::{Add, Sub, Mul, Div, Rem, Neg, AddAssign, SubAssign, MulAssign, DivAssign, RemAssign};')
        em.emit('use core::cmp::Ordering;')
        for u in self.uses:
            em.emit(u)
        em.emit('verus! {')
        em.emit(panic_stub(mode))
        for sp in self.specs:
            p = os.path.join(VERIF, 'spec', sp)
            em.emit('// ---- spec library: %s' % sp)
            em.emit(open(p).read(), ('spec', sp))
        meta = {'functions': {}}
        for e in self.entries:
            if e.kind == 'raw':
                txt = e.raw(mode) if callable(e.raw) else e.raw
                em.emit(txt, ('raw', e.key))
                continue
            idx = sources[e.src]
            it = idx.get(e.key)
            if it is None:
                raise AnchorLost('item not found in expansion of %s: %s' % (e.src, e.key))
            if isinstance(it, list):
                raise AnchorLost('ambiguous item key: %s' % e.key)
            if e.kind == 'item':
                t = rewrite_body(strip_attrs_and_comments(it.text))
                if it.kind in ('struct', 'enum'):
                    derives = _derives_for(idx, it)
                    t = derives + (t if t.startswith('pub') else 'pub ' + t)
                elif it.kind in ('const', 'trait', 'type'):
                    t = 'pub ' + t if not t.startswith('pub') else t
                em.emit(t, ('item', e.key))
            elif e.kind == 'fn':
                if it.kind != 'fn':
                    raise AnchorLost('%s is not a fn' % e.key)
                meta['functions'][e.key] = _fn_meta(it, e.src)
                weave_fn(_pubify(it), e.key, e.contract, mode, em)
            elif e.kind in ('impl', 'trait'):
                self._emit_impl(e, it, mode, em, meta)
        em.emit('} // verus!')
        em.emit('fn main() {}')
        text, linemap = em.render()
        return text, linemap, meta

    def _emit_impl(self, e, it, mode, em, meta):
        methods = e.contract
        if e.spec_impl is not None:
            si = e.spec_impl(mode) if callable(e.spec_impl) else e.spec_impl
            em.emit(si, ('specimpl', e.key))
        header = rewrite_body(strip_attrs_and_comments(it.header))
        if e.kind == 'trait' and not header.startswith('pub'):
            header = 'pub ' + header
        em.emit(header + ' {', ('impl', e.key))
        if getattr(e, 'extra', None):
            ex = e.extra(mode) if callable(e.extra) else e.extra
            em.emit(ex, ('impl', e.key))
        std_op = False
        hm = re.match(r'(unsafe )?impl(<[^>]*>)? (\w+)', it.header)
        if hm and hm.group(3) in STD_OP_TRAITS:
            std_op = True
        seen = set()
        for ch in it.children:
            if ch.kind == 'fn':
                k = e.key + '::' + ch.name
                if ch.name not in methods:
                    raise AnchorLost('method %s has no contract entry (unit %s)' % (k, self.name))
                seen.add(ch.name)
                meta['functions'][k] = _fn_meta(ch, e.src)
                weave_fn(ch.text, k, methods[ch.name], mode, em, in_trait_impl_of_std_op=False)
            else:
                em.emit(rewrite_body(strip_attrs_and_comments(ch.text)), ('impl', e.key))
        missing = set(methods) - seen
        if missing:
            raise AnchorLost('contracted methods missing from %s: %s' % (e.key, sorted(missing)))
        em.emit('}', ('impl', e.key))


def _pubify(it):
    t = it.text
    return t


def _fn_meta(it, src):
    return {'src': src, 'sha256': hashlib.sha256(it.text.encode()).hexdigest()[:16]}


def _derives_for(idx, it):
    """R1: derive(Clone, Copy, PartialEq, Eq) impls printed by rustc as
    #[automatically_derived] are replaced by the derive attribute again."""
    name = it.name
    have = []
    for k in idx:
        m = re.search(r'impl ::core::(clone::Clone|marker::Copy|cmp::PartialEq|cmp::Eq|marker::StructuralPartialEq) for %s$' % re.escape(name), k)
        if m:
            have.append(m.group(1).split('::')[1])
    ds = [d for d in ('Clone', 'Copy', 'PartialEq', 'Eq') if d in have]
    if ds:
        return '#[derive(%s)]\n' % ', '.join(ds)
    return ''


def panic_stub(mode):
    if mode == 'F':
        return ('#[verifier::external_body]\n'
                'pub fn explicit_panic() -> !\n'
                '    requires false,\n'
                '{ panic!() }\n')
    return ('#[verifier::external_body]\n'
            'pub fn explicit_panic() -> !\n'
            '    ensures false,\n'
            '{ panic!() }\n')
