"""Steps (2)-(4): select items from the expansion, apply the fixed rewrite
rules, weave contracts, and emit one single-file Verus program per unit.

A *unit* is a list of entries, each naming an item of the real (expanded)
source by key, together with an optional contract.  The text of every
function body in the generated file is the text rustc printed for the
working tree, modified only by the global rules in `rewrite_body`.
"""
import hashlib
import os
import re

import rsx
import r7fmt
from rsx import AnchorLost
import constfold

VERIF = os.path.dirname(os.path.dirname(os.path.abspath(__file__)))

# --------------------------------------------------------------------------
# rewrite rules (global, pattern based; see DESIGN.md section 3)
# --------------------------------------------------------------------------

OPS = {'Add::add': '+', 'Sub::sub': '-', 'Mul::mul': '*', 'Div::div': '/', 'Rem::rem': '%'}

RULE_COUNTS = {}


def _count(rule, n=1):
    RULE_COUNTS[rule] = RULE_COUNTS.get(rule, 0) + n


def _split_args(s):
    """s is the text between the parens of a call; split at top-level commas."""
    args = []
    depth = 0
    last = 0
    for kind, a, b in rsx.tokens(s):
        if kind != 'p':
            continue
        ch = s[a]
        if ch in '([{':
            depth += 1
        elif ch in ')]}':
            depth -= 1
        elif ch == ',' and depth == 0:
            args.append(s[last:a])
            last = b
    tail = s[last:]
    if tail.strip():
        args.append(tail)
    return [x.strip() for x in args]


def strip_attrs_and_comments(s):
    """R1: drop `#[...]` attributes and comments (token level)."""
    out = []
    toks = list(rsx.tokens(s))
    i = 0
    n = len(toks)
    while i < n:
        kind, a, b = toks[i]
        if kind == 'comment':
            i += 1
            continue
        if kind == 'p' and s[a] == '#':
            j = i + 1
            while j < n and toks[j][0] == 'ws':
                j += 1
            if j < n and s[toks[j][1]] == '!':
                j += 1
            if j < n and s[toks[j][1]] == '[':
                end = rsx.match_close(s, toks[j][1])
                while i < n and toks[i][1] < end:
                    i += 1
                _count('R1.attr')
                continue
        out.append(s[a:b])
        i += 1
    return ''.join(out)


def _replace_calls(s, pattern, repl_fn):
    """Find `pattern(` (regex, must end right before the '(') outside literals
    and replace the whole call expression by repl_fn(match, [args])."""
    out = []
    pos = 0
    rx = re.compile(pattern)
    # mask of literal/comment regions
    lit = []
    for kind, a, b in rsx.tokens(s):
        if kind in ('str', 'char', 'comment'):
            lit.append((a, b))

    def in_lit(i):
        for a, b in lit:
            if a <= i < b:
                return True
        return False
    while True:
        m = rx.search(s, pos)
        if not m:
            break
        if in_lit(m.start()):
            out.append(s[pos:m.end()])
            pos = m.end()
            continue
        op = m.end()
        if op >= len(s) or s[op] != '(':
            out.append(s[pos:m.end()])
            pos = m.end()
            continue
        end = rsx.match_close(s, op)
        inner = s[op + 1:end - 1]
        out.append(s[pos:m.start()])
        out.append(repl_fn(m, _split_args(inner)))
        pos = end
    out.append(s[pos:])
    return ''.join(out)


# R18: helpers to inline at their call sites (set by Unit.generate for the duration of one generation)
INLINE_HELPERS = []


def rewrite_body(s):
    """Apply R3, R10, R11 and the path flattening (R2) to item text."""
    if INLINE_HELPERS:
        import inline as _inline
        for _ in range(3):
            before = s
            for (hn, hp, hb) in INLINE_HELPERS:
                s = _inline.apply(s, hn, hp, hb, _count)
            if s == before:
                break
    # R2: path flattening – the three crates become one flat namespace
    s2 = re.sub(r'(?<![A-Za-z0-9_:])::(core|std|alloc)::', r'\1::', s)
    s2 = re.sub(r'(?<![A-Za-z0-9_:])(crate|fpdec_core|fpdec_macros)::(binops::\w+::|\w+::)?(?=[A-Za-z_])',
                lambda m: _flat(m), s2)
    s = s2
    # R16: constant folding of pure integer-literal expressions (lib/constfold.py)
    s = constfold.fold(s, _count)

    # R14 (feature rkyv): `rkyv::Archived<T>` is `T` for the primitive field types of ArchivedDecimal on a
    # little-endian target without rkyv's archive_le/archive_be features (assumption, listed); the
    # derive-generated where-clause of the archived struct is dropped with it
    s, k = re.subn(r'(?<![A-Za-z0-9_])(?:::)?rkyv::Archived<\s*([A-Za-z0-9_]+)\s*>', r'\1', s)
    _count('R14.rkyv_archived', k)
    s, k = re.subn(r'where\s+i128:\s*(?:::)?rkyv::Archive,\s*u8:\s*(?:::)?rkyv::Archive\s*,?', '', s)
    _count('R14.rkyv_where', k)
    # R3: panics
    def rp(m, args):
        _count('R3.panic')
        return 'explicit_panic()'
    s = _replace_calls(s, r'core::panicking::(panic_display|panic_fmt|panic|assert_failed|panic_explicit)', rp)
    s = re.sub(r'let kind = core::panicking::AssertKind::\w+;', '', s)
    # `if true { ... }` produced by cfg!(debug_assertions)-guarded debug_assert!: keep as is.

    # R7: format!/write!/to_string and the core::fmt types -> generated stubs / stand-ins (lib/r7fmt.py)
    s = r7fmt.rewrite_fmt(s, _count)

    # R10: UFCS operator calls -> infix
    def ro(m, args):
        if len(args) != 2:
            raise AnchorLost('UFCS operator call with %d args' % len(args))
        _count('R10.ufcs')
        return '((%s) %s (%s))' % (rewrite_ufcs(args[0]), OPS[m.group(1)], rewrite_ufcs(args[1]))

    def rewrite_ufcs(t):
        return _replace_calls(t, r'(?<![A-Za-z0-9_:])(Add::add|Sub::sub|Mul::mul|Div::div|Rem::rem)', ro)
    s = rewrite_ufcs(s)
    # x.neg() on a local -> (-x)
    s, k = re.subn(r'(?<![A-Za-z0-9_.])([a-z_][a-z0-9_]*)\.neg\(\)', r'(-\1)', s)
    _count('R10.neg', k)
    # R15: `loop { if C { break; } REST }` -> `while !(C) { REST }` (the definition of `while`); keeps loop
    # contracts, which are woven by loop ordinal and rely on the exit condition, valid for both spellings
    s = rewrite_loop_break(s)
    # R13: Option::map with a closure -> its definition as a match (Verus does not infer closure specs)
    s = rewrite_map_closure(s)
    # R21: bool::then with a closure -> its definition (parser.rs read_u64), same reason as R13
    s = rewrite_then_closure(s)
    # R20: reference patterns in match arms (parser.rs: `Some(&c) if c == b'-' => ..`) are not supported by Verus
    s = rewrite_ref_pattern(s)
    # R11: reserved identifiers
    s, k = re.subn(r'(?<![A-Za-z0-9_])int(?![A-Za-z0-9_])', 'int_', s)
    _count('R11.int', k)
    s, k = re.subn(r'(?<![A-Za-z0-9_])nat(?![A-Za-z0-9_])', 'nat_', s)
    _count('R11.nat', k)
    # R40: compound division / remainder assignment statements on a simple place (`x`, `*x`):
    # `X /= E;` -> `X = X / (E);`, `X %= E;` -> `X = X % (E);`.  For primitive integers this is the
    # definition of the compound operator (X is a side-effect free place, evaluated once either way).
    # Verus (0.2026.09.13) rejects `/=`, `%=` on signed machine integers ("div/mod on signed
    # finite-width integers") although it supports the binary `/`, `%` (rust_div / rust_rem).
    # Non-test code of /repo applies `/=`, `%=` to primitive integers only (Decimal's DivAssign /
    # RemAssign are exercised by #[cfg(test)] modules, which are never extracted).
    s, k = re.subn(r'([;{}]\s*)(\*?[a-z_][a-z0-9_]*)[ \t]*([/%])=(?!=)[ \t]*([^;{}]+);', r'\1\2 = \2 \3 (\4);', s)
    _count('R40.divrem_assign', k)
    s = rewrite_float_out(s)  # R51, R53 (C12)
    return s


def rewrite_loop_break(s):
    pos = 0
    while True:
        m = re.compile(r'(?<![A-Za-z0-9_\'])loop\s*\{\s*if\s').search(s, pos)
        if not m:
            return s
        lb = s.index('{', m.start())
        try:
            lend = rsx.match_close(s, lb)
        except AnchorLost:
            return s
        # condition: from after `if` to the '{' that opens the if-body (depth 0 w.r.t. parens)
        i = m.end()
        depth = 0
        j = i
        ok = False
        while j < lend:
            ch = s[j]
            if ch in '([':
                depth += 1
            elif ch in ')]':
                depth -= 1
            elif ch == '{' and depth == 0:
                ok = True
                break
            j += 1
        if not ok:
            pos = m.end()
            continue
        cond = s[i:j].strip()
        bend = rsx.match_close(s, j)
        body = s[j + 1:bend - 1].strip()
        after = s[bend:lend - 1]
        if body not in ('break;', 'break') or re.match(r'\s*else\b', after) or '{' in cond \
                or re.search(r'(?<![A-Za-z0-9_])continue(?![A-Za-z0-9_])', after) or re.search(r"break\s+'", after):
            pos = m.end()
            continue
        _count('R15.loop_break')
        s = s[:m.start()] + 'while !(' + cond + ') {' + after + '}' + s[lend:]
        pos = m.start() + 5


def rewrite_map_closure(s):
    s = _rewrite_closure_call(s, 'map', lambda recv, pat, body: '(match %s { Some(%s) => Some(%s), None => None })' % (recv, pat, body))
    # Result::map_err with a closure -> its definition as a match
    s = _rewrite_closure_call(s, 'map_err', lambda recv, pat, body: '(match %s { Ok(v__) => Ok(v__), Err(%s) => Err(%s) })' % (recv, pat, body))
    s = _rewrite_map_or(s)
    # and_then with a closure: Result or Option is decided from the closure body (Ok/Err/map_err/ok_or -> Result,
    # Some/None -> Option); if neither is evident the call is left alone (front-end error => undecided)
    def _and_then(recv, pat, body):
        if re.search(r'\b(Ok|Err)\s*\(|\.map_err\(|\.ok_or\(|try_from\(|try_into\(', body):
            return '(match %s { Ok(%s) => %s, Err(e__) => Err(e__) })' % (recv, pat, body)
        if re.search(r'\bSome\s*\(|\bNone\b|\.checked_\w+\(|\.ok\(\)', body):
            return '(match %s { Some(%s) => %s, None => None })' % (recv, pat, body)
        raise AnchorLost('R13: and_then closure of unknown carrier type')
    s = _rewrite_closure_call(s, 'and_then', _and_then)
    return s


def _rewrite_map_or(s):
    """R13: `RECV.map_or(DEFAULT, |x| BODY)` -> `{ let r__ = RECV; let d__ = DEFAULT; match r__ { Some(x) => BODY,
    None => d__ } }` (the definition of Option::map_or; receiver and the eagerly evaluated default keep their order)"""
    while True:
        m = re.search(r'\.map_or\(', s)
        if not m:
            return s
        op = m.end() - 1
        end = rsx.match_close(s, op)
        args = _split_args(s[op + 1:end - 1])
        if len(args) != 2:
            raise AnchorLost('R13: map_or with %d arguments' % len(args))
        mc = re.match(r'\s*\|([a-z_][a-z0-9_]*)\|(.*)$', args[1], re.S)
        if not mc:
            raise AnchorLost('R13: map_or without a closure literal')
        i = m.start() - 1
        depth = 0
        while i >= 0:
            ch = s[i]
            if ch in ')]}':
                depth += 1
            elif ch in '([{':
                if depth == 0:
                    break
                depth -= 1
            elif ch in ';=,' and depth == 0:
                break
            elif ch == '>' and i > 0 and s[i - 1] == '=' and depth == 0:
                break
            i -= 1
        recv = s[i + 1:m.start()]
        lead = recv[:len(recv) - len(recv.lstrip())]
        recv = recv.strip()
        if not recv:
            raise AnchorLost('R13: empty receiver for .map_or(closure)')
        _count('R13.map_or_closure')
        repl = '%s{ let r__ = %s; let d__ = %s; match r__ { Some(%s) => %s, None => d__ } }' % (
            lead, recv, args[0].strip(), mc.group(1), mc.group(2).strip())
        s = s[:i + 1] + repl + s[end:]


def _rewrite_closure_call(s, method, build):
    while True:
        m = re.search(r'\.%s\(\|([a-z_][a-z0-9_]*)\|' % method, s)
        if not m:
            return s
        op = m.start() + len('.' + method)
        end = rsx.match_close(s, op)
        body = s[m.end():end - 1].strip()
        # receiver: scan backwards to an unbalanced opener or a statement boundary
        i = m.start() - 1
        depth = 0
        while i >= 0:
            ch = s[i]
            if ch in ')]}':
                depth += 1
            elif ch in '([{':
                if depth == 0:
                    break
                depth -= 1
            elif ch in ';=,' and depth == 0:
                break
            elif ch == '>' and i > 0 and s[i - 1] == '=' and depth == 0:
                break          # `=>` of a match arm
            i -= 1
        recv = s[i + 1:m.start()]
        lead = recv[:len(recv) - len(recv.lstrip())]
        recv = recv.strip()
        if not recv:
            raise AnchorLost('R13: empty receiver for .map(closure)')
        _count('R13.%s_closure' % method)
        repl = lead + build(recv, m.group(1), body)
        s = s[:i + 1] + repl + s[end:]


def rewrite_then_closure(s):
    """R21: `RECV.then(|| BODY)` -> `(if RECV { Some(BODY) } else { None })`, the definition of bool::then."""
    while True:
        m = re.search(r'\.then\(\|\|', s)
        if not m:
            return s
        op = m.start() + len('.then')
        end = rsx.match_close(s, op)
        body = s[m.end():end - 1].strip()
        i = m.start() - 1
        depth = 0
        while i >= 0:
            ch = s[i]
            if ch in ')]}':
                depth += 1
            elif ch in '([{':
                if depth == 0:
                    break
                depth -= 1
            elif ch in ';=,' and depth == 0:
                break
            elif ch == '>' and i > 0 and s[i - 1] == '=' and depth == 0:
                break          # `=>` of a match arm
            i -= 1
        recv = s[i + 1:m.start()]
        lead = recv[:len(recv) - len(recv.lstrip())]
        recv = recv.strip()
        if not recv:
            raise AnchorLost('R21: empty receiver for .then(closure)')
        _count('R21.then_closure')
        s = s[:i + 1] + '%s(if %s { Some(%s) } else { None })' % (lead, recv, body) + s[end:]


def rewrite_ref_pattern(s):
    """R20: match arm `Some(&x) [if GUARD] => BODY` -> `Some(x) [if GUARD'] => BODY'` where every use of `x`
    in GUARD/BODY becomes `(*x)`.  Identical meaning: `&x` in a pattern binds x to the dereferenced (Copy)
    value, `(*x)` reads the same value through the reference bound by the pattern without `&`.
    Arms that re-bind `x` are refused (anchor lost)."""
    rx = re.compile(r'Some\(&([a-z_][a-z0-9_]*)\)(?=\s*(=>|if\b))')
    pos = 0
    while True:
        m = rx.search(s, pos)
        if not m:
            return s
        x = m.group(1)
        # extent of the arm: guard up to `=>`, then a block `{..}` or an expression up to `,` / `}` at depth 0
        depth = 0
        arrow = None
        end = None
        i = m.end()
        toks = [(k, a + i, b + i) for (k, a, b) in rsx.tokens(s[i:])]
        for idx, (k, a, b) in enumerate(toks):
            if k != 'p':
                continue
            ch = s[a]
            if arrow is None:
                if ch in '([{':
                    depth += 1
                elif ch in ')]}':
                    depth -= 1
                elif ch == '=' and s[a:a + 2] == '=>' and depth == 0:
                    arrow = a
                    j = idx + 2          # '=' and '>' are separate punctuation tokens
                    while j < len(toks) and toks[j][0] in ('ws', 'comment'):
                        j += 1
                    if j < len(toks) and s[toks[j][1]] == '{':
                        end = rsx.match_close(s, toks[j][1])
                        break
            else:
                if ch in '([{':
                    depth += 1
                elif ch in ')]}':
                    if depth == 0:
                        end = a
                        break
                    depth -= 1
                elif ch == ',' and depth == 0:
                    end = a
                    break
        if arrow is None or end is None:
            raise AnchorLost('R20: cannot delimit match arm after %s' % m.group(0))
        arm = s[m.end():end]
        if re.search(r'(?<![A-Za-z0-9_])(let\s+(mut\s+)?|\||Some\(&?|ref\s+)%s(?![A-Za-z0-9_])' % re.escape(x), arm):
            raise AnchorLost('R20: `%s` re-bound inside the arm' % x)
        out = []
        last = m.end()
        for k, a, b in rsx.tokens(arm):
            if k == 'id' and arm[a:b] == x:
                # not a field/method name (`.x`)
                pre = arm[:a].rstrip()
                if pre.endswith('.') and not pre.endswith('..'):
                    continue
                out.append(s[last:m.end() + a])
                out.append('(*%s)' % x)
                last = m.end() + b
        out.append(s[last:end])
        _count('R20.ref_pattern')
        repl = 'Some(%s)' % x + ''.join(out)
        s = s[:m.start()] + repl + s[end:]
        pos = m.start() + len(repl)


def _flat(m):
    _count('R2.path')
    return ''


# --------------------------------------------------------------------------
# contracts
# --------------------------------------------------------------------------

class Loop:
    def __init__(self, inv=(), dec=None, body_entry=None, ensures=(), invariant_except_break=()):
        self.inv = list(inv)
        self.dec = dec
        self.body_entry = body_entry
        self.ensures = list(ensures)
        self.inv_eb = list(invariant_except_break)


class Contract:
    """pre: list[str]; ok: list[str] or None (total function);
    post: list[(name, expr)]; value: for operator traits, expression of the result;
    """

    def __init__(self, pre=(), ok=None, post=(), ret='r', entry=None, loops=(), value=None,
                 stub=False, props=(), no_unwind=False, exit_hint=None, opaque_body=False,
                 extra_attrs=(), rlimit=None, out_type=None, stub_in_D=False, impl_requires=False, ok_d=None):
        self.pre = list(pre)
        # impl_requires: keep `requires` on the method of a *std* trait impl that has neither a vstd
        # *SpecImpl nor crate-trait ghost members (C09: `impl Hash for Decimal`, domain valid(*self))
        self.impl_requires = impl_requires
        # ok entries: 'expr' or ('name', 'expr')
        self.ok = None if ok is None else [o if isinstance(o, tuple) else ('ok%d' % i, o) for i, o in enumerate(ok)]
        self.post = list(post)
        self.ret = ret
        self.entry = entry
        self.loops = list(loops)
        self.value = value
        self.stub = stub          # external_body: contract assumed in this unit
        self.props = list(props)
        self.exit_hint = exit_hint
        self.extra_attrs = list(extra_attrs)
        self.rlimit = rlimit
        self.out_type = out_type
        self.stub_in_D = stub_in_D
        # optional weaker form of `ok` used as the *ensures* of the D-run
        self.ok_d = None if ok_d is None else [o if isinstance(o, tuple) else ('ok%d' % i, o) for i, o in enumerate(ok_d)]


STD_OP_TRAITS = {
    'Add': ('AddSpecImpl', 'add'), 'Sub': ('SubSpecImpl', 'sub'), 'Mul': ('MulSpecImpl', 'mul'),
    'Div': ('DivSpecImpl', 'div'), 'Rem': ('RemSpecImpl', 'rem'), 'Neg': ('NegSpecImpl', 'neg'),
}


class Segment:
    __slots__ = ('text', 'tag')

    def __init__(self, text, tag=None):
        self.text = text
        self.tag = tag


class Emitter:
    def __init__(self):
        self.segs = []

    def emit(self, text, tag=None):
        if not text.endswith('\n'):
            text += '\n'
        self.segs.append(Segment(text, tag))

    def render(self):
        """Return (text, linemap) where linemap[i] (1-based line) = tag stack."""
        lines = []
        linemap = {}
        ln = 1
        for sg in self.segs:
            k = sg.text.count('\n')
            if sg.tag is not None:
                for j in range(ln, ln + k):
                    linemap[j] = sg.tag
            lines.append(sg.text)
            ln += k
        return ''.join(lines), linemap


def parse_sig(sig):
    """`[pub] [const] [unsafe] fn name<G>(params) -> Ret [where ...]` -> dict"""
    m = re.search(r'\bfn\s+([A-Za-z_][A-Za-z0-9_]*)', sig)
    if not m:
        raise AnchorLost('no fn name in %r' % sig[:60])
    name = m.group(1)
    i = sig.find('(', m.end())
    end = rsx.match_close(sig, i)
    params = []
    for a in _split_args(sig[i + 1:end - 1]):
        a = a.strip()
        if a in ('self', 'mut self'):
            params.append(('self', None, 'self'))
        elif a in ('&self', "&'a self"):
            params.append(('self', None, '&self'))
        elif a == '&mut self':
            params.append(('self', None, '&mut self'))
        else:
            nm, ty = a.split(':', 1)
            nm = nm.strip()
            nm = re.sub(r'^mut\s+', '', nm)
            params.append((nm, ty.strip(), None))
    rest = sig[end:]
    ret = None
    am = re.search(r'->\s*(.*)$', rest, re.S)
    if am:
        ret = am.group(1).strip()
        wm = re.search(r'\bwhere\b', ret)
        if wm:
            ret = ret[:wm.start()].strip()
    return {'name': name, 'params': params, 'ret': ret}


TRAIT_POSTS = 5


def ghost_decls(sig):
    """Trait-level ghost members for a crate trait method (see DESIGN 5)."""
    ps = parse_sig(sig)
    plist = []
    args = []
    for nm, ty, slf in ps['params']:
        if slf:
            plist.append('self' if slf == 'self' else '&self')
        else:
            plist.append('%s: %s' % (nm, ty))
            args.append(nm)
    ret = ps['ret'] or '()'
    n = ps['name']
    has_self = any(slf for _, _, slf in ps['params'])
    decl = '    spec fn %s_pre(%s) -> bool;\n' % (n, ', '.join(plist))
    recv = 'self.' if has_self else 'Self::'
    req = '%s%s_pre(%s)' % (recv, n, ', '.join(args))
    ens = []
    for i in range(TRAIT_POSTS):
        decl += '    spec fn %s_post%d(%s) -> bool;\n' % (n, i, ', '.join(plist + ['r: %s' % ret]))
        ens.append('%s%s_post%d(%s)' % (recv, n, i, ', '.join(args + ['r'])))
    return decl, req, ens, plist, ret


CANARIES = []
VACUITY = [False]


def _collect_canary(key, sig, c, self_ty):
    """vacuity guard: `proof fn canary(params) requires <pre && ok> ensures false` must FAIL"""
    if c is None or c.stub:
        return
    try:
        ps = parse_sig(sig)
    except AnchorLost:
        return
    if re.search(r'fn\s+\w+\s*<\s*[A-Z]', sig):
        return            # generic over types: skipped
    params = []
    for nm, ty, slf in ps['params']:
        if slf:
            if self_ty is None or slf == '&mut self':
                return        # &mut receivers (requires mention old(self)): no canary
            t = self_ty if slf in ('self', 'mut self') else '&' + self_ty
            params.append('self_: %s' % t)
        else:
            if 'impl ' in ty or '&mut' in ty:
                return
            params.append('%s: %s' % (nm, ty))
    reqs = list(c.pre) + ([x for (_, x) in c.ok] if c.ok is not None else [])

    def fix(e):
        e = re.sub(r'(?<![A-Za-z0-9_])self(?![A-Za-z0-9_])', 'self_', e)
        if self_ty is not None:
            e = re.sub(r'(?<![A-Za-z0-9_])Self(?![A-Za-z0-9_])', self_ty, e)
        return e
    params = [re.sub(r"'[a-z_]+\s*", '', q) for q in params]
    if any(re.search(r'(?<![A-Za-z0-9_])Self(?![A-Za-z0-9_])', fix(x)) for x in params + reqs):
        return            # refers to the (generic) Self type of a trait: no stand-alone canary
    CANARIES.append((key, [fix(p) for p in params], [fix(r) for r in reqs]))


def weave_fn(item_text, key, contract, mode, em, no_requires=False, no_ensures=False, self_ty=None):
    if VACUITY[0]:
        _sig0, _ = rsx.fn_parts(rewrite_body(strip_attrs_and_comments(item_text)))
        _collect_canary(key, _sig0, contract, self_ty)
    """Emit the function `item_text` with `contract` woven in.
    mode: 'F' (forward: requires pre && ok, ensures post) or
          'D' (dev-profile partial correctness: requires pre, ensures ok && post)."""
    text = rewrite_body(strip_attrs_and_comments(item_text))
    sig, body = rsx.fn_parts(text)
    c = contract
    if c is None:
        em.emit(text, ('fn', key))
        return
    c = _rename_params(c, key, sig)       # R19
    body = _ref_operands_ufcs(sig, body)  # R62
    # --- return type
    sig = sig.rstrip()
    m = None
    depth = 0
    arrow = None
    for kind, a, b in rsx.tokens(sig):
        if kind == 'p':
            ch = sig[a]
            if ch in '([<' and not (ch == '<' and False):
                if ch != '<':
                    depth += 1
            elif ch in ')]':
                depth -= 1
            elif ch == '-' and sig[a:a + 2] == '->' and depth == 0:
                arrow = a
                break
    if arrow is not None:
        ret_t = sig[arrow + 2:].strip()
        where = ''
        wm = re.search(r'\bwhere\b', ret_t)
        if wm:
            where = ' ' + ret_t[wm.start():]
            ret_t = ret_t[:wm.start()].strip()
        sig2 = sig[:arrow] + '-> (%s: %s)%s' % (c.ret, ret_t, where)
    else:
        sig2 = sig
    requires = []
    ensures = []
    for p in c.pre:
        requires.append(('pre', p))
    if c.ok is not None:
        if mode == 'F':
            for n, p in c.ok:
                requires.append((n, p))
        else:
            for n, p in (c.ok_d if c.ok_d is not None else c.ok):
                ensures.append((n, p))
    for name, e in c.post:
        ensures.append((name, e))
    attrs = ''
    for a in c.extra_attrs:
        attrs += a + '\n'
    if c.rlimit:
        attrs += '#[verifier::rlimit(%s)]\n' % c.rlimit
    is_stub = c.stub or (c.stub_in_D and mode == 'D')
    if is_stub:
        attrs += '#[verifier::external_body]\n'
    em.emit(attrs + sig2, ('fn', key))
    if no_requires:
        # trait impl methods: requires come from the trait (ghost members / *SpecImpl); extra ensures allowed
        requires = []
    if no_ensures:
        # impls of crate traits: every clause is carried by the trait-level ghost posts
        ensures = []
    if requires:
        em.emit('    requires', ('fn', key))
        for n, p in requires:
            em.emit('        %s,' % p, ('req', key, n))
    if ensures:
        em.emit('    ensures', ('fn', key))
        for n, p in ensures:
            em.emit('        %s,' % p, ('ens', key, n))
    if body is None:
        em.emit(';', ('fn', key))
        return
    if is_stub:
        em.emit('{ unimplemented!() }', ('fn', key))
        return
    body = weave_loops(body, c.loops, key)
    # entry hint
    if c.entry:
        body = '{\n    proof { ' + c.entry + ' }\n' + body[1:]
    if c.exit_hint:
        # wrap: let r = { body }; proof{..}; r   -- only used when no early return matters
        raise AnchorLost('exit_hint unsupported')
    em.emit(body, ('fn', key))


def _ref_operands_ufcs(sig, body):
    """R62 (C15 num-traits `abs_sub`: `self - other`): an infix operator whose two operands are both bare
    parameters declared with a shared-reference type (`&self`, `x: &T`) -> the UFCS call it abbreviates
    (`Sub::sub(self, other)`; the converse of R10, same identity).  Verus 0.2026.09.13 aborts with "verus
    internal error: codegen_select_candidate failed" on the infix form with two reference operands."""
    if body is None:
        return body
    refs = []
    for nm, ty, slf in parse_sig(sig)['params']:
        if slf in ('&self', "&'a self") or (ty and re.match(r"&\s*('[a-z_]+\s+)?(?!mut\b)", ty)):
            refs.append(nm)
    if len(refs) < 2:
        return body
    alt = '|'.join(re.escape(r) for r in refs)
    inv = {v: k for k, v in OPS.items()}

    def rp(m):
        _count('R62.ref_infix')
        return '%s(%s, %s)' % (inv[m.group(2)], m.group(1), m.group(3))
    return re.sub(r'(?<![\w.])(%s)\s*([-+*/%%])\s*(%s)(?![\w.(\[])' % (alt, alt), rp, body)


_LOOP_KW = ('while', 'loop', 'for')


def weave_loops(body, loops, key):
    if not loops:
        return body
    toks = [(k, a, b) for (k, a, b) in rsx.tokens(body)]
    sig = [(k, a, b) for (k, a, b) in toks if k not in ('ws', 'comment')]
    found = []
    for idx, (k, a, b) in enumerate(sig):
        if k == 'id' and body[a:b] in _LOOP_KW:
            # `for` in `impl ... for` cannot occur inside a body; `for<'a>` HRTB neither here
            # find body-open brace: first '{' at depth 0
            depth = 0
            j = idx + 1
            while j < len(sig):
                kk, aa, bb = sig[j]
                if kk == 'p':
                    ch = body[aa]
                    if ch in '([':
                        depth += 1
                    elif ch in ')]':
                        depth -= 1
                    elif ch == '{' and depth == 0:
                        found.append(aa)
                        break
                j += 1
    if not found and loops:
        # the loop was replaced by loop-free code: there is nothing to attach the invariants to, and a
        # loop-free body needs none - the function's own postconditions still have to be proved
        return body
    if len(found) != len(loops):
        raise AnchorLost('%s: %d loops in body, %d loop contracts' % (key, len(found), len(loops)))
    out = []
    pos = 0
    for brace, lp in zip(found, loops):
        out.append(body[pos:brace])
        if lp is not None:
            spec = '\n'
            if lp.inv_eb:
                spec += '    invariant_except_break\n' + ''.join('        %s,\n' % i for i in lp.inv_eb)
            if lp.inv:
                spec += '    invariant\n' + ''.join('        %s,\n' % i for i in lp.inv)
            if lp.ensures:
                spec += '    ensures\n' + ''.join('        %s,\n' % i for i in lp.ensures)
            if lp.dec:
                spec += '    decreases %s,\n' % lp.dec
            out.append(spec)
            if lp.body_entry:
                out.append('{ proof { ' + lp.body_entry + ' }\n')
                pos = brace + 1
                continue
        pos = brace
    out.append(body[pos:])
    return ''.join(out)


# --------------------------------------------------------------------------
# Unit
# --------------------------------------------------------------------------

class Entry:
    def __init__(self, src, key, contract=None, kind='item', spec_impl=None, trait_weave=None, raw=None):
        self.src = src
        self.key = key
        self.contract = contract
        self.kind = kind
        self.spec_impl = spec_impl
        self.trait_weave = trait_weave
        self.raw = raw


class Unit:
    """A generated Verus file. Entries are emitted in order."""

    def __init__(self, name, specs=(), uses=()):
        self.name = name
        self.specs = list(specs)
        for sp_ in ('std_from_int.rs', 'std_int_methods.rs'):
            if sp_ not in self.specs:
                self.specs.append(sp_)
        self.uses = list(uses)
        self.entries = []
        self.crate_traits = set()
        self.fn_contracts = {}   # key -> Contract (for accounting)

    # -- declaration API used by units/*.py
    def item(self, src, key):
        """Include a non-function item (struct, enum, const, ...) verbatim (after R1/R2)."""
        self.entries.append(Entry(src, key, kind='item'))

    def fn(self, src, key, contract=None, transform=None):
        """transform: optional documented mechanical rewrite of the item text applied before the global
        rules (only rule R9, lib/r9macro.py, uses it)"""
        e = Entry(src, key, contract, kind='fn')
        e.transform = transform
        self.entries.append(e)
        if contract is not None:
            self.fn_contracts[key] = contract

    def impl(self, src, key, methods, spec_impl=None, extra=None):
        """Include an impl block. methods: {fn name: Contract or None}.
        spec_impl: text emitted before the impl (the vstd *SpecImpl block), may depend on mode
        (callable(mode) -> str)."""
        e = Entry(src, key, methods, kind='impl', spec_impl=spec_impl)
        e.extra = extra
        self.entries.append(e)
        for mname, c in methods.items():
            if c is not None:
                self.fn_contracts[key + '::' + mname] = c

    def inherent(self, src, key, members):
        """Selected members of (possibly several) inherent impl blocks with header `key`.
        members: {fn name or 'const NAME': Contract or None}."""
        e = Entry(src, key, members, kind='inherent')
        self.entries.append(e)
        for mname, c in members.items():
            if c is not None:
                self.fn_contracts[key + '::' + mname] = c

    def pin(self, src, key, sha=None, contains=None):
        """Trusted-base anchor: the body of an item that is NOT verified (an unsafe primitive behind an
        external_body stub, the thread_local read of R5) must be exactly the text the trust argument was
        written for. A different text raises AnchorLost (=> the bounded fallback / exit 2, never a pass)."""
        e = Entry(src, key, None, kind='pin')
        e.sha = sha
        e.contains = contains
        self.entries.append(e)

    def trait(self, src, key, methods=None, ghost=None):
        """Include a trait declaration; methods: {fn name: Contract}; ghost: extra text (spec fn decls)."""
        e = Entry(src, key, methods, kind='trait')
        e.extra = ghost
        self.entries.append(e)
        self.crate_traits.add(key.split('trait ')[-1])

    def raw(self, text, tag=None):
        self.entries.append(Entry(None, tag, kind='raw', raw=text))

    # -- generation
    def generate(self, sources, mode):
        """sources: {src name: index dict from rsx.index}. Returns (text, linemap, meta)."""
        em = Emitter()
        del CANARIES[:]
        del INLINE_HELPERS[:]
        INLINE_HELPERS.extend(getattr(self, 'inline_helpers', []))
        VACUITY[0] = (mode == 'V')
        vac = VACUITY[0]
        if vac:
            mode = 'F'
        em.emit('#![allow(unused_imports, unused_variables, unused_mut, dead_code, unused_parens, '
                'unused_braces, non_snake_case, non_camel_case_types, unused_assignments, unreachable_code)]')
        em.emit('use vstd::prelude::*;')
        em.emit('use core::ops::{Add, Sub, Mul, Div, Rem, Neg, AddAssign, SubAssign, MulAssign, DivAssign, RemAssign};')
        em.emit('use core::cmp::Ordering;')
        for u in self.uses:
            em.emit(u)
        em.emit('verus! {')
        if getattr(self, 'mul_comm', True) and os.environ.get('VERIF_MUL_COMM', '1') == '1':
            # operand order of a product must not matter to any proof (a commutative operation with swapped operands
            # is a behaviour-preserving edit): x * y == y * x is available everywhere
            em.emit('broadcast use vstd::arithmetic::mul::lemma_mul_is_commutative;')
        em.emit(panic_stub(mode))
        for sp in self.specs:
            p = os.path.join(VERIF, 'spec', sp)
            em.emit('// ---- spec library: %s' % sp)
            em.emit(open(p).read(), ('spec', sp))
        meta = {'functions': {}}
        # R2' guard: the flattened namespace identifies a free function by its name alone.  If the sources define
        # two free functions with the same name in different modules (e.g. a wrapper at the crate root that
        # replaces a re-export of the same name), calls would silently be resolved to the wrong one: no verdict.
        _seen_fn = {}
        for _src, _idx in sources.items():
            for _k, _it in _idx.items():
                if isinstance(_it, list) or getattr(_it, 'kind', None) != 'fn':
                    continue
                if 'impl' in _k or ' for ' in _k or 'trait ' in _k:
                    continue
                _n = _k.split('::')[-1]
                if _n in _seen_fn and _seen_fn[_n] != (_src, _k):
                    used = set(x.key.split('::')[-1] for x in self.entries if getattr(x, 'key', None) and x.kind == 'fn')
                    if _n in used:
                        raise AnchorLost('R2 flattening: function name `%s` is defined in more than one module (%s, %s); '
                                         'calls cannot be attributed' % (_n, _seen_fn[_n][1], _k))
                _seen_fn.setdefault(_n, (_src, _k))
        # the same for constants: two constants of one name with different definitions
        _seen_c = {}
        _used_c = set(re.sub(r'^.*const ', '', x.key) for x in self.entries if getattr(x, 'key', None) and x.kind == 'item' and re.search(r'(^|::)const \w+$', x.key))
        for _src, _idx in sources.items():
            for _k, _it in _idx.items():
                if isinstance(_it, list) or getattr(_it, 'kind', None) != 'const' or 'impl' in _k or 'trait ' in _k:
                    continue
                _n = re.sub(r'^.*const ', '', _k)
                _t = re.sub(r'^\s*(pub(\([a-z]+\))?\s+)?', '', rsx.ws_norm(strip_attrs_and_comments(_it.text)))
                if _n in _seen_c and _seen_c[_n][1] != _t and _n in _used_c:
                    raise AnchorLost('R2 flattening: constant `%s` has two different definitions (%s, %s)' % (_n, _seen_c[_n][0], _k))
                _seen_c.setdefault(_n, (_k, _t))
        for e in self.entries:
            if e.kind == 'raw':
                txt = e.raw(mode) if callable(e.raw) else e.raw
                em.emit(txt, ('raw', e.key))
                continue
            idx = sources[e.src]
            it = idx.get(e.key)
            if it is None:
                # A constant or a helper function that no longer exists has no users either (the crate would not
                # compile otherwise): nothing to emit and nothing to prove about it. Functions whose contract
                # carries property clauses (named Cnn....) must exist - their absence leaves the property undecided.
                c_ = self.fn_contracts.get(e.key)
                helper = e.kind == 'fn' and c_ is not None and not any(
                    re.match(r'C\d\d\.', str(x[0])) for x in (list(c_.post or []) + list(c_.ok or [])) if isinstance(x, tuple))
                if (e.kind in ('item', 'pin') and re.search(r'(^|::)const \w+$', e.key) and e.kind == 'item') or helper:
                    meta.setdefault('skipped_missing', []).append(e.key)
                    continue
                raise AnchorLost('item not found in expansion of %s: %s' % (e.src, e.key))
            if isinstance(it, list) and e.kind != 'inherent':
                raise AnchorLost('ambiguous item key: %s' % e.key)
            if e.kind == 'pin':
                norm = rsx.ws_norm(strip_attrs_and_comments(it.text))
                h = hashlib.sha256(norm.encode()).hexdigest()[:16]
                if e.sha is not None and h != e.sha:
                    raise AnchorLost('trusted (unverified) item %s changed: sha %s, pinned %s' % (e.key, h, e.sha))
                if e.contains is not None and e.contains not in norm:
                    raise AnchorLost('trusted (unverified) item %s no longer contains %r' % (e.key, e.contains))
                meta.setdefault('pinned', {})[e.key] = h
                continue
            if e.kind == 'item':
                t = rewrite_body(strip_attrs_and_comments(it.text))
                if it.kind in ('struct', 'enum'):
                    derives = _derives_for(idx, it)
                    t = derives + (t if t.startswith('pub') else 'pub ' + t)
                    if it.kind == 'struct':
                        # R2: visibility is dropped (single flat namespace): fields become pub
                        t = re.sub(r'(?m)^(\s*)(?!pub\b)([a-z_][A-Za-z0-9_]*\s*:)', r'\1pub \2', t)
                elif it.kind in ('const', 'trait', 'type'):
                    t = 'pub ' + t if not t.startswith('pub') else t
                em.emit(t, ('item', e.key))
            elif e.kind == 'fn':
                if it.kind != 'fn':
                    raise AnchorLost('%s is not a fn' % e.key)
                meta['functions'][e.key] = _fn_meta(it, e.src)
                txt = _pubify(it)
                if getattr(e, 'transform', None):
                    txt = e.transform(txt)
                weave_fn(txt, e.key, e.contract, mode, em)
            elif e.kind in ('impl', 'trait'):
                self._emit_impl(e, it, mode, em, meta)
            elif e.kind == 'inherent':
                self._emit_inherent(e, it, mode, em, meta)
            elif e.kind == 'method_fn':  # R54 (C12)
                _emit_method_fn(self, e, it, mode, em, meta)
        if vac:
            for i, (key, params, reqs) in enumerate(CANARIES):
                t = 'proof fn vacuity_canary_%d(%s)\n' % (i, ', '.join(params))
                if reqs:
                    t += '    requires\n' + ''.join('        %s,\n' % r for r in reqs)
                t += '    ensures false,\n{ }\n'
                em.emit(t, ('canary', key))
        em.emit('} // verus!')
        em.emit('fn main() {}')
        text, linemap = em.render()
        return text, linemap, meta

    def _emit_impl(self, e, it, mode, em, meta):
        methods = e.contract
        header = rewrite_body(strip_attrs_and_comments(it.header))
        if e.kind == 'trait':
            self._emit_trait_decl(e, it, header, mode, em, meta)
            return
        hp = parse_impl_header(it.header)
        trait = hp['trait']
        if e.spec_impl is not None:
            si = e.spec_impl(mode) if callable(e.spec_impl) else e.spec_impl
            em.emit(si, ('specimpl', e.key))
        elif trait in STD_TRAITS:
            self._emit_std_specimpl(e, it, hp, mode, em)
        em.emit(header + ' {', ('impl', e.key))
        if getattr(e, 'extra', None):
            ex = e.extra(mode) if callable(e.extra) else e.extra
            em.emit(ex, ('impl', e.key))
        _emit_const_defaults(self, trait, it, e, em)  # R52 (C12)
        is_crate_trait = trait in self.crate_traits
        seen = set()
        for ch in it.children:
            if ch.kind == 'fn':
                k = e.key + '::' + ch.name
                if ch.name not in methods:
                    raise AnchorLost('method %s has no contract entry (unit %s)' % (k, self.name))
                seen.add(ch.name)
                meta['functions'][k] = _fn_meta(ch, e.src)
                c = methods[ch.name]
                if is_crate_trait and c is not None:
                    em.emit(self._ghost_defs(ch, c, mode), ('ghost', k))
                weave_fn(ch.text, k, c, mode, em,
                         no_requires=(trait is not None and not (c is not None and c.impl_requires)),
                         no_ensures=is_crate_trait,
                         self_ty=(None if (hp['generics'] and re.search(r'[A-Z]', hp['generics'])) or hp['self_ty'] == 'Self'
                                  else hp['self_ty']))
            else:
                em.emit(rewrite_body(strip_attrs_and_comments(ch.text)), ('impl', e.key))
        missing = set(methods) - seen
        if missing:
            raise AnchorLost('contracted methods missing from %s: %s' % (e.key, sorted(missing)))
        em.emit('}', ('impl', e.key))

    def _ghost_defs(self, ch, c, mode):
        text = rewrite_body(strip_attrs_and_comments(ch.text))
        sig, _ = rsx.fn_parts(text)
        decl, req, ens, plist, ret = ghost_decls(sig)
        n = parse_sig(sig)['name']
        pre = list(c.pre)
        post = [x for (_, x) in c.post]
        if c.ok is not None:
            if mode == 'F':
                pre += [x for (_, x) in c.ok]
            else:
                post = [x for (_, x) in (c.ok_d if c.ok_d is not None else c.ok)] + post
        rn = c.ret
        if len(post) > TRAIT_POSTS:
            raise AnchorLost('more than %d post clauses on a trait method (%s)' % (TRAIT_POSTS, n))
        out = '    open spec fn %s_pre(%s) -> bool { %s }\n' % (n, ', '.join(plist), _conj(pre))
        for i in range(TRAIT_POSTS):
            body = post[i] if i < len(post) else 'true'
            out += '    open spec fn %s_post%d(%s) -> bool { %s }\n' % (n, i, ', '.join(plist + ['%s: %s' % (rn, ret)]), body)
        return out

    def _emit_trait_decl(self, e, it, header, mode, em, meta):
        if not header.startswith('pub'):
            header = 'pub ' + header
        em.emit(header + ' {', ('impl', e.key))
        if getattr(e, 'extra', None):
            # extra ghost members of the trait (e.g. a `proof fn` obligation relating the ghost
            # pre/post members, needed to verify a default method body; C09 AsIntegerRatio)
            ex = e.extra(mode) if callable(e.extra) else e.extra
            em.emit(ex, ('impl', e.key))
        for ch in it.children:
            if ch.kind != 'fn':
                em.emit(_trait_const_default(self, e, rewrite_body(strip_attrs_and_comments(ch.text))), ('impl', e.key))  # R52
                continue
            if getattr(e, 'concrete', False):  # R55 (C12): contract stated directly on the trait method
                k = e.key + '::' + ch.name
                if rsx.fn_parts(ch.text)[1] is not None:
                    meta['functions'][k] = _fn_meta(ch, e.src)
                weave_fn(ch.text, k, (e.contract or {}).get(ch.name), mode, em)
                continue
            text = rewrite_body(strip_attrs_and_comments(ch.text))
            sig, body = rsx.fn_parts(text)
            decl, req, ens, plist, ret = ghost_decls(sig)
            em.emit(decl, ('impl', e.key))
            k = e.key + '::' + ch.name
            c = Contract(pre=[req], post=[('post%d' % i, x) for i, x in enumerate(ens)])
            if body is not None:
                # default method body: verified against the trait-level contract
                meta['functions'][k] = _fn_meta(ch, e.src)
                dc = (e.contract or {}).get(ch.name)
                if dc is not None:
                    c.entry = dc.entry
            weave_fn(ch.text, k, c, mode, em)
        em.emit('}', ('impl', e.key))

    def _emit_std_specimpl(self, e, it, hp, mode, em):
        st = STD_TRAITS[hp['trait']]
        methods = e.contract
        mname = st['m']
        c = methods.get(mname)
        if c is None:
            return
        ch = [x for x in it.children if x.kind == 'fn' and x.name == mname]
        if not ch:
            raise AnchorLost('%s: method %s missing' % (e.key, mname))
        text = rewrite_body(strip_attrs_and_comments(ch[0].text))
        sig, _ = rsx.fn_parts(text)
        ps = parse_sig(sig)
        plist = []
        for nm, ty, slf in ps['params']:
            plist.append(slf if slf else '%s: %s' % (nm, ty))
        targs = hp['trait_args']
        gen = hp['generics'] or ''
        where = (' where ' + hp['where']) if hp['where'] else ''
        out = 'impl%s %s%s for %s%s {\n' % (gen, st['si'], targs, hp['self_ty'], where)
        if c.value is None:
            out += '    open spec fn %s() -> bool { false }\n' % st['obeys']
            val = 'arbitrary()'
        else:
            out += '    open spec fn %s() -> bool { true }\n' % st['obeys']
            val = c.value
        if st.get('req'):
            pre = list(c.pre)
            if c.ok is not None and mode == 'F':
                pre += [x for (_, x) in c.ok]
            out += '    open spec fn %s(%s) -> bool { %s }\n' % (st['req'], ', '.join(plist), _conj(pre))
        ret = c.out_type or ps['ret']
        out += '    open spec fn %s(%s) -> %s { %s }\n' % (st['spec'], ', '.join(plist), ret, val)
        out += '}\n'
        em.emit(out, ('specimpl', e.key))


def _conj(xs):
    if not xs:
        return 'true'
    return ' && '.join('(%s)' % x for x in xs)


def parse_impl_header(h):
    """`impl<G> Trait<Args> for SelfTy where W` -> parts (trait None for inherent impls)."""
    m = re.match(r'(unsafe\s+)?impl\s*', h)
    rest = h[m.end():]
    gen = None
    if rest.startswith('<'):
        # generics: match angle brackets
        depth = 0
        for i, ch in enumerate(rest):
            if ch == '<':
                depth += 1
            elif ch == '>':
                depth -= 1
                if depth == 0:
                    gen = rest[:i + 1]
                    rest = rest[i + 1:].strip()
                    break
    where = None
    wm = re.search(r'\bwhere\b', rest)
    if wm:
        where = rest[wm.end():].strip().rstrip(',').strip()
        rest = rest[:wm.start()].strip()
    fm = re.search(r'\sfor\s', ' ' + rest)
    if not fm:
        return {'generics': gen, 'trait': None, 'trait_args': '', 'self_ty': rest.strip(), 'where': where}
    tr = rest[:fm.start()].strip()
    self_ty = rest[fm.end() - 1:].strip()
    tm = re.match(r'([A-Za-z_:][A-Za-z0-9_:]*)(<.*>)?$', tr)
    tname = tm.group(1).split('::')[-1]
    return {'generics': gen, 'trait': tname, 'trait_args': tm.group(2) or '', 'self_ty': self_ty, 'where': where}


STD_TRAITS = {}
for _t, _m in (('Add', 'add'), ('Sub', 'sub'), ('Mul', 'mul'), ('Div', 'div'), ('Rem', 'rem'), ('Neg', 'neg')):
    STD_TRAITS[_t] = {'si': 'vstd::std_specs::ops::%sSpecImpl' % _t, 'obeys': 'obeys_%s_spec' % _m,
                      'req': '%s_req' % _m, 'spec': '%s_spec' % _m, 'm': _m}
for _t, _m in (('AddAssign', 'add_assign'), ('SubAssign', 'sub_assign'), ('MulAssign', 'mul_assign'),
               ('DivAssign', 'div_assign'), ('RemAssign', 'rem_assign')):
    STD_TRAITS[_t] = {'si': 'vstd::std_specs::ops::%sSpecImpl' % _t, 'obeys': 'obeys_%s_spec' % _m,
                      'req': '%s_req' % _m, 'spec': '%s_spec' % _m, 'm': _m}
STD_TRAITS['PartialEq'] = {'si': 'vstd::std_specs::cmp::PartialEqSpecImpl', 'obeys': 'obeys_eq_spec', 'req': None,
                           'spec': 'eq_spec', 'm': 'eq'}
STD_TRAITS['PartialOrd'] = {'si': 'vstd::std_specs::cmp::PartialOrdSpecImpl', 'obeys': 'obeys_partial_cmp_spec',
                            'req': None, 'spec': 'partial_cmp_spec', 'm': 'partial_cmp'}
STD_TRAITS['Ord'] = {'si': 'vstd::std_specs::cmp::OrdSpecImpl', 'obeys': 'obeys_cmp_spec', 'req': None,
                     'spec': 'cmp_spec', 'm': 'cmp'}
STD_TRAITS['From'] = {'si': 'vstd::std_specs::convert::FromSpecImpl', 'obeys': 'obeys_from_spec', 'req': None,
                      'spec': 'from_spec', 'm': 'from'}
STD_TRAITS['TryFrom'] = {'si': 'vstd::std_specs::convert::TryFromSpecImpl', 'obeys': 'obeys_try_from_spec',
                         'req': None, 'spec': 'try_from_spec', 'm': 'try_from'}


def _emit_inherent(self, e, it, mode, em, meta):
    blocks = it if isinstance(it, list) else [it]
    members = e.contract
    header = rewrite_body(strip_attrs_and_comments(blocks[0].header))
    em.emit(header + ' {', ('impl', e.key))
    seen = set()
    for b in blocks:
        for ch in b.children:
            nm = ch.name if ch.kind == 'fn' else '%s %s' % (ch.kind, ch.name)
            if nm not in members:
                continue
            if nm in seen:
                raise AnchorLost('member %s occurs twice in %s' % (nm, e.key))
            seen.add(nm)
            if ch.kind == 'fn':
                k = e.key + '::' + ch.name
                meta['functions'][k] = _fn_meta(ch, e.src)
                weave_fn(ch.text, k, members[nm], mode, em, self_ty=parse_impl_header(blocks[0].header)['self_ty'])
            else:
                em.emit(rewrite_body(strip_attrs_and_comments(ch.text)), ('impl', e.key))
    missing = set(members) - seen
    if missing:
        raise AnchorLost('members missing from %s: %s' % (e.key, sorted(missing)))
    em.emit('}', ('impl', e.key))


Unit._emit_inherent = _emit_inherent


def _pubify(it):
    t = it.text
    return t


SKEL_TOK = re.compile(r'\b(if|else|match|while|loop|for|return|break|continue)\b|(=>)|(\?)(?=\s*[;,.)\]}])')


def skeleton(text):
    """control-flow skeleton of a function: the sequence of control keywords, match arrows and `?` operators
    (after comment stripping and the R15 loop normalisation).  Expressions, names, constants and calls are not part
    of it.  Used only to tell whether a function still has the structure its proof script (loop contracts woven by
    ordinal, entry hints) was written for."""
    t = strip_attrs_and_comments(text)
    try:
        t = rewrite_loop_break(t)
    except Exception:
        pass
    t = re.sub(r'"(?:[^"\\]|\\.)*"', '""', t)
    toks = [m.group(1) or m.group(2) or m.group(3) for m in SKEL_TOK.finditer(t)]
    return hashlib.sha256(' '.join(toks).encode()).hexdigest()[:12], len(toks)


def _param_names(text):
    try:
        t = strip_attrs_and_comments(text)
        sig = t[:t.index('{')] if '{' in t else t
        return [nm for (nm, ty, slf) in parse_sig(sig)['params'] if not slf]
    except Exception:
        return None


def _fn_meta(it, src):
    sk, n = skeleton(it.text)
    return {'src': src, 'sha256': hashlib.sha256(it.text.encode()).hexdigest()[:16], 'skeleton': sk, 'skeleton_tokens': n,
            'params': _param_names(it.text)}


_SIGS = [None]


def _rename_params(c, key, sig):
    """Contracts name the parameters of the function they were written for.  If the function's parameters were
    renamed (same number, same order), the names in the contract text are renamed with them; lib/signatures.json
    (tools/skeletons.py --write) holds the parameter names each contract was written for."""
    import copy
    import json as _json
    if _SIGS[0] is None:
        try:
            _SIGS[0] = _json.load(open(os.path.join(VERIF, 'lib', 'signatures.json')))
        except Exception:
            _SIGS[0] = {}
    ref = _SIGS[0].get(key)
    if not ref:
        return c
    try:
        cur = [nm for (nm, ty, slf) in parse_sig(sig)['params'] if not slf]
    except Exception:
        return c
    if len(cur) != len(ref) or cur == ref:
        return c
    mp = {a: b for a, b in zip(ref, cur) if a != b}
    if not mp or len(set(cur)) != len(cur):
        return c
    pat = re.compile(r'(?<![A-Za-z0-9_.])(%s)(?![A-Za-z0-9_])' % '|'.join(re.escape(k) for k in sorted(mp, key=len, reverse=True)))

    def rn(x):
        if isinstance(x, str):
            return pat.sub(lambda m: mp[m.group(1)], x)
        if isinstance(x, tuple):
            return tuple([x[0]] + [rn(y) for y in x[1:]]) if len(x) == 2 and isinstance(x[0], str) and re.match(r'^[A-Za-z0-9_.]+$', x[0]) else tuple(rn(y) for y in x)
        if isinstance(x, list):
            return [rn(y) for y in x]
        return x
    c2 = copy.copy(c)
    for f in ('pre', 'ok', 'ok_d', 'post', 'value', 'entry'):
        if getattr(c2, f, None) is not None:
            setattr(c2, f, rn(getattr(c2, f)))
    loops = []
    for lp in (c.loops or []):
        l2 = copy.copy(lp)
        for f in ('inv', 'dec', 'body_entry', 'ensures', 'inv_eb'):
            if getattr(l2, f, None) is not None:
                setattr(l2, f, rn(getattr(l2, f)))
        loops.append(l2)
    c2.loops = loops
    _count('R19.param_rename')
    return c2


def _derives_for(idx, it):
    """R1: derive(Clone, Copy, PartialEq, Eq) impls printed by rustc as
    #[automatically_derived] are replaced by the derive attribute again."""
    name = it.name
    have = []
    for k in idx:
        m = re.search(r'impl ::core::(clone::Clone|marker::Copy|cmp::PartialEq|cmp::Eq|marker::StructuralPartialEq) for %s$' % re.escape(name), k)
        if m:
            have.append(m.group(1).split('::')[1])
    ds = [d for d in ('Clone', 'Copy', 'PartialEq', 'Eq') if d in have]
    if ds:
        return '#[derive(%s)]\n' % ', '.join(ds)
    return ''


def panic_stub(mode):
    # R60: the stub is a `const fn` so that `const fn`s of /repo containing a panic (debug_assert! in
    # `Decimal::new_raw`) pass rustc's const check, which runs after a fully successful verification
    if mode == 'F':
        return ('#[verifier::external_body]\n'
                'pub const fn explicit_panic() -> !\n'
                '    requires false,\n'
                '{ panic!() }\n')
    return ('#[verifier::external_body]\n'
            'pub const fn explicit_panic() -> !\n'
            '    ensures false,\n'
            '{ panic!() }\n')


# --------------------------------------------------------------------------
# C12 (Decimal -> f64/f32): rules R51-R55.  Additive; no other unit matches these patterns.
# --------------------------------------------------------------------------

def rewrite_float_out(s):
    # R51: associated consts of the primitive float types cannot be read in Verus ("cannot read const with
    # mode exec"): `Self::MANTISSA_DIGITS`, `Self::MAX_EXP` -> the same names on trait `StdFloatConsts`
    # (spec/std_float_out.rs), whose impls for f64 / f32 list the std-documented values (trusted table).
    s, k = re.subn(r'(?<![A-Za-z0-9_:])Self::(MANTISSA_DIGITS|MAX_EXP)(?![A-Za-z0-9_])', r'<Self as StdFloatConsts>::\1', s)
    _count('R51.float_const', k)
    # R53: the primitive cast `X.coeff as <float>` (i128 -> f64/f32).  Verus gives exec int->float casts a
    # nondeterministic result (probed: `let a = x as f64; let b = x as f64; assert(a == b)` fails), so the
    # cast is named: `<F as CastFromI128>::cast_from_i128(X.coeff)`, an external_body stub (spec/std_float_out.rs)
    # whose body is the same cast and whose result is the uninterpreted `i128_as_f64/f32(x)` (trusted: rustc/LLVM).
    # The operand is any local / field path (`d.coeff`, or a local the coefficient was bound to): what matters is
    # the cast, not how its operand is spelled.  An operand that is not an i128 does not type-check against the
    # stub (front-end error => bounded fallback / undecided, never an alarm).
    s, k = re.subn(r'(?<![A-Za-z0-9_.])((?:self|[a-z_][a-z0-9_]*)(?:\.[a-z_][a-z0-9_]*)*) as (Self|f64|f32)(?![A-Za-z0-9_])',
                   r'<\2 as CastFromI128>::cast_from_i128(\1)', s)
    _count('R53.float_cast', k)
    return s


# R52: Verus cannot evaluate a function call in the initializer of an associated const ("cannot call
# function with mode exec").  A trait's defaulted associated const whose initializer calls `size_of` is
# declared without default in the trait and instantiated in every impl of the trait that does not override
# it (which is what rustc does), with `Self::X` resolved through the impl's `type X = T;` and
# `size_of::<T>()` replaced from the layout table of the primitive integer types (Rust reference, "Type
# layout": trusted).
SIZE_OF_PRIM = {'u8': 1, 'i8': 1, 'u16': 2, 'i16': 2, 'u32': 4, 'i32': 4, 'u64': 8, 'i64': 8, 'u128': 16, 'i128': 16}


def _trait_const_default(unit, e, text):
    if not text.lstrip().startswith('const') or 'size_of::<' not in text:
        return text
    m = re.match(r'\s*const\s+(\w+)\s*:\s*([^=;]+?)\s*=\s*(.*?);\s*$', text, re.S)
    if not m:
        raise AnchorLost('R52: unexpected shape of defaulted associated const: %r' % text[:80])
    tname = e.key.split('trait ')[-1]
    unit.__dict__.setdefault('const_defaults', {}).setdefault(tname, {})[m.group(1)] = m.groups()  # idempotent per unit
    _count('R52.const_default')
    return 'const %s: %s;' % (m.group(1), m.group(2))


def _emit_const_defaults(unit, trait, it, e, em):
    for name, ty, init in unit.__dict__.get('const_defaults', {}).get(trait, {}).values():
        if any(ch.kind == 'const' and ch.name == name for ch in it.children):
            continue
        types = {}
        for ch in it.children:
            tm = re.match(r'\s*type\s+(\w+)\s*=\s*(\w+)\s*;', strip_attrs_and_comments(ch.text)) if ch.kind == 'type' else None
            if tm:
                types[tm.group(1)] = tm.group(2)
        v = re.sub(r'(?<![A-Za-z0-9_:])Self::(\w+)', lambda m: types.get(m.group(1), m.group(0)), init)

        def so(m):
            if m.group(1) not in SIZE_OF_PRIM:
                raise AnchorLost('R52: size_of of non-primitive type %s' % m.group(1))
            return '%dusize' % SIZE_OF_PRIM[m.group(1)]
        v = re.sub(r'(?<![A-Za-z0-9_])size_of::<\s*([A-Za-z0-9_:]+)\s*>\(\)', so, v)
        if 'size_of' in v or 'Self::' in v:
            raise AnchorLost('R52: cannot instantiate default of const %s in %s: %s' % (name, e.key, v))
        em.emit('    const %s: %s = %s;' % (name, ty, v), ('impl', e.key))


def _trait_concrete(self, src, key, methods, ghost=None):
    """R55: a crate trait whose methods carry their contracts directly (requires/ensures woven on the trait
    method, default bodies verified against them) instead of the generated ghost pre/post members."""
    e = Entry(src, key, methods, kind='trait')
    e.extra = ghost
    e.concrete = True
    self.entries.append(e)


def _method_fn(self, src, impl_key, mname, contract, fn_name):
    """R54: a method of an impl of a *std* trait whose contract needs a domain (`requires`) the trait cannot
    carry (Verus: "trait method implementation cannot declare requires clauses"; `From` has no `*_req`) is
    emitted as the free function `fn_name`: same text, `Self` replaced by the impl's self type."""
    e = Entry(src, impl_key, contract, kind='method_fn')
    e.mname = mname
    e.fn_name = fn_name
    self.entries.append(e)
    self.fn_contracts[impl_key + '::' + mname] = contract


def _emit_method_fn(self, e, it, mode, em, meta):
    ch = [x for x in it.children if x.kind == 'fn' and x.name == e.mname]
    if len(ch) != 1:
        raise AnchorLost('R54: method %s missing from %s' % (e.mname, e.key))
    self_ty = parse_impl_header(it.header)['self_ty']
    if not re.match(r'[A-Za-z0-9_]+$', self_ty):
        raise AnchorLost('R54: self type %r' % self_ty)
    t = ch[0].text
    # R61 (C14): `Self::Assoc` -> the associated type's definition in the same impl (`type Error = X;`);
    # after R54's `Self` -> self type the path `i128::Error` would be ambiguous
    for a in it.children:
        am = re.match(r'type\s+([A-Za-z_][A-Za-z0-9_]*)\s*=\s*([^;]+);\s*$', a.text.strip()) if a.kind == 'type' else None
        if am:
            t, k = re.subn(r'(?<![A-Za-z0-9_])Self::%s(?![A-Za-z0-9_])' % am.group(1), am.group(2).strip(), t)
            _count('R61.assoc_type', k)
    t = re.sub(r'(?<![A-Za-z0-9_])Self(?![A-Za-z0-9_])', self_ty, t)
    t, k = re.subn(r'\bfn\s+%s\s*\(' % re.escape(e.mname), 'fn %s(' % e.fn_name, t, count=1)
    if k != 1:
        raise AnchorLost('R54: cannot rename %s' % e.mname)
    _count('R54.method_fn')
    key = e.key + '::' + e.mname
    meta['functions'][key] = _fn_meta(ch[0], e.src)
    weave_fn(t, key, e.contract, mode, em)


Unit.trait_concrete = _trait_concrete
Unit.method_fn = _method_fn
