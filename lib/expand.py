"""Step (1): macro-expand the real crates from /repo's *current working tree*.

The expansion is produced by rustc itself (`-Zunpretty=expanded`) on every
check invocation; the only thing kept between invocations is cargo's own
target directory (dependency metadata), which cargo invalidates by content
fingerprint when a source file changes.
"""
import hashlib
import os
import subprocess
import sys

REPO = os.environ.get('VERIF_REPO', '/repo')
VERIF = os.path.dirname(os.path.dirname(os.path.abspath(__file__)))
CACHE = os.path.join(VERIF, '.cache')


class ExpandError(Exception):
    pass


def _run(cmd, env, cwd):
    p = subprocess.run(cmd, env=env, cwd=cwd, stdout=subprocess.PIPE, stderr=subprocess.PIPE, text=True)
    return p


def source_fingerprint():
    h = hashlib.sha256()
    for root in ('src', 'fpdec-core/src', 'fpdec-macros/src'):
        base = os.path.join(REPO, root)
        for dp, dn, fn in sorted(os.walk(base)):
            dn.sort()
            for f in sorted(fn):
                if f.endswith('.rs'):
                    p = os.path.join(dp, f)
                    h.update(p.encode())
                    h.update(open(p, 'rb').read())
    for f in ('Cargo.toml', 'fpdec-core/Cargo.toml', 'fpdec-macros/Cargo.toml'):
        h.update(open(os.path.join(REPO, f), 'rb').read())
    return h.hexdigest()


def expand(crate, features=()):
    """Return the expanded source text of `crate` ('fpdec-core', 'fpdec', 'fpdec-macros')."""
    os.makedirs(CACHE, exist_ok=True)
    fp = source_fingerprint()
    tag = crate + ('+' + '+'.join(features) if features else '')
    out = os.path.join(CACHE, 'expanded-%s-%s.rs' % (tag, fp[:16]))
    if os.path.exists(out):
        return open(out).read()
    env = dict(os.environ)
    env['RUSTC_BOOTSTRAP'] = '1'
    env['CARGO_NET_OFFLINE'] = 'true'
    env['CARGO_TARGET_DIR'] = os.path.join(CACHE, 'target')
    # make sure we use the repository's toolchain, not verus'
    env.pop('RUSTUP_TOOLCHAIN', None)
    cmd = ['cargo', 'rustc', '--offline', '-p', crate, '--lib']
    if features:
        cmd += ['--features', ','.join(features)]
    cmd += ['--', '-Zunpretty=expanded']
    p = _run(cmd, env, REPO)
    if p.returncode != 0:
        raise ExpandError("expansion of %s failed:\n%s" % (crate, p.stderr[-4000:]))
    # drop stale expansions of the same tag
    for f in os.listdir(CACHE):
        if f.startswith('expanded-%s-' % tag) and f.endswith('.rs'):
            try:
                os.unlink(os.path.join(CACHE, f))
            except OSError:
                pass
    tmp = out + '.%d.tmp' % os.getpid()
    open(tmp, 'w').write(p.stdout)
    os.replace(tmp, out)
    return p.stdout


if __name__ == '__main__':
    t = expand(sys.argv[1], tuple(sys.argv[2:]))
    sys.stdout.write(t)
