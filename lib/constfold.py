"""R16: constant folding of parenthesised integer-literal expressions.

`((1_u64 << 52) - 1)` -> `4503599627370495_u64`, `(u64::MAX as u128)` -> `18446744073709551615_u128`.
rustc evaluates such expressions at compile time and rejects (deny-by-default lints arithmetic_overflow /
overflowing_literals) any that overflow, so in code that compiles the value is the mathematical one; Verus,
on the other hand, needs bit-vector reasoning for `1 << 52` and reports a spurious "possible overflow" for
the subtraction.  Only groups that consist solely of integer literals, the associated constants
MAX/MIN/BITS of the primitive integer types, lossless `as` casts and the operators << >> + - * / % & | ^
are folded; anything else is left untouched."""
import re

INT_T = {}
for _b in (8, 16, 32, 64, 128):
    INT_T['u%d' % _b] = (0, 2 ** _b - 1, _b)
    INT_T['i%d' % _b] = (-2 ** (_b - 1), 2 ** (_b - 1) - 1, _b)
INT_T['usize'] = INT_T['u64']
INT_T['isize'] = INT_T['i64']

TOK = re.compile(r'\s*(?:(0x[0-9a-fA-F_]+|0b[01_]+|0o[0-7_]+|[0-9][0-9_]*)(?:_?((?:u|i)(?:8|16|32|64|128|size)))?'
                 r'|((?:u|i)(?:8|16|32|64|128|size))::(MAX|MIN|BITS)'
                 r'|(<<|>>|[-+*/%&|^()])'
                 r'|(as)\s+((?:u|i)(?:8|16|32|64|128|size))\b'
                 r'|([A-Z][A-Z0-9_]*)\b(?!\s*(?:::|\(|\[|\{|!)))')


class NoFold(Exception):
    pass


ENV = {}


def _tokens(t):
    pos, out = 0, []
    t = t.strip()
    while pos < len(t):
        m = TOK.match(t, pos)
        if not m or m.end() == pos:
            raise NoFold()
        if m.group(1) is not None:
            lit = m.group(1).replace('_', '')
            v = int(lit, 0) if lit[:2] in ('0x', '0b', '0o') else int(lit, 10)
            out.append(('n', v, m.group(2)))
        elif m.group(3) is not None:
            lo, hi, bits = INT_T[m.group(3)]
            v = {'MAX': hi, 'MIN': lo, 'BITS': bits}[m.group(4)]
            out.append(('n', v, 'u32' if m.group(4) == 'BITS' else m.group(3)))
        elif m.group(5) is not None:
            out.append(('o', m.group(5), None))
        elif m.group(6) is not None:
            out.append(('as', m.group(7), None))
        else:
            # a named constant of the same item whose initialiser is an integer literal
            if m.group(8) not in ENV:
                raise NoFold()
            out.append(('n',) + ENV[m.group(8)])
        pos = m.end()
    return out


PREC = [('|',), ('^',), ('&',), ('<<', '>>'), ('+', '-'), ('*', '/', '%')]


def _eval(toks):
    """returns (value, type or None); raises NoFold"""
    pos = [0]

    def peek():
        return toks[pos[0]] if pos[0] < len(toks) else None

    def atom():
        t = peek()
        if t is None:
            raise NoFold()
        if t[0] == 'n':
            pos[0] += 1
            v, ty = t[1], t[2]
        elif t[0] == 'o' and t[1] == '(':
            pos[0] += 1
            v, ty = level(0)
            t2 = peek()
            if not t2 or t2[1] != ')':
                raise NoFold()
            pos[0] += 1
        else:
            raise NoFold()
        while peek() and peek()[0] == 'as':
            ty2 = peek()[1]
            lo, hi, _ = INT_T[ty2]
            if not (lo <= v <= hi):
                raise NoFold()       # a truncating cast: leave it to the verifier
            ty = ty2
            pos[0] += 1
        return v, ty

    def level(i):
        if i == len(PREC):
            return atom()
        v, ty = level(i + 1)
        while peek() and peek()[0] == 'o' and peek()[1] in PREC[i]:
            op = peek()[1]
            pos[0] += 1
            w, ty2 = level(i + 1)
            if op in ('<<', '>>'):
                if w < 0 or w > 127:
                    raise NoFold()
                v = (v << w) if op == '<<' else (v >> w)
            else:
                if ty and ty2 and ty != ty2:
                    raise NoFold()
                ty = ty or ty2
                if op in ('/', '%'):
                    if w == 0 or v < 0 or w < 0:
                        raise NoFold()
                    v = v // w if op == '/' else v % w
                else:
                    v = {'+': v + w, '-': v - w, '*': v * w, '&': v & w, '|': v | w, '^': v ^ w}[op]
            if ty:
                lo, hi, _ = INT_T[ty]
                if not (lo <= v <= hi):
                    raise NoFold()
        return v, ty
    v, ty = level(0)
    if pos[0] != len(toks):
        raise NoFold()
    return v, ty


def fold(s, count=None):
    """string literals are left alone; see _fold"""
    parts = re.split(r'("(?:[^"\\]|\\.)*")', s)
    n = [0]

    def cnt(k, v):
        n[0] += v
    out = []
    for i, p in enumerate(parts):
        out.append(p if i % 2 else _fold(p, cnt))
    if count is not None and n[0]:
        count('R16.constfold', n[0])
    return ''.join(out)


CONST_DEF = re.compile(r'\bconst\s+([A-Z][A-Z0-9_]*)\s*:\s*((?:u|i)(?:8|16|32|64|128|size))\s*=\s*'
                       r'(0x[0-9a-fA-F_]+|0b[01_]+|0o[0-7_]+|[0-9][0-9_]*)(?:_?(?:u|i)(?:8|16|32|64|128|size))?\s*;')


def _fold(s, count=None):
    """named integer constants defined in the same item take part (two rounds: a constant whose initialiser
    folds to a literal in round one is known in round two)"""
    n = [0]

    def cnt(k, v):
        n[0] += v
    for _ in range(3):
        ENV.clear()
        for m in CONST_DEF.finditer(s):
            lit = m.group(3).replace('_', '')
            v = int(lit, 0) if lit[:2] in ('0x', '0b', '0o') else int(lit, 10)
            if m.group(1) in ENV and ENV[m.group(1)] != (v, m.group(2)):
                ENV[m.group(1)] = None
            else:
                ENV[m.group(1)] = (v, m.group(2))
        for k in [k for k, v in ENV.items() if v is None]:
            del ENV[k]
        before = n[0]
        s = _fold1(s, cnt)
        if n[0] == before:
            break
    ENV.clear()
    if count is not None and n[0]:
        count('R16.constfold', n[0])
    return s


def _fold1(s, count=None):
    """folds innermost-first every parenthesised group that is a pure integer-constant expression with at
    least one operator or cast (plain `(5)` is left alone)"""
    changed = True
    n = 0
    while changed:
        changed = False
        for m in re.finditer(r'\(([^()]*)\)', s):
            inner = m.group(1)
            if not re.search(r'<<|>>|[-+*/%&|^]|\bas\b', inner) or not re.search(r'[0-9]|::(?:MAX|MIN|BITS)|[A-Z][A-Z0-9_]+', inner):
                continue
            # not a call / generic argument list / tuple: the group must not follow an identifier or `>`
            pre = s[:m.start()].rstrip()
            if pre and (pre[-1].isalnum() or pre[-1] in '_>!'):
                continue
            if ',' in inner:
                continue
            try:
                v, ty = _eval(_tokens(inner))
            except NoFold:
                continue
            if v < 0:
                continue
            lit = '%d%s' % (v, ('_' + ty) if ty else '')
            # keep the group if it is followed by a method call / `as` (the literal alone parses the same, but
            # `5.foo()` would not)
            post = s[m.end():m.end() + 1]
            rep = ('(%s)' % lit) if post == '.' else lit
            s = s[:m.start()] + rep + s[m.end():]
            n += 1
            changed = True
            break
    # whole initialisers: `= <constant expression>;`
    def init(m):
        inner = m.group(2)
        if not re.search(r'<<|>>|[-+*/%&|^]|\bas\b', inner):
            return m.group(0)
        try:
            v, ty = _eval(_tokens(inner))
        except NoFold:
            return m.group(0)
        if v < 0:
            return m.group(0)
        nonlocal_n[0] += 1
        return '%s%d%s;' % (m.group(1), v, ('_' + ty) if ty else '')
    nonlocal_n = [0]
    s = re.sub(r'((?<![=!<>+\-*/%&|^])=\s*)([^;=(){}\[\],"]+);', init, s)
    n += nonlocal_n[0]
    if count is not None and n:
        count('R16.constfold', n)
    return s
