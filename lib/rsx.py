"""Mechanical extraction of items from rustc's `-Zunpretty=expanded` output.

Nothing in here knows about fpdec: it splits Rust source text into an item
tree (modules, impls, traits, fns, consts, ...), using a small lexer that
understands comments, strings, raw strings, chars and lifetimes so that brace
matching is exact.  Items are addressed by a *key*:

    <module path>::<fn name>                       free function
    <module path>::<impl header>::<fn name>        method of an impl
    <module path>::<impl header>                   whole impl
    <module path>::<kind> <name>                   struct/enum/const/trait/...

where <impl header> is the text between `impl` and `{` with whitespace
collapsed and an empty trailing `where` removed, e.g.
`impl<'a> Add<Decimal> for &'a Decimal where Decimal: Add<Decimal>`.
"""
import re


class AnchorLost(Exception):
    """An expected shape was not found: the check must exit 2, never pass/alarm."""


def _skip_string(s, i):
    # s[i] == '"'
    i += 1
    n = len(s)
    while i < n:
        c = s[i]
        if c == '\\':
            i += 2
            continue
        if c == '"':
            return i + 1
        i += 1
    raise AnchorLost("unterminated string literal")


def _skip_raw_string(s, i):
    # s[i] == 'r', followed by #* and "
    j = i + 1
    h = 0
    while s[j] == '#':
        h += 1
        j += 1
    assert s[j] == '"'
    end = s.find('"' + '#' * h, j + 1)
    if end < 0:
        raise AnchorLost("unterminated raw string")
    return end + 1 + h


_ident = re.compile(r'[A-Za-z_][A-Za-z0-9_]*')


def tokens(s):
    """Yield (kind, start, end). kind in {'ws','comment','str','char','life','id','num','p'}"""
    i = 0
    n = len(s)
    while i < n:
        c = s[i]
        if c.isspace():
            j = i + 1
            while j < n and s[j].isspace():
                j += 1
            yield ('ws', i, j)
            i = j
        elif s.startswith('//', i):
            j = s.find('\n', i)
            if j < 0:
                j = n
            yield ('comment', i, j)
            i = j
        elif s.startswith('/*', i):
            depth = 1
            j = i + 2
            while depth and j < n:
                if s.startswith('/*', j):
                    depth += 1
                    j += 2
                elif s.startswith('*/', j):
                    depth -= 1
                    j += 2
                else:
                    j += 1
            yield ('comment', i, j)
            i = j
        elif c == '"':
            j = _skip_string(s, i)
            yield ('str', i, j)
            i = j
        elif c == 'b' and i + 1 < n and s[i + 1] == '"':
            j = _skip_string(s, i + 1)
            yield ('str', i, j)
            i = j
        elif c == 'r' and re.match(r'r#*"', s[i:i + 40]):
            j = _skip_raw_string(s, i)
            yield ('str', i, j)
            i = j
        elif c == 'b' and i + 1 < n and s[i + 1] == 'r' and re.match(r'br#*"', s[i:i + 40]):
            j = _skip_raw_string(s, i + 1)
            yield ('str', i, j)
            i = j
        elif c == "'" or (c == 'b' and i + 1 < n and s[i + 1] == "'"):
            k = i + 1 if c == 'b' else i
            # char literal or lifetime
            if s[k + 1] == '\\':
                j = s.find("'", k + 3)
                # '\'' case
                if s[k + 2] == "'":
                    j = k + 3
                yield ('char', i, j + 1)
                i = j + 1
            elif k + 2 < n and s[k + 2] == "'":
                yield ('char', i, k + 3)
                i = k + 3
            else:
                m = _ident.match(s, k + 1)
                if not m:
                    # multi-byte char literal
                    j = s.find("'", k + 1)
                    yield ('char', i, j + 1)
                    i = j + 1
                else:
                    yield ('life', i, m.end())
                    i = m.end()
        elif c.isalpha() or c == '_':
            m = _ident.match(s, i)
            yield ('id', i, m.end())
            i = m.end()
        elif c.isdigit():
            m = re.compile(r'[0-9][0-9A-Za-z_]*(\.[0-9][0-9A-Za-z_]*)?').match(s, i)
            yield ('num', i, m.end())
            i = m.end()
        else:
            yield ('p', i, i + 1)
            i += 1


OPEN = {'(': ')', '[': ']', '{': '}'}
CLOSE = {')', ']', '}'}


def match_close(s, i):
    """s[i] is an opening bracket; return index just past its matching close."""
    stack = []
    for kind, a, b in tokens(s[i:]):
        if kind != 'p':
            continue
        ch = s[i + a]
        if ch in OPEN:
            stack.append(OPEN[ch])
        elif ch in CLOSE:
            if not stack or stack[-1] != ch:
                raise AnchorLost("unbalanced bracket at %d" % (i + a))
            stack.pop()
            if not stack:
                return i + b
    raise AnchorLost("no matching close")


def ws_norm(t):
    return ' '.join(t.split())


class Item:
    __slots__ = ('kind', 'name', 'header', 'text', 'body', 'attrs', 'children',
                 'path', 'start', 'key', 'vis', 'parent')

    def __repr__(self):
        return "<Item %s %s>" % (self.kind, self.key)


_KW_KINDS = ['fn', 'impl', 'mod', 'use', 'const', 'static', 'struct', 'enum',
             'trait', 'type', 'macro_rules', 'extern', 'union']


def split_items(s, path, in_impl=False, parent=None):
    """Split the text of a module body / impl body / trait body into Items."""
    items = []
    toks = [(k, a, b) for (k, a, b) in tokens(s) if k not in ('ws', 'comment')]
    ti = 0
    n = len(toks)
    while ti < n:
        # --- attributes
        start = toks[ti][1]
        attrs = []
        while ti < n and s[toks[ti][1]] == '#':
            # #[...] or #![...]
            tj = ti + 1
            if s[toks[tj][1]] == '!':
                tj += 1
            if s[toks[tj][1]] != '[':
                raise AnchorLost("odd attribute at %d in %s" % (toks[ti][1], path))
            end = match_close(s, toks[tj][1])
            attrs.append(s[toks[ti][1]:end])
            while ti < n and toks[ti][1] < end:
                ti += 1
        if ti >= n:
            break
        hstart = toks[ti][1]
        # --- find kind keyword: skip pub, pub(...), unsafe, const (if followed by fn/unsafe), async, default
        tj = ti
        vis = ''
        kind = None
        while tj < n:
            k, a, b = toks[tj]
            w = s[a:b]
            if k == 'id' and w == 'pub':
                vis = 'pub'
                tj += 1
                if tj < n and s[toks[tj][1]] == '(':
                    end = match_close(s, toks[tj][1])
                    vis = s[a:end]
                    while tj < n and toks[tj][1] < end:
                        tj += 1
                continue
            if k == 'id' and w in ('unsafe', 'default', 'async'):
                tj += 1
                continue
            if k == 'id' and w == 'const':
                nxt = s[toks[tj + 1][1]:toks[tj + 1][2]]
                if nxt in ('fn', 'unsafe'):
                    tj += 1
                    continue
                kind = 'const'
                break
            if k == 'id' and w == 'extern':
                nxt = s[toks[tj + 1][1]:toks[tj + 1][2]]
                if nxt == 'crate':
                    kind = 'extern'
                    break
                tj += 1  # extern "C" fn
                if toks[tj][0] == 'str':
                    tj += 1
                continue
            if k == 'id' and w in _KW_KINDS:
                kind = w
                break
            raise AnchorLost("unrecognised item start %r in %s" % (s[hstart:hstart + 60], path))
        if kind is None:
            raise AnchorLost("no item kind in %s" % path)
        # --- find the end: first top-level '{' (brace item) or ';'
        depth_angle = 0
        tk = tj + 1
        end = None
        body = None
        body_open = None
        if kind == 'macro_rules':
            # macro_rules ! name { ... }   or ( ... ) ;
            while s[toks[tk][1]] not in '{([':
                tk += 1
            body_open = toks[tk][1]
            end = match_close(s, body_open)
            # optional trailing ;
            t2 = tk
            while t2 < n and toks[t2][1] < end:
                t2 += 1
            if s[body_open] != '{' and t2 < n and s[toks[t2][1]] == ';':
                end = toks[t2][2]
            name = s[toks[tj + 2][1]:toks[tj + 2][2]]
        else:
            while tk < n:
                k, a, b = toks[tk]
                ch = s[a] if k == 'p' else '\0'
                if ch in '([':
                    e = match_close(s, a)
                    while tk < n and toks[tk][1] < e:
                        tk += 1
                    continue
                if ch == '{' and kind in ('use', 'extern'):
                    e = match_close(s, a)
                    while tk < n and toks[tk][1] < e:
                        tk += 1
                    continue
                if ch == '{':
                    body_open = a
                    end = match_close(s, a)
                    break
                if ch == ';':
                    end = b
                    break
                if ch == '=' and kind in ('const', 'static', 'type'):
                    # initializer: scan to ';' at depth 0
                    tk += 1
                    while tk < n:
                        k, a, b = toks[tk]
                        ch = s[a] if k == 'p' else '\0'
                        if ch in '([{':
                            e = match_close(s, a)
                            while tk < n and toks[tk][1] < e:
                                tk += 1
                            continue
                        if ch == ';':
                            end = b
                            break
                        tk += 1
                    break
                tk += 1
            if end is None:
                raise AnchorLost("item without end in %s: %r" % (path, s[hstart:hstart + 80]))
            # struct X { } may be followed by nothing; tuple struct `struct X(..);` handled by ';'
            nm = toks[tj + 1]
            name = s[nm[1]:nm[2]] if kind not in ('impl', 'use', 'extern') else ''
        it = Item()
        it.kind = kind
        it.vis = vis
        it.attrs = attrs
        it.start = start
        it.parent = parent
        it.text = s[hstart:end]
        it.path = path
        it.children = []
        it.body = None
        if body_open is not None and kind != 'macro_rules':
            it.header = ws_norm(s[hstart:body_open])
            it.body = s[body_open + 1:end - 1]
        else:
            it.header = ws_norm(s[hstart:end])
        if kind == 'impl':
            h = it.header
            h = re.sub(r'\s+where$', '', h)
            it.header = h
            it.name = h
            it.key = (path + '::' if path else '') + h
            it.children = split_items(it.body, it.key, in_impl=True, parent=it)
        elif kind == 'trait':
            it.name = name
            it.key = (path + '::' if path else '') + 'trait ' + name
            it.children = split_items(it.body, it.key, in_impl=True, parent=it)
        elif kind == 'mod':
            it.name = name
            it.key = (path + '::' if path else '') + name
            if it.body is not None:
                it.children = split_items(it.body, it.key, parent=it)
        elif kind == 'fn':
            it.name = name
            it.key = (path + '::' if path else '') + name
        else:
            it.name = name
            it.key = (path + '::' if path else '') + kind + ' ' + (name or it.header)
        items.append(it)
        while ti < n and toks[ti][1] < end:
            ti += 1
    return items


def walk(items):
    for it in items:
        yield it
        if it.children:
            yield from walk(it.children)


def index(items):
    d = {}
    for it in walk(items):
        if it.key in d:
            # duplicate keys (e.g. cfg variants) – keep a list
            if not isinstance(d[it.key], list):
                d[it.key] = [d[it.key]]
            d[it.key].append(it)
        else:
            d[it.key] = it
    return d


def fn_parts(text):
    """Split a fn item text into (signature_without_body, body_with_braces).
    Signature ends right before the body's '{'."""
    depth = 0
    for kind, a, b in tokens(text):
        if kind != 'p':
            continue
        ch = text[a]
        if ch in '([':
            depth += 1
        elif ch in ')]':
            depth -= 1
        elif ch == '{' and depth == 0:
            return text[:a], text[a:]
        elif ch == ';' and depth == 0:
            return text[:a], None
    raise AnchorLost("fn without body: %r" % text[:80])


def replace_outside_literals(s, fn):
    """Apply fn(kind, text) -> text to each token; reassemble."""
    out = []
    for kind, a, b in tokens(s):
        out.append(fn(kind, s[a:b]))
    return ''.join(out)
