"""Replay files. A replay file names the failed obligation, carries the verifier's output and,
when the witness search found one, a concrete failing input for the real crate."""
import json
import os

VERIF = os.path.dirname(os.path.dirname(os.path.abspath(__file__)))
REPLAYS = os.environ.get('VERIF_REPLAY_DIR') or os.path.join(VERIF, 'replays')
_SEARCHED = {}
_SPENT = [0.0]     # seconds spent in witness searches of this run


def make_replay(pid, r, d, key, tier, seed, i):
    os.makedirs(REPLAYS, exist_ok=True)
    path = os.path.join(REPLAYS, '%s-%s-%s-%d.json' % (pid, r.unit, r.mode, i))
    rec = {
        'property': pid,
        'obligation': {'unit': r.unit, 'run': r.mode, 'function': d.fn, 'clause': key.get('clause'),
                       'kind': key.get('kind'), 'expr': key.get('expr')},
        'verifier': 'verus',
        'verifier_cmd': r.cmd,
        'verifier_output': d.rendered,
        'generated_file': r.path,
        'input': None,
    }
    fn = key.get('fn')
    if key.get('witness') is not None:
        rec['input'] = key['witness']
        rec['note'] = 'bounded differential fallback: the verifier could not read the changed code; this input fails on the real crate'
    elif fn in _SEARCHED:
        rec['input'] = _SEARCHED[fn]
    elif len(_SEARCHED) < (16 if tier == 'thorough' else 10) and _SPENT[0] < (600 if tier == 'thorough' else 120):
        import time as _time
        _t0 = _time.time()
        try:
            import witness
            # an implicit panic site shows as a difference between a build with and one without overflow checks
            pair = ('dev', 'release') if str(key.get('kind') or '').startswith('overflow') else None
            w = witness.search(pid, r, d, key, tier, seed, profile_pair=pair)
            if w is None and pair is not None and pid != 'C20':
                w = witness.search(pid, r, d, key, tier, seed, profile_pair=None)
        except Exception as ex:      # the search is best effort; the violation stands without an input
            rec['witness_search_error'] = str(ex)[:500]
            w = None
        _SPENT[0] += _time.time() - _t0
        _SEARCHED[fn] = w
        rec['input'] = w
    with open(path, 'w') as f:
        json.dump(rec, f, indent=1)
    return path


def has_input(path):
    try:
        return json.load(open(path)).get('input') is not None
    except Exception:
        return False


def replay_file(path):
    rec = json.load(open(path))
    print(json.dumps(rec['obligation'], indent=1))
    print(rec.get('verifier_output', ''))
    if rec.get('input') is None:
        print('no concrete input recorded (no-failing-input-found); re-run the check to re-verify the obligation')
        return 1
    import witness
    return witness.replay(rec)
