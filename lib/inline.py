"""R18: inlining of contract-less private helper functions.

A changed body may call a free function that no unit knows (typically a helper the change itself extracted or
introduced).  Without a contract a modular verifier learns nothing from such a call.  If the helper is
  * a free `fn` of one of the three crates (found by its name in the macro expansion, unique),
  * not generic, not `unsafe`, not recursive,
  * free of `return`, `?`, loops, closures and macros that expand to early exits,
then every call `NAME(args)` in a function under contract is replaced by the block

    { let a0__ = arg0; let a1__ = arg1; { let p0: T0 = a0__; let p1: T1 = a1__; BODY } }

which is the definition of a call of a function with a single-expression / straight-line body (arguments are
evaluated first, left to right, then bound to the parameters; the body's value is the call's value).  The
caller is then verified against its own contract through the helper's real text.  Helpers that do not meet the
conditions are left alone (the unit stays undecided and only the bounded fallback can decide)."""
import re
import rsx


class NotInlineable(Exception):
    pass


def find_helper(name, sources):
    """sources: {src: index}; returns the Item of the unique free fn `name`, or None"""
    hits = []
    for src, idx in sources.items():
        for k, it in idx.items():
            if isinstance(it, list):
                continue
            if getattr(it, 'kind', None) == 'fn' and (k == name or k.endswith('::' + name)) and ' for ' not in k and 'impl' not in k:
                hits.append(it)
    return hits[0] if len(hits) == 1 else None


def plan(item, strip):
    """returns (params [(name, type, mutable)], body text without the outer braces) or raises NotInlineable"""
    text = strip(item.text)
    b = text.find('{')
    if b < 0:
        raise NotInlineable('no body')
    sig, body = text[:b], text[b:]
    end = rsx.match_close(body, 0)
    body = body[1:end - 1]
    if re.search(r'\bunsafe\b', sig) or re.search(r'\bfn\s+\w+\s*<', sig):
        raise NotInlineable('generic or unsafe')
    name = re.search(r'\bfn\s+(\w+)', sig).group(1)
    if re.search(r'\breturn\b|\?\s*[;)\n.]|\bloop\b|\bwhile\b|\bfor\b|\bbreak\b|\bcontinue\b|\|[a-z_, ]*\|', body):
        raise NotInlineable('early exit, loop or closure in the body')
    if re.search(r'(?<![A-Za-z0-9_:])%s\s*\(' % re.escape(name), body):
        raise NotInlineable('recursive')
    i = sig.find('(')
    pend = rsx.match_close(sig, i)
    params = []
    depth = 0
    cur = ''
    for ch in sig[i + 1:pend - 1] + ',':
        if ch in '(<[':
            depth += 1
        elif ch in ')>]':
            depth -= 1
        if ch == ',' and depth == 0:
            a = cur.strip()
            cur = ''
            if not a:
                continue
            if ':' not in a or 'self' in a.split(':')[0]:
                raise NotInlineable('method')
            nm, ty = a.split(':', 1)
            nm = nm.strip()
            mut = nm.startswith('mut ')
            nm = nm[4:].strip() if mut else nm
            if not re.match(r'^[a-z_][a-z0-9_]*$', nm):
                raise NotInlineable('pattern parameter')
            if '&mut' in ty or "'" in ty:
                raise NotInlineable('mutable reference / lifetime parameter')
            params.append((nm, ty.strip(), mut))
        else:
            cur += ch
    return name, params, body.strip()


def apply(text, name, params, body, count=None):
    """replaces every call of `name` (optionally path-qualified) in `text`"""
    pat = re.compile(r'(?<![A-Za-z0-9_.])(?:(?:crate|self|super|fpdec_core|Self)::(?:\w+::)*)?%s\s*\(' % re.escape(name))
    pos = 0
    n = 0
    while True:
        m = pat.search(text, pos)
        if not m:
            break
        # skip the definition itself (`fn name(`)
        if re.search(r'\bfn\s+$', text[:m.start()]):
            pos = m.end()
            continue
        op = m.end() - 1
        end = rsx.match_close(text, op)
        args = _split_args(text[op + 1:end - 1])
        if len(args) != len(params):
            raise NotInlineable('arity')
        lets = ''.join('let a%d__ = %s; ' % (i, a.strip()) for i, a in enumerate(args))
        binds = ''.join('let %s%s: %s = a%d__; ' % ('mut ' if mut else '', nm, ty, i) for i, (nm, ty, mut) in enumerate(params))
        rep = '{ %s{ %s%s } }' % (lets, binds, body)
        text = text[:m.start()] + rep + text[end:]
        pos = m.start() + len(lets) + 2      # continue inside (arguments may contain further calls)
        n += 1
        if n > 200:
            raise NotInlineable('too many call sites')
    if count is not None and n:
        count('R18.inline_helper', n)
    return text


def _split_args(s):
    args, depth, cur = [], 0, ''
    for ch in s:
        if ch in '([{<' :
            depth += 1 if ch != '<' else 0
        elif ch in ')]}':
            depth -= 1
        if ch == ',' and depth == 0:
            args.append(cur)
            cur = ''
        else:
            cur += ch
    if cur.strip():
        args.append(cur)
    return args
