"""known_findings.jsonl: committed, read-only at run time.

One JSON object per line:
  status     "known" | "fixed"
  id         D-number used in DESIGN.md
  property   list of property ids the finding is reported under
  fn         key of the function whose obligation fails (or fn_re: regular expression over the key, for
             macro-generated families that differ only in the integer type)
  kind       "clause" (named ensures clause) | "overflow" (implicit-panic site, D-run) | "precondition"
  clause     name of the failing clause            (kind == clause)
  expr       source text of the operator expression (kind == overflow), whitespace-normalised
  what       human description: the failing input / site
  commit     fix commit (status == fixed)
A "fixed" entry suppresses nothing.
"""
import json
import os
import re

VERIF = os.path.dirname(os.path.dirname(os.path.abspath(__file__)))
PATH = os.path.join(VERIF, 'known_findings.jsonl')


def load():
    out = []
    if not os.path.exists(PATH):
        return out
    for ln in open(PATH):
        ln = ln.strip()
        if not ln or ln.startswith('#'):
            continue
        out.append(json.loads(ln))
    return out


def norm(s):
    return ' '.join((s or '').split())


def match(diag_key, known):
    """diag_key: dict(fn=, kind=, clause=, expr=). Returns the matching known entry or None."""
    for k in known:
        if k.get('status') != 'known':
            continue
        if 'fn_re' in k:
            if not re.fullmatch(k['fn_re'], diag_key['fn'] or ''):
                continue
        elif k.get('fn') != diag_key['fn']:
            continue
        if k.get('kind') != diag_key['kind']:
            continue
        if k['kind'] in ('clause', 'precondition') and k.get('clause') == diag_key.get('clause'):
            return k
        if k['kind'] == 'overflow' and norm(k.get('expr')) == norm(diag_key.get('expr')):
            return k
    return None
