"""Step (5)-(6): run Verus on a generated unit and map its verdicts back to
named obligations."""
import json
import os
import re
import subprocess
import tempfile
import time

import threading
import rsx
import vgen
import expand

VERIF = os.path.dirname(os.path.dirname(os.path.abspath(__file__)))
GEN = os.environ.get('VERIF_GEN_DIR') or os.path.join(VERIF, 'gen')

DEFINITE = (
    'postcondition not satisfied',
    'precondition not satisfied',
    'assertion failed',
    'possible arithmetic underflow/overflow',
    'possible division by zero',
    'possible bit shift underflow/overflow',
    'invariant not satisfied at end of loop body',
    'invariant not satisfied before loop',
    'loop invariant not satisfied',
    'decreases not satisfied',
    'possible index out of bounds',
    'recommendation not met',
    'unreachable_code',
    'constructed value may fail to meet its declared type invariant',
    'possible truncation',
)
RESOURCE = ('rlimit', 'Resource limit', 'resource limit', 'timed out', 'canceled')


class Diag:
    def __init__(self):
        self.message = ''
        self.kind = ''        # definite | resource | frontend | note
        self.fn = None        # key of the enclosing function in the generated file
        self.clause = None    # named clause (ens/req name) if identifiable
        self.callee_clause = None
        self.clause_owner = None
        self.line = None
        self.expr = ''
        self.rendered = ''

    def as_dict(self):
        return {'message': self.message, 'kind': self.kind, 'fn': self.fn, 'clause': self.clause,
                'line': self.line, 'expr': self.expr}


class UnitResult:
    def __init__(self):
        self.unit = None
        self.mode = None
        self.path = None
        self.cmd = None
        self.ok = False
        self.verified = 0
        self.errors = 0
        self.diags = []
        self.frontend_error = None
        self.resource_out = []
        self.fn_times = {}
        self.smt_ms = 0
        self.total_ms = 0
        self.meta = None
        self.linemap = None
        self.wall_s = 0.0
        self.anchor_lost = None
        self.rule_counts = {}
        self.assumed = []


_SOURCES = {}
_GEN_LOCK = threading.Lock()


def load_sources(which=('core', 'fpdec', 'macros'), features=()):
    out = {}
    for w in which:
        k = (w, tuple(features))
        if k not in _SOURCES:
            crate = {'core': 'fpdec-core', 'fpdec': 'fpdec', 'macros': 'fpdec-macros'}[w]
            text = expand.expand(crate, features if w == 'fpdec' else ())
            items = rsx.split_items(text, '')
            _SOURCES[k] = rsx.index(items)
        out[w] = _SOURCES[k]
    return out


def scan_trusted(text):
    """Mechanical scan of the generated file for every unchecked assumption."""
    found = []
    for m in re.finditer(r'(assume\s*\(|admit\s*\(|#\[verifier::external_body\]|assume_specification|#\[verifier::external[a-z_]*\]|\buninterp\b)', text):
        ln = text.count('\n', 0, m.start()) + 1
        # context: next non-attribute line
        tail = text[m.start():m.start() + 400]
        ctx = ''
        for l in tail.split('\n'):
            l = l.strip()
            if l and not l.startswith('#['):
                ctx = l
                break
        found.append((m.group(1).strip(), ctx[:140], ln))
    return found


def run_unit(unit, mode, sources, rlimit=None, extra_args=(), keep=True, tag=''):
    res = UnitResult()
    res.unit = unit.name
    res.mode = mode
    t0 = time.time()
    with _GEN_LOCK:
        vgen.RULE_COUNTS.clear()
        try:
            text, linemap, meta = unit.generate(sources, mode)
        except rsx.AnchorLost as ex:
            res.anchor_lost = str(ex)
            res.wall_s = time.time() - t0
            return res
        res.rule_counts = dict(vgen.RULE_COUNTS)
    os.makedirs(GEN, exist_ok=True)
    path = os.path.join(GEN, '%s%s_%s.rs' % (unit.name, tag, mode))
    with open(path, 'w') as f:
        f.write(text)
    res.path = path
    res.meta = meta
    res.linemap = linemap
    res.assumed = scan_trusted(text)
    cmd = ['verus', path, '--output-json', '--time', '--multiple-errors', '40']
    if rlimit:
        cmd += ['--rlimit', str(rlimit)]
    cmd += list(extra_args)
    cmd += ['--', '--error-format=json']
    res.cmd = ' '.join(cmd)
    env = dict(os.environ)
    p = subprocess.run(cmd, stdout=subprocess.PIPE, stderr=subprocess.PIPE, text=True, env=env,
                       cwd=os.path.dirname(path))
    res.wall_s = time.time() - t0
    # --- stdout: JSON
    try:
        js = json.loads(p.stdout)
    except Exception:
        js = None
    if js:
        vr = js.get('verification-results', {})
        res.verified = vr.get('verified', 0)
        res.errors = vr.get('errors', 0)
        res.ok = bool(vr.get('success'))
        if vr.get('encountered-vir-error'):
            res.frontend_error = 'vir error'
        tm = js.get('times-ms', {})
        res.total_ms = tm.get('total', 0)
        smt = tm.get('smt', {})
        res.smt_ms = smt.get('total', 0)
        for mt in smt.get('smt-run-module-times', []):
            for fb in mt.get('function-breakdown', []):
                res.fn_times.setdefault(fb['function'], 0)
                res.fn_times[fb['function']] += fb.get('time', 0)
    # --- stderr: diagnostics
    base = os.path.basename(path)
    for line in p.stderr.splitlines():
        line = line.strip()
        if not line.startswith('{'):
            continue
        try:
            d = json.loads(line)
        except Exception:
            continue
        if d.get('$message_type') != 'diagnostic':
            continue
        lvl = d.get('level')
        msg = d.get('message', '')
        if lvl not in ('error',):
            continue
        if msg.startswith('aborting due to'):
            continue
        dg = Diag()
        dg.message = msg
        dg.rendered = d.get('rendered', '')
        spans = d.get('spans', [])
        ours = [s for s in spans if s.get('file_name', '').endswith(base)]
        prim = [s for s in spans if s.get('is_primary')]
        if any(msg.startswith(x) or x in msg for x in RESOURCE):
            dg.kind = 'resource'
        elif any(msg.startswith(x) for x in DEFINITE):
            dg.kind = 'definite'
        elif re.search(r'expression simplifies to (false$|.*which evaluates to false)', msg.strip()):
            # assert(..) by (compute_only) whose expression the verifier evaluated to false: a refuted
            # assertion (Verus reports it as a vir error and stops, but the verdict on that assertion is definite)
            dg.kind = 'definite'
            dg.compute_refuted = True
        else:
            dg.kind = 'frontend'
        # function: prefer the span labelled "at the end of the function body", else primary in our file
        fn_span = None
        for s in ours:
            if (s.get('label') or '').startswith('at the end of the function body') or \
               (s.get('label') or '').startswith('at this exit'):
                fn_span = s
        if fn_span is None:
            for s in ours:
                if s.get('is_primary'):
                    fn_span = s
        if fn_span is None and ours:
            fn_span = ours[0]
        if fn_span is not None:
            dg.line = fn_span['line_start']
            tg = linemap.get(fn_span['line_start'])
            if tg:
                dg.fn = tg[1] if len(tg) > 1 else None
            txt = fn_span.get('text') or []
            if txt:
                t0_ = txt[0]
                dg.expr = t0_['text'][t0_['highlight_start'] - 1:t0_['highlight_end'] - 1].strip()
        # clause
        for s in spans:
            lab = s.get('label') or ''
            if lab.startswith('failed this postcondition') or lab.startswith('failed precondition') \
                    or lab.startswith('failed this'):
                if s.get('file_name', '').endswith(base):
                    tg = linemap.get(s['line_start'])
                    if tg and tg[0] in ('ens', 'req'):
                        if lab.startswith('failed precondition'):
                            dg.callee_clause = '%s.%s' % (tg[1], tg[2])
                        else:
                            dg.clause = tg[2]
                            dg.clause_owner = tg[1]
                    elif tg and tg[0] == 'spec':
                        dg.callee_clause = 'spec:%s:%d' % (tg[1], s['line_start'])
                else:
                    if lab.startswith('failed precondition'):
                        dg.callee_clause = 'std:%s:%d' % (s.get('file_name'), s['line_start'])
                    else:
                        dg.clause = 'value'
        # trait-level ghost post i of a crate trait -> i-th clause of the impl method's contract
        if dg.clause and re.match(r'post\d+$', dg.clause) and dg.fn in unit.fn_contracts:
            c = unit.fn_contracts[dg.fn]
            names = []
            if c.ok is not None and mode == 'D':
                names += [n for (n, _) in c.ok]
            names += [n for (n, _) in c.post]
            i = int(dg.clause[4:])
            if i < len(names):
                dg.clause = names[i]
        if dg.kind == 'definite' and dg.fn is None and not ours:
            # e.g. std-spec postcondition with no span in our file: try rendered text
            dg.kind = 'definite'
        res.diags.append(dg)
    # debug-print lines from verus (`[rust_verify/...] &note = ...`) are ignored
    if js is None and not res.diags:
        res.frontend_error = (p.stderr or p.stdout)[-3000:]
    fe = [d for d in res.diags if d.kind == 'frontend']
    if res.frontend_error == 'vir error' and not fe and any(getattr(d, 'compute_refuted', False) for d in res.diags):
        res.frontend_error = None
    if fe and not res.frontend_error:
        res.frontend_error = '; '.join(d.message for d in fe[:5])
    res.resource_out = [d for d in res.diags if d.kind == 'resource']
    return res
