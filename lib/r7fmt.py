"""R7 (DESIGN.md section 3): `core::fmt` is outside Verus.

Mechanical, pattern based rewrite of item text (called from vgen.rewrite_body after R2/R3):

  alloc::__export::must_use({ alloc::fmt::format(format_args!(LIT, a0, a1, ..)) })  ->  r7_format_<h>(a0, a1, ..)
  FORM.write_fmt(format_args!(LIT, a0, ..))                                         ->  r7_write_fmt_<h>(FORM, a0, ..)
  X.to_string()                                                                     ->  X.r7_to_string()
  fmt::Formatter<'_> -> R7Formatter,  fmt::Result -> core::fmt::Result,
  impl fmt::Debug for / impl fmt::Display for / impl From<Decimal> for String
      -> impl R7Debug for / impl R7Display for / impl R7From<Decimal> for String

`<h>` is a hash of the format-string literal.  For every literal met, the text of one
`#[verifier::external_body]` stub is generated whose postcondition is *derived from the literal* by
`parse_format_literal` (pieces `{N}`, `{N:0M$}`, `{N:M$}`, `{{`, `}}` and literal characters; anything else
aborts with AnchorLost).  The stubs are collected in FOUND; the unit emits them with `stubs_text()`
(spec vocabulary and the stand-in declarations are in spec/std_format.rs).  A changed format string in
/repo therefore changes the assumed postcondition of the stub, never silently the verified claim.
"""
import hashlib
import re

import rsx
from rsx import AnchorLost

FOUND = {}      # stub name -> stub text (insertion ordered)


def reset():
    FOUND.clear()
    return ''


def stubs_text():
    return '// R7: stubs generated from the format-string literals of the extracted text\n' + \
        '\n'.join(FOUND[k] for k in FOUND)


# ---------------------------------------------------------------- the format-string literal
def parse_format_literal(lit):
    """lit: the literal as printed by rustc, including the quotes.
    Returns a list of pieces ('lit', text) | ('disp', N) | ('zpad', N, M) | ('spad', N, M)."""
    if len(lit) < 2 or lit[0] != '"' or lit[-1] != '"':
        raise AnchorLost('R7: format string is not a plain string literal: %r' % lit[:40])
    body = lit[1:-1]
    if '\\' in body or '"' in body:
        raise AnchorLost('R7: escape sequence in format literal %r' % lit)
    pieces = []

    def put(ch):
        if pieces and pieces[-1][0] == 'lit':
            pieces[-1] = ('lit', pieces[-1][1] + ch)
        else:
            pieces.append(('lit', ch))
    i = 0
    n = len(body)
    while i < n:
        ch = body[i]
        if ch == '{':
            if body.startswith('{{', i):
                put('{')
                i += 2
                continue
            j = body.find('}', i)
            if j < 0:
                raise AnchorLost('R7: unbalanced { in format literal %r' % lit)
            spec = body[i + 1:j]
            m = re.match(r'^(\d+)$', spec)
            if m:
                pieces.append(('disp', int(m.group(1))))
            else:
                m = re.match(r'^(\d+):(0?)(\d+)\$$', spec)
                if not m:
                    raise AnchorLost('R7: unsupported format piece {%s} in %r' % (spec, lit))
                # `{N:0M$}`: the first 0 is the zero flag, M$ names the width argument
                pieces.append(('zpad' if m.group(2) else 'spad', int(m.group(1)), int(m.group(3))))
            i = j + 1
        elif ch == '}':
            if body.startswith('}}', i):
                put('}')
                i += 2
                continue
            raise AnchorLost('R7: unbalanced } in format literal %r' % lit)
        else:
            put(ch)
            i += 1
    return pieces


def _char_lit(ch):
    if ch == "'":
        return "'\\''"
    if ord(ch) < 0x20 or ord(ch) == 0x7f:
        raise AnchorLost('R7: control character in format literal')
    return "'%s'" % ch


def spec_of_pieces(pieces, nargs):
    """-> (generic parameter list, parameter list, Seq<char> expression)"""
    role = {}

    def use(k, r):
        if k >= nargs:
            raise AnchorLost('R7: format piece refers to argument %d of %d' % (k, nargs))
        old = role.get(k)
        if old is None:
            role[k] = r
        elif old != r and 'width' in (old, r):
            raise AnchorLost('R7: argument %d used both as value and as width' % k)
        elif r == 'int':
            role[k] = 'int'     # R7IntArg: R7Arg, so an integer piece may also be displayed with `{N}`
    terms = []
    for p in pieces:
        if p[0] == 'lit':
            terms.append('seq![%s]' % ', '.join(_char_lit(c) for c in p[1]))
        elif p[0] == 'disp':
            use(p[1], 'disp')
            terms.append('a%d.r7_display()' % p[1])
        else:
            use(p[1], 'int')
            use(p[2], 'width')
            fn = 'r7_zero_pad_int' if p[0] == 'zpad' else 'r7_space_pad_int'
            terms.append('%s(a%d.r7_int(), a%d as nat)' % (fn, p[1], p[2]))
    for k in range(nargs):
        if k not in role:
            raise AnchorLost('R7: format argument %d is not used by the literal' % k)
    gens = []
    params = []
    for k in range(nargs):
        if role[k] == 'width':
            params.append('a%d: usize' % k)
        else:
            gens.append('A%d: %s' % (k, 'R7IntArg' if role[k] == 'int' else 'R7Arg'))
            params.append('a%d: A%d' % (k, k))
    expr = ' + '.join(terms) if terms else 'Seq::<char>::empty()'
    return gens, params, expr


def _stub(kind, lit, nargs):
    h = hashlib.sha256(lit.encode()).hexdigest()[:8]
    name = 'r7_%s_%s' % (kind, h)
    gens, params, expr = spec_of_pieces(parse_format_literal(lit), nargs)
    g = '<%s>' % ', '.join(gens) if gens else ''
    if kind == 'format':
        text = ('// alloc::fmt::format(format_args!(%s, ..))\n'
                '#[verifier::external_body]\n'
                'pub fn %s%s(%s) -> (s: String)\n'
                '    ensures s@ == %s,\n'
                '{ unimplemented!() }\n') % (lit, name, g, ', '.join(params), expr)
    else:
        text = ('// Formatter::write_fmt(format_args!(%s, ..))\n'
                '#[verifier::external_body]\n'
                'pub fn %s%s(%s) -> (r: core::fmt::Result)\n'
                '    ensures\n'
                '        final(form).log() == old(form).log().push(R7Event::Write(%s)),\n'
                '        final(form).precision_spec() == old(form).precision_spec(),\n'
                '{ unimplemented!() }\n') % (lit, name, g, ', '.join(['form: &mut R7Formatter'] + params), expr)
    FOUND[name] = text
    return name


# ---------------------------------------------------------------- the rewrite
def _split_args(s):
    args = []
    depth = 0
    last = 0
    for kind, a, b in rsx.tokens(s):
        if kind != 'p':
            continue
        ch = s[a]
        if ch in '([{':
            depth += 1
        elif ch in ')]}':
            depth -= 1
        elif ch == ',' and depth == 0:
            args.append(s[last:a])
            last = b
    if s[last:].strip():
        args.append(s[last:])
    return [x.strip() for x in args]


def _literal_mask(s):
    return [(a, b) for kind, a, b in rsx.tokens(s) if kind in ('str', 'char', 'comment')]


def _replace(s, pattern, fn):
    """Replace every `pattern(`..`)` call outside literals by fn(match, text between the parens)."""
    rx = re.compile(pattern)
    out = []
    pos = 0
    mask = _literal_mask(s)
    while True:
        m = rx.search(s, pos)
        if not m:
            break
        if any(a <= m.start() < b for a, b in mask):
            out.append(s[pos:m.end()])
            pos = m.end()
            continue
        op = m.end() - 1          # the pattern ends with the opening paren
        end = rsx.match_close(s, op)
        out.append(s[pos:m.start()])
        out.append(fn(m, s[op + 1:end - 1]))
        pos = end
    out.append(s[pos:])
    return ''.join(out)


def _format_args(inner, what):
    m = re.match(r'^\s*format_args!\s*\(', inner)
    if not m or rsx.match_close(inner, m.end() - 1) != len(inner.rstrip()):
        raise AnchorLost('R7: %s argument is not a single format_args!(..): %r' % (what, inner[:60]))
    args = _split_args(inner.rstrip()[m.end():-1])
    if not args:
        raise AnchorLost('R7: empty format_args!')
    return args[0], args[1:]


TYPE_TABLE = (
    (r"(?<![A-Za-z0-9_:])fmt::Formatter<'_>", 'R7Formatter'),
    (r'(?<![A-Za-z0-9_:])fmt::Result(?![A-Za-z0-9_])', 'core::fmt::Result'),
    (r'(?<![A-Za-z0-9_:])impl fmt::Debug for(?![A-Za-z0-9_])', 'impl R7Debug for'),
    (r'(?<![A-Za-z0-9_:])impl fmt::Display for(?![A-Za-z0-9_])', 'impl R7Display for'),
    (r'(?<![A-Za-z0-9_:])impl From<Decimal> for String(?![A-Za-z0-9_])', 'impl R7From<Decimal> for String'),
)


def rewrite_fmt(s, count=None):
    """R7. `s` has passed R2 (leading `::` of core/alloc paths dropped) and R3 (panics)."""
    if 'format_args!' not in s and 'fmt::' not in s and '.to_string()' not in s \
            and 'From<Decimal> for String' not in s:
        return s
    cnt = count or (lambda rule, n=1: None)

    def r_format(m, inner):
        t = inner.strip()
        if not (t.startswith('{') and t.endswith('}')):
            raise AnchorLost('R7: unexpected shape of must_use(..): %r' % t[:60])
        t = t[1:-1].strip()
        m2 = re.match(r'^alloc::fmt::format\s*\(', t)
        if not m2 or rsx.match_close(t, m2.end() - 1) != len(t):
            raise AnchorLost('R7: must_use(..) does not wrap alloc::fmt::format(..): %r' % t[:60])
        lit, args = _format_args(t[m2.end():-1], 'alloc::fmt::format')
        cnt('R7.format')
        return '%s(%s)' % (_stub('format', lit, len(args)), ', '.join(args))
    s = _replace(s, r'(?<![A-Za-z0-9_:])alloc::__export::must_use\(', r_format)

    def r_write(m, inner):
        lit, args = _format_args(inner, 'write_fmt')
        cnt('R7.write_fmt')
        return '%s(%s)' % (_stub('write_fmt', lit, len(args)), ', '.join([m.group(1)] + args))
    s = _replace(s, r'(?<![A-Za-z0-9_.])([a-z_][a-z0-9_]*)\.write_fmt\(', r_write)

    if 'format_args!' in rsx.replace_outside_literals(s, lambda k, t: '' if k in ('str', 'char', 'comment') else t):
        raise AnchorLost('R7: format_args! outside the shapes format!(..) / write!(..)')

    s, k = re.subn(r'\.to_string\(\)', '.r7_to_string()', s)
    cnt('R7.to_string', k)
    for pat, rep in TYPE_TABLE:
        s, k = re.subn(pat, rep, s)
        cnt('R7.types', k)
    return s
