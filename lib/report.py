"""Steps (6)-(7): classify verdicts, print VIOLATION / KNOWN-FINDING lines, write evidence."""
import json
import os
import sys
import time

import findings
import props

VERIF = os.path.dirname(os.path.dirname(os.path.abspath(__file__)))
EVID = os.environ.get('VERIF_EVIDENCE_DIR') or os.path.join(VERIF, 'evidence')
REPLAYS = os.environ.get('VERIF_REPLAY_DIR') or os.path.join(VERIF, 'replays')

OVERFLOW_MSGS = ('possible arithmetic underflow/overflow', 'possible division by zero', 'possible bit shift underflow/overflow')


_SKEL = None


def _restructured(r, d):
    """has the function the diagnostic is located in a different control-flow skeleton than the reference?"""
    global _SKEL
    if os.environ.get('VERIF_SKELETON_GATE', '1') == '0':
        return False
    if _SKEL is None:
        try:
            _SKEL = json.load(open(os.path.join(os.path.dirname(os.path.abspath(__file__)), 'skeletons.json')))
        except Exception:
            _SKEL = {}
    m = ((getattr(r, 'meta', None) or {}).get('functions') or {}).get(d.fn)
    if not m or d.fn not in _SKEL:
        return False
    return m.get('skeleton') != _SKEL[d.fn]


def _diag_key(d, mode):
    if d.message.startswith('postcondition not satisfied') and d.clause:
        return {'fn': d.fn, 'kind': 'clause', 'clause': d.clause, 'expr': d.expr}
    if d.message.startswith(OVERFLOW_MSGS) and mode == 'D':
        return {'fn': d.fn, 'kind': 'overflow', 'clause': None, 'expr': d.expr}
    if d.message.startswith('precondition not satisfied'):
        if mode == 'D' and (d.callee_clause or '').startswith('std:') and 'std_specs/ops.rs' in (d.callee_clause or ''):
            # x.add(y) / x.sub(y) / ... on machine integers (method form of the operator): vstd states the
            # no-overflow condition as the precondition of core::ops::Add::add etc. - the same implicit panic
            # site as `x + y`
            return {'fn': d.fn, 'kind': 'overflow', 'clause': None, 'expr': d.expr}
        return {'fn': d.fn, 'kind': 'precondition', 'clause': d.callee_clause, 'expr': d.expr}
    return {'fn': d.fn, 'kind': d.message.split(':')[0], 'clause': d.clause, 'expr': d.expr}


def count_obligations(unit, mode):
    """named clauses + one implicit-safety bundle (overflow, bounds, callee preconditions,
    termination, loop invariants) per function under contract"""
    names = []
    for key, c in unit.fn_contracts.items():
        if c.stub:
            continue
        for n, _ in c.post:
            names.append('%s [%s] %s' % (key, mode, n))
        if c.ok is not None and mode == 'D':
            for n, _ in c.ok:
                names.append('%s [%s] %s' % (key, mode, n))
        names.append('%s [%s] safety(overflow/bounds/div0/callee-requires/termination)' % (key, mode))
    return names


def conclude(pid, spec, results, tier, seed, wall, kani=(), extra_viol=()):
    known = findings.load()
    undecided = []
    # modularity audit on the units actually built: every stub contract must be proved in this very check
    _homes = set()
    for r in results:
        uo = getattr(r, 'unit_obj', None)
        if uo is not None and r.mode in ('F', 'D'):
            _homes.update(k for k, c in uo.fn_contracts.items() if not c.stub)
    _ksteps = set(spec.get('kani', [])) | set(spec.get('kani_bounded', []))
    for r in results:
        uo = getattr(r, 'unit_obj', None)
        if uo is None or r.mode not in ('F', 'D'):
            continue
        for k, c in uo.fn_contracts.items():
            if c.stub and k not in _homes and props.KANI_HOMES.get(k) not in _ksteps:
                msg = 'modularity: the contract of stub %s (unit %s) is proved by no unit or Kani step of this check (run tools/stub_homes.py --write)' % (k, r.unit)
                if msg not in undecided:
                    undecided.append(msg)
    violations = []
    known_hit = {}
    c20_sites = []
    c20_support = []
    fallback_hits = []
    canaries_total = 0
    stability = []
    all_obl = []
    failed_obl = set()
    checker_cmds = []
    trusted = list(props.COMMON_TRUSTED)
    assumed = set()
    fn_under_contract = {}
    solver_ms = 0
    rule_counts = {}
    for r in results:
        if r.anchor_lost:
            # the changed code no longer has the shape the contracts are anchored in: no obligation, no verdict;
            # same bounded fallback as for front-end errors (a violation only with a replayed failing input)
            r.frontend_error = 'anchor lost: ' + r.anchor_lost
            w = _frontend_fallback(pid, r, tier, seed)
            if w is not None:
                violations.append((r, w[0], w[1]))
                failed_obl.add('%s [%s] bounded-differential-fallback' % (w[1]['fn'], r.mode))
                fallback_hits.append(w)
            else:
                undecided.append('anchor lost in unit %s: %s' % (r.unit, r.anchor_lost))
            continue
        if getattr(r, 'probe', None):
            # stability probe (other Z3 seed): never a verdict, only a note in the evidence
            bad = [d for d in r.diags if d.kind in ('definite', 'resource')]
            stability.append({'unit': r.unit, 'seed': r.probe, 'ok': not bad and not r.frontend_error,
                              'unstable_functions': sorted(set(str(d.fn) for d in bad))[:10]})
            continue
        checker_cmds.append(r.cmd)
        solver_ms += r.smt_ms
        if r.mode == 'V':
            # vacuity guard: every emitted canary (requires <pre && ok> ensures false) must FAIL
            import re as _re
            if r.frontend_error:
                undecided.append('unit %s/V: canary file rejected by the front end: %s' % (r.unit, str(r.frontend_error)[:200]))
                continue
            txt = open(r.path).read()
            emitted = {}
            for ln, tg in (r.linemap or {}).items():
                if tg and tg[0] == 'canary':
                    emitted[tg[1]] = True
            failed = set()
            for d in r.diags:
                tg = (r.linemap or {}).get(d.line)
                if tg and tg[0] == 'canary':
                    failed.add(tg[1])
            vac = sorted(set(emitted) - failed)
            canaries_total += len(emitted)
            for k in vac:
                undecided.append('vacuity guard: the precondition of %s is unsatisfiable (canary verified) in unit %s' % (k, r.unit))
            continue
        for k, v in r.rule_counts.items():
            rule_counts[k] = max(rule_counts.get(k, 0), v)
        for kind, ctx, ln in r.assumed:
            assumed.add('%s: %s' % (kind, ctx))
        if r.frontend_error:
            # The verifier could not even read the (changed) code: no obligation exists, so no verdict.
            # Fallback (bounded, never counted as proof): differential search with the exact oracle on the
            # public operations of this unit; a concrete failing input replayed on the real crate is reported
            # as a violation, otherwise the run stays undecided.
            w = _frontend_fallback(pid, r, tier, seed)
            if w is not None:
                violations.append((r, w[0], w[1]))
                failed_obl.add('%s [%s] bounded-differential-fallback' % (w[1]['fn'], r.mode))
                fallback_hits.append(w)
            else:
                undecided.append('unit %s/%s: verifier front-end error (unsupported construct or tool failure): %s'
                                 % (r.unit, r.mode, str(r.frontend_error)[:300]))
            continue
        for u_ in getattr(r, 'unstable', []) or []:
            undecided.append('unit %s/%s: proof of %s fails under one solver seed and succeeds under another (unstable proof, no verdict)' % (r.unit, r.mode, u_))
        if r.resource_out:
            for d in r.resource_out:
                undecided.append('unit %s/%s: resource limit in %s' % (r.unit, r.mode, d.fn))
        obl = count_obligations(r.unit_obj, r.mode)
        all_obl += obl
        for k, m in (r.meta or {}).get('functions', {}).items():
            fn_under_contract[k] = m
        for k in getattr(r, 'inlined', []) or []:
            assumed.add('R18: contract-less helper inlined at its call sites (lib/inline.py): %s' % k)
        for k in (r.meta or {}).get('skipped_missing', []):
            assumed.add('item no longer in the source, skipped (no users can exist): %s' % k)
        for k, h in (r.meta or {}).get('pinned', {}).items():
            assumed.add('trusted unverified body pinned by hash %s: %s' % (h, k))
        # group diags per function to apply the trait.* redundancy rule
        by_fn = {}
        for d in r.diags:
            if d.kind != 'definite':
                continue
            by_fn.setdefault(d.fn, []).append(d)
        for fn, ds in by_fn.items():
            named = []
            for d in ds:
                if d.message.startswith('recommendation not met'):
                    continue
                key = _diag_key(d, r.mode)
                if pid == 'C20' and key['kind'] != 'overflow' and 'explicit_panic' not in (d.callee_clause or '') \
                        and 'explicit_panic' not in (d.expr or ''):
                    # Clauses of the other properties are decided by their own checks - but C20's own claim ("no
                    # overflow site in this function") is proved UNDER the function's loop invariants and the
                    # contracts of its callees.  If one of those fails (and is not a listed finding of another
                    # property), the overflow-freedom proof rests on a false premise: search a dev/release
                    # difference; with one it is a violation, without one the run is undecided - never exit 0.
                    if findings.match(key, known) is None:
                        c20_support.append((r, d, key))
                    continue
                if key['kind'] == 'overflow':
                    # implicit panic site: a C20 obligation, not one of the other properties
                    c20_sites.append((r.unit, key))
                    # In the D-run (requires pre only) an overflow site is the implicit dev-profile panic that C20
                    # is about. In the F-run the caller has promised <pre && ok>, i.e. an input for which this
                    # property demands the exact result (or, for checked_* functions, any input at all): an
                    # arithmetic overflow there is a panic (dev) or a wrapped value (release) where the property
                    # allows neither, so it is a violation of this property too.
                    # In the D-run the site is an implicit panic: present in dev builds, a silently wrapped value in
                    # builds without overflow checks.  That is C20's subject, but it is also a violation of the
                    # property whose operation contains the site: the properties are stated for every build, and a
                    # wrapped sum / product is neither the exact result nor the demanded panic (round 7: a plain `*`
                    # in the integer-on-the-left operator impls left C01 / C02 at exit 0 while C20 reported it).
                    pass
                k = findings.match(key, known)
                if k is not None and pid in k.get('property', []):
                    known_hit[(k['id'], k.get('clause') or k.get('expr'), fn)] = k
                    failed_obl.add('%s [%s] %s' % (fn, r.mode, key.get('clause') or 'safety'))
                    continue
                violations.append((r, d, key))
                failed_obl.add('%s [%s] %s' % (fn, r.mode, key.get('clause') or 'safety'))
    if c20_support:
        import witness as _witness
        seen_fn = {}
        for (r, d, key) in c20_support:
            if d.fn in seen_fn:
                continue
            w = None
            if len(seen_fn) < 4:
                try:
                    w = _witness.search(pid, r, d, key, tier, seed, profile_pair=('dev', 'release'))
                except Exception:
                    w = None
            seen_fn[d.fn] = w
            if w:
                k2 = dict(key)
                k2['witness'] = w
                k2['kind'] = 'overflow (found by the dev/release search after %s failed)' % (key.get('clause') or key.get('kind'))
                violations.append((r, d, k2))
                failed_obl.add('%s [%s] safety' % (d.fn, r.mode))
            else:
                undecided.append('unit %s/%s: the overflow-freedom of %s is proved under an obligation that fails (%s); no dev/release '
                                 'difference was found' % (r.unit, r.mode, d.fn, key.get('clause') or key.get('kind')))
    for fn, w in extra_viol:
        import runner as _runner
        d = _runner.Diag()
        d.message = 'bounded sanity run found a failing input on the real crate'
        d.fn = fn
        d.rendered = d.message
        r0 = results[0]
        violations.append((r0, d, {'fn': fn, 'kind': 'sanity-run', 'clause': None, 'expr': '', 'witness': w}))
    # --- Kani steps
    kani_obl = []
    bounded_list = []
    kani_viol = []
    for k in kani:
        js = k.get('json') or {}
        hs = js.get('harnesses', {})
        if k['rc'] == 2 or not hs:
            undecided.append('kani script %s: tool problem / anchor lost: %s' % (k['script'], k['stdout'][-300:]))
            continue
        for h, r in hs.items():
            if k.get('bounded'):
                # bounded stand-in for a trusted primitive: reported, never counted as a discharged obligation
                bounded_list.append('%s::%s: %s' % (k['script'], h, 'passed' if r.get('ok') else 'FAILED' if r.get('failed') else 'did not finish'))
                if r.get('failed'):
                    kani_viol.append((k, h, r))
                elif not r.get('ok'):
                    undecided.append('bounded kani harness %s did not finish' % h)
                continue
            name = '%s::%s [kani, loop-free, full domain]' % (k['script'], h)
            kani_obl.append(name)
            checker_cmds.append(r.get('cmd', 'cargo kani --harness ' + h))
            if r.get('failed'):
                kani_viol.append((k, h, r))
                failed_obl.add(name)
            elif not r.get('ok'):
                undecided.append('kani harness %s did not finish' % h)
    all_obl += kani_obl
    rc = 0
    out_lines = []
    for (kid, what, fn), k in sorted(known_hit.items()):
        out_lines.append('KNOWN-FINDING: property=%s %s %s :: %s' % (pid, kid, fn, k.get('what', '')))
    replay_paths = []
    if violations:
        # a definite verdict of a unit that ran (or a replayed failing input) stands even if another unit is undecided
        os.makedirs(REPLAYS, exist_ok=True)
        import replay
        n_reported = 0
        kept = []

        def _prio(v):
            # within a macro-generated family the same code fails for every operand type, but a failing input
            # exists only for the types that can reach the faulty path: search the widest types first
            fn = str((v[1].fn if v[1] is not None else '') or '')
            return 0 if 'i128' in fn else 1 if ('u64' in fn or 'i64' in fn) else 2 if 'for Decimal' in fn else 3
        violations = sorted(violations, key=_prio)
        for i, (r, d, key) in enumerate(violations):
            path = replay.make_replay(pid, r, d, key, tier, seed, i)
            found = replay.has_input(path)
            if not found and _restructured(r, d):
                # The function no longer has the control-flow structure its proof script (loop contracts woven by
                # ordinal, entry hints) was written and validated for: the failed obligation is not "an obligation
                # that passed on the unchanged tree and now fails" but a proof that no longer applies.  Without a
                # failing input on the real code this is a failed proof, i.e. undecided - never an alarm.
                undecided.append('unit %s/%s: %s was restructured (control-flow skeleton differs from lib/skeletons.json); '
                                 'obligation %s fails under the old proof script and no failing input was found on the real crate'
                                 % (r.unit, r.mode, d.fn, key.get('clause') or key.get('kind')))
                try:
                    os.unlink(path)
                except OSError:
                    pass
                continue
            replay_paths.append(path)
            n_reported += 1
            kept.append((r, d, key))
            out_lines.append('VIOLATION property=%s replay=%s%s' % (pid, path, '' if found else ' no-failing-input-found'))
        violations = kept
        if n_reported:
            rc = 1
    for k, h, r in kani_viol:
        os.makedirs(REPLAYS, exist_ok=True)
        path = os.path.join(REPLAYS, '%s-kani-%s.json' % (pid, h))
        # Kani's counterexample (concrete playback), replayed against the real crate through the replay driver
        winp = None
        cex = r.get('cex')
        if cex:
            try:
                import witness
                w = {'op': cex['op'], 'lhs': cex['lhs'], 'rhs': cex.get('rhs', '-'), 'n': cex.get('n', 0),
                     'mode': cex.get('mode', 'RoundHalfEven'), 'prec': '-'}
                line = '\t'.join([w['op'], w['lhs'], w['rhs'], str(w['n']), w['mode'], '-'])
                winp = witness.compare([line], [(w['op'], w['lhs'], w['rhs'], w['n'], w['mode'], '-')])
            except Exception:
                winp = None
        with open(path, 'w') as f:
            json.dump({'property': pid, 'obligation': {'kani_harness': h, 'script': k['script']}, 'verifier': 'kani',
                       'verifier_cmd': r.get('cmd'), 'verifier_output': k['stdout'], 'kani_counterexample': cex,
                       'input': winp}, f, indent=1)
        out_lines.append('VIOLATION property=%s replay=%s%s' % (pid, path, '' if winp else ' no-failing-input-found'))
        rc = 1
        violations.append((None, None, {'fn': h}))
    if undecided:
        for u in undecided:
            out_lines.append('UNDECIDED property=%s %s' % (pid, u))
        if rc == 0:
            rc = 2
    for l in out_lines:
        print(l)
    n_obl = len(all_obl)
    n_failed = len([o for o in all_obl if any(o.startswith(f.rsplit(' ', 1)[0]) and o.endswith(f.rsplit(' ', 1)[1]) for f in failed_obl)]) if failed_obl else 0
    n_failed = max(n_failed, min(len(failed_obl), n_obl))
    discharged = n_obl - n_failed
    level = 'proof' if (rc == 0 and not known_hit and spec.get('level', 'proof') == 'proof') else 'other'
    ev = {
        'property_id': pid,
        'tier': tier,
        'seed': seed,
        'level': level,
        'coverage': {
            'obligations': n_obl,
            'discharged': discharged,
            'checker_cmd': ' ; '.join(checker_cmds),
            'trusted_base': trusted + sorted(assumed),
            'samples': all_obl[:6] + all_obl[-3:],
            'functions_under_contract': sorted(fn_under_contract),
            'function_body_sha256': {k: v['sha256'] for k, v in sorted(fn_under_contract.items())},
            'backends': {'verus': n_obl - len(kani_obl), 'kani': len(kani_obl)},
            'solver_ms': solver_ms,
            'units': [{'unit': r.unit, 'mode': r.mode, 'verified_fns': r.verified, 'errors': r.errors,
                       'wall_s': round(r.wall_s, 1)} for r in results],
            'extraction_rule_applications': rule_counts,
            'bounded': bounded_list,
            'vacuity_canaries_failed_as_required': canaries_total,
            'stability_probes': stability,
            'known_findings_hit': [k['id'] + ': ' + k.get('what', '') for k in known_hit.values()],
            'implicit_panic_sites_seen_in_D_run': sorted(set('%s: %s' % (k['fn'], findings.norm(k['expr'])) for _, k in c20_sites)),
            'explanation': _explain(pid, rc, known_hit, n_obl, discharged),
        },
        'assumptions': spec.get('assumptions', []) + [
            'inputs satisfy valid(): n_frac_digits <= 18 and coeff > i128::MIN (the quantifier domain of the property)',
            'explicit panics (the crate\'s own overflow signalling) are compiled identically in every profile; implicit panic sites (arithmetic that relies on overflow-checks) are reported as violations of this property and of C20: no such site exists in the functions of this check',
        ],
        'wall_s': round(wall, 2),
        'violations': len(violations) if rc == 1 else 0,
    }
    os.makedirs(EVID, exist_ok=True)
    with open(os.path.join(EVID, pid + '.json'), 'w') as f:
        json.dump(ev, f, indent=1)
    print('%s: %d obligations, %d discharged, %d known findings, %d violations, %.1fs -> exit %d'
          % (pid, n_obl, discharged, len(known_hit), len(violations), wall, rc))
    return rc


_FALLBACK_DONE = {}


def _frontend_fallback(pid, r, tier, seed):
    """returns (diag-like, key) with key['witness'] set, or None"""
    if r.unit in _FALLBACK_DONE:
        return _FALLBACK_DONE[r.unit]
    res = None
    try:
        import witness
        import runner as _runner
        uo = getattr(r, 'unit_obj', None)
        fns = None
        if uo is None:
            import importlib
            ud = props.UNITS[r.unit]
            try:
                uo = getattr(importlib.import_module(ud.get('module', r.unit)), ud.get('builder', 'build'))()
            except Exception:
                fns = list(ud.get('fallback_keys', []))
        if fns is None:
            fns = list(props.UNITS.get(r.unit, {}).get('fallback_keys', [])) + \
                [k for k, c in uo.fn_contracts.items() if not c.stub] + [k for k, c in uo.fn_contracts.items() if c.stub]
        # one merged search over the distinct (operation, lhs kind, rhs kind) triples of all functions of the
        # unit; the widest operand kinds first (they are the ones that can overflow)
        triples = []
        seen = set()
        for fn in fns:
            for op, lks, rks in witness.ops_for(fn):
                for lk in lks:
                    for rk in (rks or (None,)):
                        if (op, lk, rk) not in seen:
                            seen.add((op, lk, rk))
                            triples.append((op, lk, rk, fn))
        for fn in fns:
            if fn == 'Dec' or fn.endswith('::Dec'):
                # the proc macro: real macro vs from_str on a literal grid (replay/dec_grid.py)
                sys.path.insert(0, os.path.join(os.path.dirname(os.path.dirname(os.path.abspath(__file__))), 'replay'))
                import dec_grid
                w = dec_grid.run()
                if w:
                    d = _runner.Diag()
                    d.message = 'extraction anchor lost / front end rejected the changed macro; the literal grid found a failing literal'
                    d.fn = fn
                    d.rendered = d.message
                    key = {'fn': fn, 'kind': 'frontend-fallback', 'clause': None, 'expr': '', 'witness': w}
                    _FALLBACK_DONE[r.unit] = (d, key)
                    return (d, key)
        wide = ('d', 'i128', 'u64', 'i64', 'f64', 'f32', 's', None)
        triples.sort(key=lambda t: (0 if (t[1] in wide and t[2] in wide) else 1))
        if os.environ.get('VERIF_DEBUG'):
            print('fallback triples', [(t[0], t[1], t[2]) for t in triples], file=sys.stderr)
        deadline = time.time() + (300 if tier == 'thorough' else 90)
        for op, lk, rk, fn in triples:
            left = deadline - time.time()
            if left <= 0:
                break
            key = {'fn': fn, 'kind': 'frontend-fallback', 'clause': None, 'expr': ''}
            w = witness._search(pid, r, None, key, tier, seed, profile_pair=(('dev', 'release') if pid == 'C20' else None),
                                budget=left, combos=[(op, (lk,), ((rk,) if rk else None))])
            if w:
                d = _runner.Diag()
                d.message = 'verifier front end rejected the changed code (%s); bounded differential search found a failing input' % str(r.frontend_error)[:200]
                d.fn = fn
                d.rendered = d.message
                key['witness'] = w
                res = (d, key)
                break
    except Exception:
        import traceback
        if os.environ.get('VERIF_DEBUG'):
            traceback.print_exc()
        res = None
    _FALLBACK_DONE[r.unit] = res
    return res


def _explain(pid, rc, known_hit, n_obl, discharged):
    if rc == 0 and not known_hit:
        return ('every obligation generated from the current /repo source was discharged by Verus: '
                'F-run (requires representable result: no panic, exact value) and D-run '
                '(dev-profile partial correctness: if the call returns, the result was representable and exact)')
    if rc == 0:
        return ('%d of %d obligations discharged; the others fail on this tree and are listed known findings '
                '(genuine defects of the repository, see known_findings.jsonl) - the property does NOT hold for '
                'those input classes' % (discharged, n_obl))
    if rc == 1:
        return 'at least one obligation failed with a definite verifier verdict and is not a listed finding'
    return 'undecided (anchor lost / unsupported construct / resource limit): no verdict'


def write_evidence_undecided(pid, tier, seed, wall, why):
    os.makedirs(EVID, exist_ok=True)
    ev = {'property_id': pid, 'tier': tier, 'seed': seed, 'level': 'other',
          'coverage': {'explanation': 'undecided: ' + why, 'obligations': 0, 'discharged': 0},
          'wall_s': round(wall, 2), 'violations': 0}
    with open(os.path.join(EVID, pid + '.json'), 'w') as f:
        json.dump(ev, f, indent=1)
