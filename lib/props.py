"""Property -> units / obligations table, and the static description used in evidence."""

# unit module name -> (sources needed, features)
UNITS = {
    'core_kernel': {'sources': ('core',), 'modes': ('F', 'D')},
    'round': {'sources': ('core', 'fpdec'), 'modes': ('F', 'D')},
    'add_sub': {'sources': ('core', 'fpdec'), 'modes': ('F', 'D')},
    'cmp': {'sources': ('core', 'fpdec'), 'modes': ('F', 'D')},
    'checked_add_sub': {'sources': ('core', 'fpdec'), 'modes': ('F', 'D'), 'module': 'add_sub', 'builder': 'build_checked'},
}

# property -> list of units whose obligations decide it, plus a filter on which functions /
# clauses of those units belong to the property (None = all)
PROPS = {
    'C01': {
        'units': ['core_kernel', 'add_sub', 'checked_add_sub'],
        'title': 'Addition and subtraction are exact or signal overflow',
        'design_ref': 'DESIGN.md section 7 (C01)',
        'assumptions': ['R8: i128::from(uN) widening conversions (assume_specification)'],
    },
    'C08': {
        'units': ['core_kernel', 'cmp'],
        'title': 'Equality and ordering are by numeric value and form a total order',
        'design_ref': 'DESIGN.md section 7 (C08)',
        'assumptions': ['min/max/<,<=,>,>= are std default methods over cmp/partial_cmp (trusted std)',
                        'reflexive/antisymmetric/transitive: spec-level lemmas over val_cmp (spec/order.rs), connected to the code through the by_value postconditions',
                        'feature rkyv (ArchivedDecimal comparisons, archive round trip) is NOT covered by this check'],
    },
    'C05': {
        'units': ['core_kernel', 'round'],
        'title': 'round / checked_round implement all eight rounding modes exactly',
        'design_ref': 'DESIGN.md section 7 (C05)',
        'assumptions': [
            'R5: the thread default rounding mode is an uninterpreted function of the thread state, read once per call (thread_local! storage itself is outside Verus)',
        ],
    },
}

COMMON_TRUSTED = [
    'Verus 0.2026.09.13 + Z3 (soundness of the verifier)',
    'rustc -Zunpretty=expanded prints the code that is compiled (macro expansion by the compiler itself)',
    'extraction rules R1-R13 of DESIGN.md section 3 (attributes/comments dropped, module tree flattened, panics -> explicit_panic stub, UFCS operator calls -> infix, Option::map(closure) -> match)',
    'machine arithmetic is NOT treated as mathematical: Verus checks every + - * / % << >> for overflow / division by zero on the machine types',
]
