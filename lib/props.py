"""Property -> units / obligations table, and the static description used in evidence."""

# unit module name -> (sources needed, features)
UNITS = {
    'core_kernel': {'sources': ('core',), 'modes': ('F', 'D')},
    'round': {'sources': ('core', 'fpdec'), 'modes': ('F', 'D')},
    'add_sub': {'sources': ('core', 'fpdec'), 'modes': ('F', 'D')},
    'div_kernel': {'sources': ('core', 'fpdec'), 'modes': ('F', 'D'), 'module': 'div', 'builder': 'build_kernel'},
    'div_rounded': {'sources': ('core', 'fpdec'), 'modes': ('F', 'D'), 'module': 'div', 'builder': 'build'},
    'div': {'sources': ('core', 'fpdec'), 'modes': ('F', 'D'), 'module': 'div', 'builder': 'build_div'},
    'checked_div': {'sources': ('core', 'fpdec'), 'modes': ('F', 'D'), 'module': 'div', 'builder': 'build_checked_div'},
    'mul': {'sources': ('core', 'fpdec'), 'modes': ('F', 'D')},
    'checked_mul': {'sources': ('core', 'fpdec'), 'modes': ('F', 'D'), 'module': 'mul', 'builder': 'build_checked'},
    'from_float': {'sources': ('core', 'fpdec'), 'modes': ('F', 'D')},
    'format': {'sources': ('core', 'fpdec'), 'modes': ('F', 'D')},
    'format_roundtrip': {'sources': ('core', 'fpdec'), 'modes': ('F',), 'module': 'format', 'builder': 'build_roundtrip',
                         'fallback_keys': ['serde', 'format::', 'from_str::']},
    'ratio': {'sources': ('core', 'fpdec'), 'modes': ('F', 'D')},
    'magnitude': {'sources': ('core',), 'modes': ('F', 'D')},
    'unops': {'sources': ('core', 'fpdec'), 'modes': ('F', 'D')},
    'num_traits': {'sources': ('core', 'fpdec'), 'features': ('num-traits',), 'modes': ('F', 'D'), 'module': 'unops', 'builder': 'build_num_traits'},
    'conv_int': {'sources': ('core', 'fpdec'), 'modes': ('F', 'D')},
    'conv_int_total': {'sources': ('core', 'fpdec'), 'modes': ('F', 'D'), 'module': 'conv_int', 'builder': 'build_total'},
    'into_float': {'sources': ('core', 'fpdec'), 'modes': ('F', 'D')},
    'parser': {'sources': ('core', 'fpdec'), 'modes': ('F', 'D')},
    'rem': {'sources': ('core', 'fpdec'), 'modes': ('F', 'D')},
    'checked_rem': {'sources': ('core', 'fpdec'), 'modes': ('F', 'D'), 'module': 'rem', 'builder': 'build_checked'},
    'dec_macro': {'sources': ('core', 'fpdec', 'macros'), 'modes': ('F', 'D')},
    'quantize': {'sources': ('core', 'fpdec'), 'modes': ('F', 'D')},
    'wide': {'sources': ('core',), 'modes': ('F', 'D')},
    'cmp_rkyv': {'sources': ('core', 'fpdec'), 'features': ('rkyv',), 'modes': ('F', 'D'), 'module': 'cmp', 'builder': 'build_rkyv',
                 'fallback_keys': ['ArchivedDecimal']},
    'cmp': {'sources': ('core', 'fpdec'), 'modes': ('F', 'D')},
    'checked_add_sub': {'sources': ('core', 'fpdec'), 'modes': ('F', 'D'), 'module': 'add_sub', 'builder': 'build_checked'},
}

# property -> list of units whose obligations decide it, plus a filter on which functions /
# clauses of those units belong to the property (None = all)
PROPS = {
    'C01': {
        'units': ['core_kernel', 'add_sub', 'checked_add_sub'],
        'title': 'Addition and subtraction are exact or signal overflow',
        'design_ref': 'DESIGN.md section 7 (C01)',
        'assumptions': ['R8: i128::from(uN) widening conversions (assume_specification)'],
    },
    'C06': {
        'units': ['core_kernel', 'parser'],
        'kani': ['kani/swar.py'],
        'kani_bounded': ['kani/prims.py'],
        'technique': 'contract-based deductive verification (Verus) of the macro-expanded real code, contracts woven mechanically; the two SWAR bit tricks by loop-free full-domain Kani/CBMC harnesses (kani/swar.py); the two raw-memory primitives additionally by a bounded Kani run (kani/prims.py, labelled bounded)',
        'title': 'Parsing accepts exactly the literal grammar and never yields a wrong value',
        'design_ref': 'DESIGN.md section 7 (C06)',
        'assumptions': [
            'the two raw-memory primitives skip_n (get_unchecked) and read_u64_unchecked (ptr::read_unaligned) are external_body stubs with requires n <= len / len >= 8 and slice / little-endian-word ensures; every call site is verified against those requires (that IS the never-reads-outside-the-string claim), their 1-3 line unsafe bodies are trusted (pinned by hash) and additionally checked by a BOUNDED Kani run (kani/prims.py: buffers of length 0..=16, memory safety + functional contract), reported under coverage.bounded, not counted as proof',
            '<str as AsRef<[u8]>>::as_ref returns the UTF-8 bytes of the string (uninterpreted utf8(), assume_specification)',
            'chunk_contains_8_digits / chunk_to_u64 enter the Verus unit as stubs with exactly the contract proved by Kani on the full u64 domain (kani/swar.py, loop-free harnesses: complete, not bounded)',
        ],
    },
    'C07': {
        'units': ['core_kernel', 'format', 'format_roundtrip', 'parser'],
        'thorough_extra': ['witness:serde'],
        'title': 'Display/ToString is canonical and round-trips through the parser',
        'design_ref': 'DESIGN.md section 7 (C07)',
        'assumptions': [
            'R7: core::fmt is outside Verus: format!/write!/to_string are stubs whose postcondition is generated from the format-string literal; Formatter is a stand-in with a ghost log',
            'round trip: spec-level lemma parse_decimal_spec(ascii(canonical(c,f))) == Some((c,f)) (spec/strings.rs, spec/parse.rs) composed with the proved contracts of String::from / Display (unit format) and from_str (unit parser); no exec function composes the two calls',
            'serde-as-str: the derive output is inspected mechanically on the feature expansion (delegates to String::from(Decimal) / TryFrom<String>); serde itself is a trusted dependency',
        ],
    },
    'C10': {
        'units': ['core_kernel', 'cmp', 'rem', 'checked_rem'],
        'title': 'Remainder satisfies the truncated-division identity exactly',
        'design_ref': 'DESIGN.md section 7 (C10)',
        'assumptions': [
            'R8: i128::from(uN) widening conversions (assume_specification)',
            'eq_zero/eq_one enter with the contracts proved in unit cmp',
            'the overflow signal (panic / None) is accepted whenever p < q and cx*10^(q-p) is outside i128, as the statement permits, even though the exact remainder is representable there (e.g. new_raw(MAX/3,1) % new_raw(MAX/5,3))',
        ],
    },
    'C08': {
        'units': ['core_kernel', 'cmp', 'cmp_rkyv'],
        'thorough_extra': ['witness:ArchivedDecimal'],
        'title': 'Equality and ordering are by numeric value and form a total order',
        'design_ref': 'DESIGN.md section 7 (C08)',
        'assumptions': ['min/max/<,<=,>,>= are std default methods over cmp/partial_cmp (trusted std)',
                        'reflexive/antisymmetric/transitive: spec-level lemmas over val_cmp (spec/order.rs), connected to the code through the by_value postconditions',
                        'feature rkyv: the 6 comparison impls + Ord of ArchivedDecimal are verified on the --features rkyv expansion against the value of the Decimal they archive (rule R14: rkyv::Archived<i128> = i128, Archived<u8> = u8, i.e. a little-endian target without rkyv endian features)',
                        'feature rkyv: archiving followed by deserialising being the identity is NOT decided by any contract: the derive-generated Archive/Serialize/Deserialize impls (and rkyv itself) are a trusted dependency; the thorough tier adds a bounded sanity run (replay driver built with --features rkyv: archive, validate, compare, deserialize on the boundary/random operand pool) - labelled bounded, not proof; the manual raw-pointer impls for rkyv+packed are not exercised'],
    },
    'C02': {
        'units': ['core_kernel', 'wide', 'mul', 'checked_mul'],
        'title': 'Multiplication is exact up to 18 digits, else correctly rounded',
        'design_ref': 'DESIGN.md section 7 (C02)',
        'assumptions': [
            'R5: thread default rounding mode read once per call (uninterpreted function of the thread state)',
            'the 256-bit path i128_mul_div_ten_pow_rounded enters the mul units as a stub with the contract proved on its body in unit wide (part of this check)',
            'representable = coefficient within Decimal::MIN..=Decimal::MAX; at coefficient -2^127 (inside i128, outside that range) both panic and return are accepted',
        ],
    },
    'C03': {
        'units': ['core_kernel', 'wide', 'div_kernel', 'div', 'checked_div'],
        'title': 'Division yields the quotient correctly rounded to 18 fractional digits',
        'design_ref': 'DESIGN.md section 7 (C03)',
        'assumptions': [
            'R5: thread default rounding mode read once per call (uninterpreted function of the thread state)',
            'the 256-bit path i128_shifted_div_rounded enters the div units as a stub with the contract proved on its body in unit wide (part of this check)',
            'representable = coefficient within Decimal::MIN..=Decimal::MAX; at coefficient -2^127 both panic and return are accepted',
        ],
    },
    'C04': {
        'units': ['core_kernel', 'wide', 'div_kernel', 'div_rounded', 'mul', 'quantize'],
        'title': 'mul_rounded, div_rounded and quantize round the exact result once, per mode',
        'design_ref': 'DESIGN.md section 7 (C04)',
        'level': 'other',
        'level_text': 'Same deductive machinery as the proof-level checks (Verus on contracts woven into the real code, F-run and D-run), but the property does NOT hold on this tree for one input class that cannot be repaired without editing the test suite: int.div_rounded(int, n) with n > 18 (known finding D4b, 27 failing obligations in the 9 int/int impls). Every other obligation is discharged for all inputs; a new failing obligation is reported as a violation.',
        'assumptions': [
            'R5: thread default rounding mode read once per call (uninterpreted function of the thread state)',
            'the 256-bit paths enter as stubs with the contracts proved on their bodies in unit wide (part of this check)',
            'quantize: the generic blanket impl is verified once for all T, Q against the trait-level contracts of DivRounded and Mul (result == div_rounded(q, 0) * q); the instance lemma lemma_quantize_decimal turns that into result == k*q with k = x/q rounded once for Decimal/Decimal; the integer instances follow from the same generic contract but have no separate instance lemma',
        ],
    },
    'C09': {
        'units': ['core_kernel', 'ratio'],
        'title': 'Hash agrees with equality; as_integer_ratio is the reduced fraction',
        'design_ref': 'DESIGN.md section 7 (C09)',
        'assumptions': [
            'hashing of the (i128, i128) pair is an uninterpreted deterministic function of (hasher state, pair) (assume_specification on <(T,B) as Hash>::hash)',
            'i128::trailing_zeros / i128::abs / core::cmp::min specified by assume_specification (std documentation)',
            'equal value => equal reduced pair => equal hash: spec-level lemmas (units/ratio.py, spec/numtheory.rs) over the proved postcondition of as_integer_ratio',
        ],
    },
    'C14': {
        'units': ['core_kernel', 'conv_int', 'conv_int_total'],
        'title': 'Integer conversions are exact and total with precise error kinds',
        'design_ref': 'DESIGN.md section 7 (C14)',
        'assumptions': [
            'Verus cannot attach a precondition to impls of From/TryFrom: the value clauses are proved for every Decimal for which the call returns (unit conv_int); totality (no panic) for valid Decimals is proved on mechanically derived free-function copies of the same method bodies (unit conv_int_total, rule R54)',
            'i128::try_from(u128), i128::abs by assume_specification; the narrowing T::try_from(i128) are specified by vstd',
        ],
    },
    'C15': {
        'units': ['core_kernel', 'magnitude', 'unops', 'num_traits', 'cmp_rkyv'],
        'title': 'floor, ceil, trunc, fract, abs, neg, magnitude and sign predicates are exact',
        'design_ref': 'DESIGN.md section 7 (C15)',
        'assumptions': [
            'num-traits: the external traits Zero/One/Num/Signed are stand-in declarations (required-method signatures of num-traits 0.2.19) generated in the unit; provided methods (set_zero, set_one) not covered',
            'from_str_radix is specified relative to an uninterpreted from_str_result (the parser itself is C06)',
            'the rkyv ArchivedDecimal variants of the four predicates are verified in unit cmp_rkyv (rule R14)',
        ],
    },
    'C11': {
        'units': ['core_kernel', 'format'],
        'title': 'Formatting with precision, width, fill, alignment and sign flags is correct',
        'design_ref': 'DESIGN.md section 7 (C11)',
        'level': 'proof',
        'level_text': 'Verus proves for every precision value and rounding mode that Display::fmt hands exactly one pad_integral(sign of d, "", digits) call to the formatter with digits == the canonical text of d rounded once to min(P,18) fractional digits, and writes nothing else; width/fill/alignment/+/0 are then core::fmt::Formatter::pad_integral by construction (trusted, not verified).',
        'assumptions': [
            'R7: core::fmt is outside Verus: format!/write!/to_string are stubs whose postcondition is generated from the format-string literal in the source; Formatter is a stand-in with a ghost log',
            'sentence 2 of C11 (width, fill, alignment, + and 0 flags) is core::fmt::Formatter::pad_integral: trusted std code',
            'R5: thread default rounding mode read once per call',
        ],
    },
    'C12': {
        'units': ['core_kernel', 'into_float'],
        'kani': ['kani/cast.py'],
        'technique': 'contract-based deductive verification (Verus) of the macro-expanded real code, contracts woven mechanically; the branch through the primitive int->float cast, which Verus cannot read, by loop-free full-domain Kani/CBMC harnesses on the real From impls (kani/cast.py)',
        'title': 'Decimal to f64/f32 conversion is correctly rounded',
        'design_ref': 'DESIGN.md section 7 (C12)',
        'assumptions': [
            'the result is specified as a BIT PATTERN: from_bits is called with sign | rne_bits(|c|, 10^f); rne_bits is proved (spec/float_rne.rs) to be the nearest normal number, ties to even; IEEE-754 layout of f64::from_bits / f32::from_bits is assumed',
            'Decimals with n_frac_digits == 0 or coeff == 0 go through the compiler int->float cast (`coeff as f64`), which Verus cannot read: that branch of the REAL From impls is proved by Kani/CBMC (kani/cast.py: four loop-free harnesses over every coefficient in Decimal::MIN..=MAX at scale 0 and every zero with 0..=18 fractional digits, bit pattern == integer-only nearest-even oracle, zero -> +0.0; complete, not bounded). Assumed there: CBMC\'s bit-precise IEEE-754 model of `i128 as f64/f32` (round to nearest even, as the Rust reference prescribes) is what rustc/LLVM emit; the oracle rne_int_bits is an executable transcription of the den == 1 instance of spec float_bits_of (checked on hand-computed patterns)',
            'u128::leading_zeros, u128::pow, f64::MANTISSA_DIGITS/MAX_EXP, size_of::<u64/u32> by assume_specification / table (std documentation)',
            'From<Decimal> for f64/f32 are verified as mechanically derived free functions (rule R54), because Verus does not allow a precondition (valid(d)) on impls of From',
        ],
    },
    'C13': {
        'units': ['core_kernel', 'from_float'],
        'title': 'f64/f32 to Decimal yields the nearest 18-digit Decimal or a precise error',
        'design_ref': 'DESIGN.md section 7 (C13)',
        'assumptions': [
            'IEEE-754 binary64/binary32 layout of f64::to_bits / f32::to_bits; is_nan / is_infinite specified over the bit pattern (assume_specification)',
            'i128_magnitude enters with its contract (10^r <= |i| < 10^(r+1)); its body is verified in unit magnitude (C15)',
            'finite f outside the i128 coefficient range is read literally: -2^127 (coefficient i128::MIN) is converted, see DESIGN.md findings F1',
        ],
    },
    'C16': {
        'units': ['core_kernel', 'wide', 'mul', 'div_kernel'],
        'title': 'Results stay correct when intermediates exceed 128 bits',
        'design_ref': 'DESIGN.md section 7 (C16)',
        'level_text': 'All eleven wide-arithmetic functions of fpdec-core are verified with their REAL bodies (no contract assumed): 128x128->256 multiplication, 256/64 and 256/128 division including the Knuth-D specialisation without add-back (loop invariants over four spec predicates), the sign fix-ups (result == mathematical floor quotient / remainder, None iff the magnitude quotient exceeds i128::MAX) and the two rounded entry points (Some(v) with v the exact quotient rounded once, None only if v is not a valid coefficient); the callers checked_mul_rounded / checked_div_rounded are verified against these contracts in units mul / div_kernel.',
        'assumptions': [
            'wrapping_mul/add/sub are specified by vstd; shifts and masks by bit_vector lemmas (proved)',
            'None-side: at the single value v == i128::MIN (outside Decimal::MIN..=MAX) either answer is accepted; for every valid coefficient the result is Some(v)',
        ],
    },
    'C17': {
        'units': ['core_kernel', 'add_sub', 'checked_add_sub', 'mul', 'checked_mul', 'div_kernel', 'div_rounded', 'div',
                  'checked_div', 'rem', 'checked_rem', 'cmp'],
        'title': 'All operand forms of an operator compute the same function',
        'design_ref': 'DESIGN.md section 7 (C17)',
        'level': 'other',
        'level_text': 'Every one of the macro-generated impls (by-value, by-reference, integer operand on either side, compound assignment) gets its contract GENERATED FROM ITS IMPL HEADER: the ok/value specification of the Decimal/Decimal form applied to the lifted operands (dec_of(i) for an integer i), and Verus proves each impl body against it (the impl count per family is checked, a changed count is exit 2). Not level proof because the property fails for one family on this tree: int.div_rounded(int, n) with n > 18 (known finding D4b).',
        'assumptions': [
            'compound assignment: impl<T> OpAssign<T> for Decimal is verified generically: same precondition and value as the operator for every T',
            'multiplication: the integer forms are judged against the exact product at the Decimal scale (no one/zero short-cut), as the property allows',
            'quantize: one generic impl for all operand forms (verified once, unit quantize)',
        ],
    },
    'C18': {
        'units': ['parser', 'dec_macro'],
        'thorough_extra': ['dec_grid'],
        'title': 'The Dec! macro and runtime parsing agree on every literal',
        'design_ref': 'DESIGN.md section 7 (C18)',
        'level_text': 'Verus proves that the body of the proc macro Dec (the real exponent-folding code between token-stream extraction and quote!) returns - for every source text - exactly the (coefficient, fractional digits) pair given by the same specification parse_decimal_spec against which Decimal::from_str is proved (unit parser), and panics (= compile error) exactly when that specification is None. Function-level proof; the quantifier over programs rests on the assumption below.',
        'assumptions': [
            'R9: proc_macro::TokenStream::to_string renders an optionally signed literal as its source text with at most one blank after the sign, which the macro removes (these three statements are replaced by the stub r9_literal_text; the token stream and quote! are compiler API outside Verus)',
            'quote!(Decimal::new_raw(#coeff, #n_frac_digits)) emits exactly that call (pattern-checked on the expansion, otherwise exit 2)',
            'i128::pow by assume_specification',
        ],
    },
    'C20': {
        'units': ['core_kernel', 'round', 'add_sub', 'checked_add_sub', 'mul', 'checked_mul', 'div_kernel', 'div_rounded',
                  'div', 'checked_div', 'rem', 'checked_rem', 'cmp', 'unops', 'magnitude', 'conv_int_total', 'from_float',
                  'into_float', 'format', 'parser', 'ratio', 'wide'],
        'unit_modes': {'*': ('D',), 'unops': ('F', 'D'), 'core_kernel': ('F', 'D')},
        'title': 'Results do not depend on the build profile; overflow is never silent',
        'design_ref': 'DESIGN.md section 7 (C20)',
        'level': 'other',
        'level_text': 'Decides the overflow-check and debug-assertion dimensions deductively: in the D-run of every unit (explicit_panic diverges, inputs in the property domain) Verus must report NO possible-overflow / division-by-zero / shift obligation - i.e. every panic on an unrepresentable result is an explicit panic that is compiled identically with and without overflow-checks - and every debug_assert! condition is proved in the F-run. opt-level and the packed layout are not decided by any contract (compiler correctness / layout only), hence level other.',
        'assumptions': [
            'opt-level 0 vs 3: rustc/LLVM preserve the semantics of safe code without UB (trusted)',
            'feature packed: repr(packed) only changes field layout; the crate takes no references to fields (the compiler would reject that); trusted',
            'inputs in the domain of C01-C15 (valid Decimals: coeff > i128::MIN, n_frac_digits <= 18)',
            'array index panics (ten_pow) are present in every build profile (language guarantee)',
        ],
    },
    'C05': {
        'units': ['core_kernel', 'round'],
        'title': 'round / checked_round implement all eight rounding modes exactly',
        'design_ref': 'DESIGN.md section 7 (C05)',
        'assumptions': [
            'R5: the thread default rounding mode is an uninterpreted function of the thread state, read once per call (thread_local! storage itself is outside Verus)',
        ],
    },
}


# --- modular closure -------------------------------------------------------------------------------------
# A stub (external_body + contract) is only as good as the proof of that contract.  Every property check is
# therefore closed under "home units": if one of its units uses the contract of a function whose body is
# verified in another unit, that unit is made part of the check as well (lib/unit_needs.json is generated by
# tools/stub_homes.py --write; tools/stub_homes.py without arguments audits the result, and bin/check
# re-audits at run time on the units it actually built).
KANI_HOMES = {
    'parser::chunk_contains_8_digits': 'kani/swar.py',
    'parser::chunk_to_u64': 'kani/swar.py',
    "parser::impl<'a> AsciiDecLit<'a>::read_u64_unchecked": 'kani/prims.py',
    "parser::impl<'a> AsciiDecLit<'a>::skip_n": 'kani/prims.py',
}


def _close():
    import json as _json
    import os as _os
    f = _os.path.join(_os.path.dirname(_os.path.abspath(__file__)), 'unit_needs.json')
    try:
        needs = _json.load(open(f))
    except Exception:
        needs = {}
    for pid, sp in PROPS.items():
        units = list(sp['units'])
        added = []
        i = 0
        while i < len(units):
            for h in needs.get(units[i], []):
                if h not in units:
                    units.append(h)
                    added.append(h)
            i += 1
        sp['units'] = units
        sp['units_added_by_closure'] = added
        if 'parser' in units:
            sp.setdefault('kani', [])
            sp.setdefault('kani_bounded', [])
            if 'kani/swar.py' not in sp['kani']:
                sp['kani'].append('kani/swar.py')
            if 'kani/prims.py' not in sp['kani_bounded']:
                sp['kani_bounded'].append('kani/prims.py')


_close()

COMMON_TRUSTED = [
    'Verus 0.2026.09.13 + Z3 (soundness of the verifier)',
    'rustc -Zunpretty=expanded prints the code that is compiled (macro expansion by the compiler itself)',
    'extraction rules of DESIGN.md section 3 (attributes/comments dropped, module tree flattened, panics -> explicit_panic stub, UFCS operator calls -> infix, closure combinators -> match (R13), loop normalisation (R15), constant folding (R16), inlining of contract-less straight-line helpers (R18), parameter renaming in contracts (R19); each application is counted in coverage.extraction_rule_applications)',
    'machine arithmetic is NOT treated as mathematical: Verus checks every + - * / % << >> for overflow / division by zero on the machine types',
]
