"""Witness search and replay on the REAL crate (never a deciding step).

After Verus reports a failed obligation in function F, this module maps F to the public
operations that reach it, generates boundary + seeded random inputs for them, runs them through
the replay driver (built against /repo's current tree) and compares with replay/oracle.py.
The first mismatch becomes the concrete failing input of the replay file."""
import os
import random
import re
import subprocess
import sys
import time

VERIF = os.path.dirname(os.path.dirname(os.path.abspath(__file__)))
sys.path.insert(0, os.path.join(VERIF, 'replay'))
import oracle          # noqa: E402
import build_driver    # noqa: E402

INTS = ['u8', 'i8', 'u16', 'i16', 'u32', 'i32', 'u64', 'i64', 'i128']
TRAIT_OPS = {
    'Add': 'add', 'Sub': 'sub', 'Mul': 'mul', 'Div': 'div', 'Rem': 'rem',
    'AddAssign': 'add_assign', 'SubAssign': 'sub_assign', 'MulAssign': 'mul_assign', 'DivAssign': 'div_assign',
    'RemAssign': 'rem_assign',
    'CheckedAdd': 'checked_add', 'CheckedSub': 'checked_sub', 'CheckedMul': 'checked_mul', 'CheckedDiv': 'checked_div',
    'CheckedRem': 'checked_rem', 'DivRounded': 'div_rounded', 'MulRounded': 'mul_rounded',
    'PartialEq': 'eq', 'PartialOrd': 'partial_cmp', 'Ord': 'cmp', 'Neg': 'neg', 'Quantize': 'quantize',
}
REF_FORM_OPS = ('add', 'sub', 'mul', 'div', 'rem', 'checked_add', 'checked_sub', 'checked_mul', 'checked_div', 'checked_rem')
# kernel / helper functions -> public operations (op, lhs kinds, rhs kinds) that exercise them
ALL_DEC = ('d',)
ANY = ('d',) + tuple(INTS)
KERNEL_OPS = {
    'powers_of_ten::': [('from_str', ('s',), None), ('add', ALL_DEC, ANY), ('sub', ANY, ALL_DEC), ('round', ALL_DEC, None), ('eq', ALL_DEC, ANY),
                        ('rem', ALL_DEC, ALL_DEC), ('div', ALL_DEC, ALL_DEC), ('checked_div', ('u64', 'i128'), ALL_DEC)],
    'adjust_coeffs': [('eq', ALL_DEC, ALL_DEC), ('partial_cmp', ALL_DEC, ALL_DEC)],
    'i128_div_mod_floor': [('round', ALL_DEC, None), ('div_rounded', ALL_DEC, ALL_DEC), ('to_string', ALL_DEC, None)],
    'rounding::': [('round', ALL_DEC, None), ('div_rounded', ANY, ALL_DEC), ('mul', ALL_DEC, ALL_DEC), ('div', ALL_DEC, ANY),
                   ('mul_rounded', ALL_DEC, ALL_DEC)],
    'binops::div_rounded::checked_div_rounded': [('div_rounded', ANY, ANY), ('div', ALL_DEC, ANY), ('checked_div', ANY, ALL_DEC)],
    'binops::mul_rounded::checked_mul_rounded': [('mul', ALL_DEC, ALL_DEC), ('mul_rounded', ALL_DEC, ALL_DEC)],
    'binops::rem::rem': [('rem', ANY, ALL_DEC), ('rem', ALL_DEC, ANY), ('checked_rem', ALL_DEC, ALL_DEC)],
    'normalize': [('div', ALL_DEC, ANY), ('try_from_float', ('f64', 'f32'), None)],
    'round::': [('round', ALL_DEC, None), ('checked_round', ALL_DEC, None)],
    'unops::': [('floor', ALL_DEC, None), ('ceil', ALL_DEC, None), ('trunc', ALL_DEC, None), ('fract', ALL_DEC, None),
                ('neg', ALL_DEC, None), ('abs', ALL_DEC, None), ('rem', ALL_DEC, ALL_DEC)],
    'binops::cmp::impl Decimal': [('eq_zero', ALL_DEC, None), ('eq_one', ALL_DEC, None), ('is_negative', ALL_DEC, None), ('is_positive', ALL_DEC, None),
                                  ('mul', ALL_DEC, ALL_DEC)],
    'impl Decimal::magnitude': [('magnitude', ALL_DEC, None)],
    'u128_': [('mul', ALL_DEC, ALL_DEC), ('div', ALL_DEC, ALL_DEC), ('div_rounded', ALL_DEC, ALL_DEC), ('mul_rounded', ALL_DEC, ALL_DEC)],
    'u256_': [('mul', ALL_DEC, ALL_DEC), ('div', ALL_DEC, ALL_DEC), ('div_rounded', ALL_DEC, ALL_DEC), ('mul_rounded', ALL_DEC, ALL_DEC)],
    'i256_': [('mul', ALL_DEC, ALL_DEC), ('mul_rounded', ALL_DEC, ALL_DEC)],
    'i128_shifted': [('div', ALL_DEC, ALL_DEC), ('div_rounded', ALL_DEC, ALL_DEC)],
    'i128_magnitude': [('magnitude', ALL_DEC, None), ('try_from_float', ('f64',), None)],
    'less_than_5': [('magnitude', ALL_DEC, None)],
    'ArchivedDecimal': [('rkyv_eq', ALL_DEC, ALL_DEC), ('rkyv_eq_dec', ALL_DEC, ALL_DEC), ('rkyv_dec_eq', ALL_DEC, ALL_DEC),
                        ('rkyv_partial_cmp', ALL_DEC, ALL_DEC), ('rkyv_cmp', ALL_DEC, ALL_DEC), ('rkyv_partial_cmp_dec', ALL_DEC, ALL_DEC),
                        ('rkyv_dec_partial_cmp', ALL_DEC, ALL_DEC), ('rkyv_roundtrip', ALL_DEC, None)],
    'serde': [('serde_to_json', ALL_DEC, None), ('serde_roundtrip', ALL_DEC, None)],
    'num_traits::': [('nt_abs_sub', ALL_DEC, ALL_DEC), ('nt_is_zero', ALL_DEC, None), ('nt_is_one', ALL_DEC, None), ('nt_abs', ALL_DEC, None),
                     ('nt_signum', ALL_DEC, None), ('nt_is_positive', ALL_DEC, None), ('nt_is_negative', ALL_DEC, None),
                     ('nt_from_str_radix', ('s',), None)],
    'parser::': [('from_str', ('s',), None)],
    'from_str::': [('from_str', ('s',), None), ('try_from_str', ('s',), None), ('try_from_string', ('s',), None), ('parse', ('s',), None)],
    'format::': [('to_string', ALL_DEC, None), ('string_from', ALL_DEC, None), ('debug', ALL_DEC, None), ('format', ALL_DEC, None)],
    'from_float::': [('try_from_float', ('f64', 'f32'), None)],
    'into_float::': [('into_f64', ALL_DEC, None), ('into_f32', ALL_DEC, None)],
    'from_int::': [('from_int', tuple(INTS), None), ('from_u128', ('s',), None)],
    'into_int::': [('into_int', ALL_DEC, ('t',))],
    'as_integer_ratio::': [('ratio', ALL_DEC, None), ('numerator', ALL_DEC, None), ('denominator', ALL_DEC, None), ('hash_is_ratio_hash', ALL_DEC, None)],
    'impl Hash for Decimal': [('hash_is_ratio_hash', ALL_DEC, None)],
}


# the integer-log10 chain behind magnitude (function keys are the bare names u8 .. u128)
EXACT_OPS = {k: [('magnitude', ALL_DEC, None), ('try_from_float', ('f64',), None)] for k in ('u8', 'u16', 'u32', 'u64', 'u128', 'less_than_5')}


def kind_of_type(t):
    t = t.strip()
    t = re.sub(r"^&\s*('[a-z_]+\s+)?", '', t)
    if t in ('Decimal', 'Self'):
        return 'd'
    if t in INTS:
        return t
    return None


def ops_for(fn):
    """list of (op, lhs kinds, rhs kinds)"""
    fn = fn or ''
    m = re.search(r'impl(?:<[^>]*>)? (\w+)(?:<([^>]*)>)? for ([^:]+?)(?: where .*)?::(\w+)$', fn)
    if m:
        trait, targ, self_ty, method = m.groups()
        if trait == 'Round':
            return [(method, ALL_DEC, None)]
        if trait in TRAIT_OPS:
            lk = kind_of_type(self_ty)
            rk = kind_of_type(targ or self_ty)
            if trait.endswith('Assign'):
                return [(TRAIT_OPS[trait], ALL_DEC, ANY)]
            if trait == 'Neg':
                return [('neg', ALL_DEC, None)]
            if trait == 'Ord':
                return [('cmp', ALL_DEC, ALL_DEC), ('max', ALL_DEC, ALL_DEC), ('min', ALL_DEC, ALL_DEC)]
            if lk and rk:
                base = TRAIT_OPS[trait]
                # by-reference impl forms are exercised through the matching reference expression
                lref = self_ty.strip().startswith('&')
                rref = (targ or '').strip().startswith('&')
                if base in REF_FORM_OPS and (lref or rref):
                    base += '_rr' if (lref and rref) else '_rv' if lref else '_vr'
                out = [(base, (lk,), (rk,))]
                if trait == 'PartialEq':
                    out.append(('ne', (lk,), (rk,)))
                if trait == 'PartialOrd':
                    out += [(o, (lk,), (rk,)) for o in ('lt', 'le', 'gt', 'ge')]
                return out
    if fn in EXACT_OPS:
        return list(EXACT_OPS[fn])
    out = []
    for pre, ops in KERNEL_OPS.items():
        if fn.startswith(pre) or (pre in fn):
            out += ops
    if not out:
        out = [('add', ALL_DEC, ANY), ('mul', ALL_DEC, ALL_DEC), ('div', ALL_DEC, ALL_DEC), ('round', ALL_DEC, None)]
    return out


def coeff_pool(rng, extra=40):
    pool = {0, 1, -1, 2, -2, 3, 5, -5, 7, 9, 10, -10, 11, 20, -20, 25, 30, 50, 70, -70, 99, 100, 101, -101, 505, 1000, 12345, -12345, 999999}
    for k in range(0, 13):
        pool.add(oracle.I128_MAX - k)
        pool.add(-(oracle.I128_MAX - k))
    for k in range(1, 39):
        p = 10 ** k
        for v in (p, p - 1, p + 1, 5 * p, 5 * p - 1, 5 * p + 1, 15 * p, 25 * p, 3 * p):
            if v <= oracle.I128_MAX:
                pool.add(v)
                pool.add(-v)
    for e in (31, 32, 53, 62, 63, 64, 65, 96, 100, 120, 125, 126):
        for d in (-1, 0, 1):
            pool.add((1 << e) + d)
            pool.add(-((1 << e) + d))
    mx = oracle.I128_MAX
    for v in (mx, mx - 1, mx // 2, mx // 2 + 1, mx // 3, mx // 10, mx // 10 + 1, mx // 100, mx // 10 ** 18, mx // 10 ** 18 + 1):
        pool.add(v)
        pool.add(-v)
    # exact ties / near-ties of the binary float formats (C12): (2^53 + 1) * 2^k, (2^24 + 1) * 2^k and neighbours,
    # and 5/8-ulp patterns
    for F in (53, 24):
        for k in (0, 1, 2, 5, 10, 20, 40, 60, 70, 100):
            for off in (-1, 0, 1):
                for num in ((1 << F) + 1, (1 << F) + 3, (1 << (F + 1)) - 1, (1 << (F + 3)) + 5, (1 << (F + 3)) + 4):
                    v = (num << k) + off
                    if 0 < v <= mx:
                        pool.add(v)
                        pool.add(-v)
    for _ in range(extra):
        bits = rng.choice([4, 8, 16, 30, 60, 64, 90, 120, 126, 127])
        v = rng.getrandbits(bits)
        if v <= mx:
            pool.add(v)
            pool.add(-v)
    return sorted(pool)



def float_mid_decimals():
    """Decimals at / next to the midpoints between adjacent f32 / f64 values (and hence, for f32, values whose
    f64 image is such a midpoint): the inputs on which a wrong or a double rounding shows."""
    from fractions import Fraction
    out = []
    for F in (24, 53):
        for e in (-(F + 2), -F, -(F - 1), -(F - 4), -12, -3, 0, 3):
            for M in ((1 << (F - 1)), (1 << (F - 1)) + 1, (1 << (F - 1)) + 2, (1 << F) - 1, (1 << (F - 1)) + 0x2b3):
                mid = Fraction(2 * M + 1) * Fraction(2) ** (e - 1)
                for n in (18, 12, 7):
                    c = (mid * 10 ** n).numerator // (mid * 10 ** n).denominator
                    for dlt in (-1, 0, 1, 2):
                        v = c + dlt
                        if 0 < v <= oracle.I128_MAX:
                            out.append('d:%d:%d' % (v, n))
                            out.append('d:%d:%d' % (-v, n))
    # Decimals with a coefficient below 2^53 (exact as f64, where a short cut through f64 arithmetic is
    # tempting) that are NOT an f32 midpoint but lie within half an f64 ulp of one: the f64 image is the
    # midpoint, and narrowing it to f32 rounds a second time (fixed pseudo-random significands, no seed)
    x = 0x9E3779B97F4A7C15
    for n in range(13, 19):
        found = 0
        tries = 0
        while found < 40 and tries < 4000:
            tries += 1
            x = (x * 6364136223846793005 + 1442695040888963407) % (1 << 64)
            M = (1 << 23) + (x >> 41)                      # 24-bit significand, the midpoint is (2M+1) * 2^(e-1)
            target = Fraction((1 << 51) + ((x >> 8) % (1 << 51)))      # wanted coefficient size
            mid0 = Fraction(2 * M + 1)
            e = 0
            while mid0 * 10 ** n * Fraction(2) ** e >= (1 << 53):
                e -= 1
            while mid0 * 10 ** n * Fraction(2) ** (e + 1) < target and mid0 * 10 ** n * Fraction(2) ** (e + 1) < (1 << 53):
                e += 1
            val = mid0 * 10 ** n * Fraction(2) ** e
            c = int(val + Fraction(1, 2))
            err = abs(val - c)
            if err == 0 or c >= (1 << 53) or err * (1 << 54) >= c:
                continue
            found += 1
            out.append('d:%d:%d' % (c, n))
            out.append('d:%d:%d' % (-c, n))
    return out


def canonical_text(c, n):
    """text of |c| * 10^-n as Display prints it"""
    t = str(abs(c))
    if n == 0:
        return t
    t = t.rjust(n + 1, '0')
    return t[:-n] + '.' + t[-n:]


def gcd_worst_case_decimals():
    """coefficients on which a binary (Stein) gcd against 5^n takes the most subtract-and-shift steps: built
    backwards, v_k = 2 * v_(k+1) + 5^n, so that every step removes exactly one bit"""
    out = []
    for n in range(1, 19):
        w = 5 ** n
        for start in (1, 3, 7, 11, 13, w, w + 2, 3 * w, 5 * w + 4):
            v = start | 1
            seq = []
            while 2 * v + w <= oracle.I128_MAX:
                v = 2 * v + w
                seq.append(v)
            for c in seq[-3:]:
                for mult in (1, 2, 4):
                    if c * mult <= oracle.I128_MAX:
                        out.append('d:%d:%d' % (c * mult, n))
                        out.append('d:%d:%d' % (-c * mult, n))
    return out


def aligned_pairs(lk, rk, rng):
    """operand pairs whose alignment to the larger scale lands on / next to the i128 boundary or a power of ten
    (the region where a wrong bound in a scaling helper shows)"""
    mx = oracle.I128_MAX
    out = []

    def enc(kind, c, n):
        if kind == 'd':
            return 'd:%d:%d' % (c, n)
        if n != 0:
            return None
        lo, hi = oracle.INT_RANGES[kind]
        if kind == 'i128':
            lo += 1
        return '%s:%d' % (kind, c) if lo <= c <= hi else None
    for k in (1, 2, 5, 9, 17, 18):
        for s in sorted(set((0, 18 - k))):
            p = 10 ** k
            coarse = [10 ** (38 - k), 10 ** (38 - k) - 1, 12 * 10 ** (37 - k), 15 * 10 ** (37 - k), 17 * 10 ** (37 - k), mx // p, mx // p + 1,
                      2 * 10 ** (38 - k), 10 ** (37 - k), 10 ** (37 - k) + 3,
                      5 * 10 ** (38 - k), 9 * 10 ** (38 - k), (2 ** 128) // p, (2 ** 128) // p + 1, 34 * 10 ** (37 - k), 35 * 10 ** (37 - k)]
            for c in coarse:
                fine = [1, 0, 7, 10 ** 37, 15 * 10 ** 37, 12 * 10 ** 37, mx, mx - 1, 10 ** 38, 10 ** 38 + 7]
                if c * p <= mx:
                    fine += [c * p, c * p - 1, c * p - 7] + ([c * p + 1, c * p + 7] if c * p + 7 <= mx else [])
                for sg in (1, -1):
                    for f in fine:
                        for sf in (1, -1):
                            a, b = enc(lk, sg * c, s), enc(rk, sf * f, s + k)
                            if a and b:
                                out.append((a, b))
                            a, b = enc(lk, sf * f, s + k), enc(rk, sg * c, s)
                            if a and b:
                                out.append((a, b))
    # 64-bit-sized coefficients against small divisors / addends with a few more fractional digits (a fast path that
    # treats "fits into 64 bits" as "cannot overflow when scaled")
    for k in (1, 2, 3):
        for c in (2 ** 64 - 1, 2 ** 64 - 17, 17014118346046923174, 18 * 10 ** 18, 2 ** 63, 2 ** 63 - 1, 92233720368547758):
            for f in (25, 3, 7, 15, 125, 1):
                for sg in (1, -1):
                    a, b = enc(lk, sg * c, 0), enc(rk, f, k)
                    if a and b:
                        out.append((a, b))
                    a, b = enc(lk, f, k), enc(rk, sg * c, 0)
                    if a and b:
                        out.append((a, b))
    rng.shuffle(out)
    # divisors just above / below a power of ten or half of one (normalised divisors with an extreme low word) against
    # dividends that are an end of a primitive integer range times a power of ten: always tried first, unshuffled
    first = []
    for k in (20, 25, 30, 31, 32, 33, 36, 37):
        for dv in (10 ** k + 1, 5 * 10 ** k + 1, 10 ** k - 1):
            for sdv in (17, 18):
                for c in (2 ** 63, 2 ** 64, 2 ** 63 - 1):
                    for n in (0, 1, 2, 18):
                        if c * 10 ** n > mx:
                            continue
                        for sg, sf in ((1, 1), (-1, 1), (1, -1)):
                            a, b = enc(lk, sg * c * 10 ** n, n), enc(rk, sf * dv, sdv)
                            if a and b:
                                first.append((a, b))
    return first[:1500] + out


def operands(kind, rng, budget):
    if kind == 'd':
        cs = coeff_pool(rng)
        scales = [0, 1, 2, 3, 5, 9, 17, 18]
        out = []
        for c in cs:
            for n in rng.sample(scales, 3):
                out.append('d:%d:%d' % (c, n))
        rng.shuffle(out)
        # keep the classic small cases first
        head = ['d:%d:%d' % (c, n) for c in (0, 1, -1, 5, -5, 10, 101, -101, 15, 25, 505, 100, oracle.I128_MAX, -oracle.I128_MAX)
                for n in (0, 1, 2, 18)]
        # bounds of the primitive integer types (and their neighbours) in several representations
        for b in (8, 16, 32, 64):
            for v in (2 ** (b - 1) - 1, -2 ** (b - 1), 2 ** (b - 1), -2 ** (b - 1) - 1, 2 ** b - 1, 2 ** b, 2 ** b + 17):
                for n in (0, 1, 2, 18):
                    if abs(v) * 10 ** n <= oracle.I128_MAX:
                        head.append('d:%d:%d' % (v * 10 ** n, n))
                        if n:
                            head.append('d:%d:%d' % (v * 10 ** n + (5 if v > 0 else -5) * 10 ** (n - 1), n))
        return (head + out)[:max(budget, len(head) + 200)]
    if kind in oracle.INT_RANGES:
        lo, hi = oracle.INT_RANGES[kind]
        if kind == 'i128':
            lo += 1
        vals = {0, 1, 2, 3, 5, 7, 10, 100, hi, hi - 1, hi // 2, hi // 10}
        if lo < 0:
            vals |= {-1, -2, -3, -5, -10, lo, lo + 1, lo // 2}
        for _ in range(10):
            vals.add(rng.randint(lo, hi))
        return ['%s:%d' % (kind, v) for v in sorted(vals) if lo <= v <= hi]
    if kind == 's':
        lits = ['', '0', '1', '-1', '+1', '1.5', '-0.5', '.5', '5.', '0.', '+.', '.', 'e5', '1e5', '1E-5', '1e+', '1e-', '2.5e-', '1e003',
                '0e5', '0e0', '0.0e0', '00012', '1.50', '-0', '1_000', ' 1', '1 ', ' ', '12.5\n', '\t.5 ', '7\u00a0', ' -3e2', '1..2', '1.2.3', '--1', '1e1.5', 'abc', '1a',
                '0.000000000000000000000000000000000000001e25', '1e-18', '1e-19', '0.1234567890123456789', '0.123456789012345678',
                '1e38', '1e39', '170141183460469231731687303715884105727', '170141183460469231731687303715884105728',
                '-170141183460469231731687303715884105727', '-170141183460469231731687303715884105728',
                '340282366920938463463374607431768211456', '440282366920938463463374607431768211456',
                '340282366920938463463374607431768211455', '100000000000000000000000000000000000000',
                '99999999999999999999999999999999999999', '1' + '0' * 60, '9' * 80, '0.' + '0' * 17 + '1', '0.' + '0' * 18 + '1',
                '17014118346046923173168730371588410572.7', '1.70141183460469231731687303715884105727e38',
                '1e99999999999999999999', '1e-99999999999999999999', '0e99999999999999999999',
                '1.5e-99999999999999999999', '.5e-99999999999999999999', '0.00e-9223372036854775807', '1.5e-9223372036854775808',
                '1.5e9223372036854775807', '15e-18446744073709551616', '1.5e-18446744073709551617', '0.1e-9223372036854775790',
                '1.5e-170141183460469231731687303715884105728', '2.50e-340282366920938463463374607431768211456', '1.5e1', '15e-1', '١', '1é']
        mx_ = oracle.I128_MAX
        # zero coefficients with exponents that are small modulo 2^64 / 2^63 (a range check skipped for zero)
        lits += ['0e-18446744073709551621', '-0.000e-18446744073709551631', '0e-36893488147419103232', '0e-18446744073709551616',
                 '0.0e-18446744073709551617', '0e-9223372036854775813', '0e18446744073709551621', '0.00e-18446744073709551616']
        # the ends of the coefficient range in every canonical representation (what to_string prints), and
        # the same values written with an exponent
        for v in (mx_, mx_ - 1, mx_ - 5, mx_ + 1, 10 ** 38, 10 ** 38 - 1, mx_ - mx_ % 10 ** 8, mx_ - mx_ % 10 ** 8 - 1):
            for n in range(0, 19):
                t = canonical_text(v, n)
                lits.append(t)
                lits.append('-' + t)
        for k in (1, 2, 3, 9, 18):
            for v in (mx_ // 10 ** k, mx_ // 10 ** k + 1, mx_ // 10 ** k - 1):
                lits += ['%de%d' % (v, k), '-%de%d' % (v, k), '%d.%de%d' % (v // 10, v % 10, k + 1)]
        # machine-word boundaries of the coefficient (a narrower accumulator, a digit-count limit off by one,
        # the 8-digit chunks of the SWAR path) in canonical representations of several scales
        for b in (31, 32, 53, 63, 64, 65, 96, 126):
            for dv in (-1, 0, 1, 2 ** (b - 2) + 12345):
                for n in (0, 1, 9, 18):
                    t = canonical_text(2 ** b + dv, n)
                    lits += [t, '-' + t]
        for k in (7, 8, 9, 15, 16, 17, 19, 20, 21, 24):
            for v in (10 ** k - 1, 10 ** k, 2 * 10 ** k, 10 ** k + 10 ** (k // 2)):
                lits += [str(v), '-' + canonical_text(v, 3)]
        for _ in range(60):
            k = rng.choice([1, 5, 8, 9, 16, 17, 18, 19, 20, 21, 24, 37, 38, 39, 40, 41, 77])
            ds = ''.join(rng.choice('0123456789') for _ in range(k))
            if rng.random() < 0.5 and k > 1:
                p = rng.randint(0, k)
                ds = ds[:p] + '.' + ds[p:]
            if rng.random() < 0.3:
                ds += 'e' + rng.choice(['', '+', '-']) + str(rng.randint(0, 40))
            lits.append(rng.choice(['', '-', '+']) + ds)
        return ['s:' + x.encode('utf-8').hex() for x in lits]
    if kind == 'f64':
        import struct
        vals = [0.0, -0.0, 1.0, -1.0, 0.1, 0.5, 1e-18, 5e-19, 4.9e-19, 1.5, 2.5, 1e15, 1e22, 1.7e38, 1.8e38, 1e300, 5e-324,
                float('inf'), float('-inf'), float('nan'), 123456.789, -2.0 ** 127, 2.0 ** 127, 2.0 ** -70, 3 * 2.0 ** -19]
        bits = [struct.unpack('<Q', struct.pack('<d', v))[0] for v in vals]
        for k in (19, 20, 21, 22, 30, 60, 61, 62, 63):
            for m in (1, 3, 5, 7, 2 ** 19 + 1, 2 ** 19 + 3, 2 ** 25 + 5, 2 ** 40 + 7):
                for sgn in (1.0, -1.0):
                    bits.append(struct.unpack('<Q', struct.pack('<d', sgn * m / 2.0 ** k))[0])
        for v in (6e-19, -7e-19, 5.0000000000000001e-19, 4.9999999999999999e-19, 8.6e-19, 1.5e-18, 2.5e-18):
            bits.append(struct.unpack('<Q', struct.pack('<d', v))[0])
        # every binary exponent from the subnormal boundary of the 18-digit range up to beyond the i128 range
        # (a wrong shift bound shows only in one binade)
        for e in range(1023 - 75, 1023 + 260):
            for frac in (0, 1, (1 << 51), (1 << 52) - 1):
                bits.append((e << 52) | frac)
                bits.append((1 << 63) | (e << 52) | frac)
        for _ in range(60):
            bits.append(rng.getrandbits(64))
            e = rng.randint(1023 - 70, 1023 + 130)
            bits.append((rng.getrandbits(1) << 63) | (e << 52) | rng.getrandbits(52))
        return ['f64:%d' % b for b in bits]
    if kind == 'f32':
        import struct
        bits = [0, 1 << 31, 0x3f800000, 0x7f800000, 0xff800000, 0x7fc00000, 0xff000000, 0x7f000000, 1]
        for k in (19, 20, 21, 22):
            for m in (1, 3, 5, 7, 2 ** 19 + 1, 2 ** 20 + 3):
                for sgn in (1.0, -1.0):
                    bits.append(struct.unpack('<I', struct.pack('<f', sgn * m / 2.0 ** k))[0])
        for e in range(127 - 75, 255):
            for frac in (0, 1, (1 << 22), (1 << 23) - 1):
                bits.append((e << 23) | frac)
                bits.append((1 << 31) | (e << 23) | frac)
        for _ in range(60):
            bits.append(rng.getrandbits(32))
        return ['f32:%d' % b for b in bits]
    if kind == 't':
        return ['s:' + t.encode().hex() for t in list(oracle.INT_RANGES)]
    return ['-']


_DRIVER = {}


def driver(profile='dev'):
    if profile not in _DRIVER:
        if profile == 'rkyv':
            _DRIVER[profile] = build_driver.build('dev', features=('rkyv',))
        elif profile == 'serde':
            _DRIVER[profile] = build_driver.build('dev', features=('serde',))
        elif profile == 'numtraits':
            _DRIVER[profile] = build_driver.build('dev', features=('numtraits',))
        else:
            _DRIVER[profile] = build_driver.build(profile)
    return _DRIVER[profile]


def _is_extreme(x):
    """operand text -> is it one of 0, +-1, +-2 or an end of a primitive integer range (in any scale)?"""
    f = x.split(':')
    try:
        v = int(f[1])
    except Exception:
        return False
    if abs(v) <= 2:
        return True
    a = abs(v)
    if a in (10, 20, 30, 70):
        return True
    return any(0 <= (2 ** (b - 1) - 1) - a <= 12 or a in (2 ** (b - 1), 2 ** b - 1) for b in (8, 16, 32, 64, 128))


def run_batch(lines, profile='dev', _depth=0):
    """one output line per input line.  A call of the real crate that does not return (a changed loop that no
    longer terminates) is reported as the outcome `HANG` for that line; the rest of the batch is run in a fresh
    driver process (at most three hangs per batch, then `SKIPPED`)."""
    if not lines:
        return []
    limit = 30 + len(lines) / 2000.0
    try:
        p = subprocess.run([driver(profile)], input='\n'.join(lines) + '\n', stdout=subprocess.PIPE, stderr=subprocess.DEVNULL,
                           text=True, timeout=limit)
        return p.stdout.splitlines()
    except subprocess.TimeoutExpired as ex:
        got = ex.stdout or ''
        if isinstance(got, bytes):
            got = got.decode('utf-8', 'replace')
        done = got.split('\n')[:-1] if not got.endswith('\n') else got.splitlines()
        k = len(done)
        out = done + ['HANG']
        rest = lines[k + 1:]
        if _depth >= 2:
            return out + ['SKIPPED'] * len(rest)
        return out + run_batch(rest, profile, _depth + 1)


ROUNDING_OPS = ('mul', 'div', 'div_rounded', 'mul_rounded', 'round', 'checked_round', 'format', 'mul_assign', 'div_assign',
                'checked_div', 'quantize')


def search(pid, r, d, key, tier, seed, profile_pair=None, budget=None):
    if (key.get('fn') or '') == 'Dec' or (key.get('fn') or '').endswith('::Dec'):
        import dec_grid
        w = dec_grid.run()
        if w:
            return w
    return _search(pid, r, d, key, tier, seed, profile_pair, budget)


def _search(pid, r, d, key, tier, seed, profile_pair=None, budget=None, combos=None):
    """returns a dict describing the failing input, or None.  The sampled part of the search is repeated with
    further random streams while the budget lasts (which sample exposes a fault must not hinge on one stream)."""
    deadline = time.time() + (budget or (300 if tier == 'thorough' else 25))
    if combos is None:
        combos = ops_for(key.get('fn'))
    for attempt in range(4):
        if attempt and time.time() > deadline:
            break
        w = _search_once(random.Random((seed or 12345) + 7919 * attempt), deadline, combos, profile_pair, attempt)
        if w:
            return w
    return None


def _search_once(rng, deadline, combos, profile_pair, attempt=0):
    for op, lks, rks in combos:
        for lk in lks:
            for rk in (rks or (None,)):
                if time.time() > deadline:
                    return None
                ls = operands(lk, rng, 400 if rk else 4000)
                rs = operands(rk, rng, 60) if rk else ['-']
                if op in ('into_f32', 'into_f64'):
                    ls = float_mid_decimals() + ls
                if op in ('ratio', 'numerator', 'denominator', 'hash_is_ratio_hash'):
                    ls = gcd_worst_case_decimals() + ls
                # the thread default rounding mode is an input of every operation (a result that must not
                # depend on it is compared under the default and under one other mode)
                modes = oracle.MODES if (op in ROUNDING_OPS or (op[-3:] in ('_rr', '_rv', '_vr') and op[:-3] in ROUNDING_OPS)) else ['RoundHalfEven', rng.choice([m_ for m_ in oracle.MODES if m_ != 'RoundHalfEven'])]
                pairs = []
                pairs_all = []
                if rk and (lk == 'd' or lk in oracle.INT_RANGES) and (rk == 'd' or rk in oracle.INT_RANGES) and 'd' in (lk, rk):
                    pairs_all = aligned_pairs(lk, rk, rng)
                    pairs = pairs_all[3000 * attempt:3000 * (attempt + 1)]     # another slice in every pass
                ns = [0]
                if op in ('div_rounded', 'mul_rounded'):
                    ns = [0, 1, 2, 5, 17, 18, 19, 32, 255]
                if op == 'nt_from_str_radix':
                    ns = [10, 10, 2, 16, 36, 0]
                if op in ('round', 'checked_round'):
                    ns = [-128, -40, -39, -38, -22, -21, -20, -3, -1, 0, 1, 2, 5, 17, 18, 19, 127]
                precs = ['-']
                if op == 'format':
                    precs = ['-', '0', '1', '2', '5', '17', '18', '19', '40']
                lines = []
                metas = []
                for l, rr in pairs:
                    n = ns[0] if len(ns) == 1 else rng.choice(ns)
                    m = 'RoundHalfEven' if len(modes) <= 2 else rng.choice(modes)
                    lines.append('\t'.join([op, l, rr, str(n), m, precs[0]]))
                    metas.append((op, l, rr, n, m, precs[0]))
                # the extreme values of both sides are crossed exhaustively (not sampled): differences of one unit
                # at the ends of the coefficient range need one specific partner
                if rk:
                    ext_l = [x for x in ls if _is_extreme(x)][:90]
                    ext_r = [x for x in rs if _is_extreme(x)][:90]
                    for l in ext_l:
                        for rr in ext_r:
                            n = ns[0] if len(ns) == 1 else rng.choice(ns)
                            m = 'RoundHalfEven' if len(modes) <= 2 else rng.choice(modes)
                            lines.append('\t'.join([op, l, rr, str(n), m, precs[0]]))
                            metas.append((op, l, rr, n, m, precs[0]))
                for l in ls:
                    for rr in rng.sample(rs, min(len(rs), 12)):
                        for n in (ns if len(ns) <= 3 else rng.sample(ns, 4)):
                            for m in (modes if len(modes) <= 2 else rng.sample(modes, 3)):
                                for pr in (precs if len(precs) == 1 else rng.sample(precs, 3)):
                                    lines.append('\t'.join([op, l, rr, str(n), m, pr]))
                                    metas.append((op, l, rr, n, m, pr))
                    if len(lines) > 60000:
                        break
                w = compare(lines, metas, profile_pair)
                if w:
                    return w
    return None


def compare(lines, metas, profile_pair=None):
    if profile_pair:
        a = run_batch(lines, profile_pair[0])
        b = run_batch(lines, profile_pair[1])
        for (op, l, rr, n, m, pr), ga, gb in zip(metas, a, b):
            if ga != gb:
                return {'op': op, 'lhs': l, 'rhs': rr, 'n': n, 'mode': m, 'prec': pr,
                        'expected': 'same outcome in both profiles', 'got': '%s: %s / %s: %s' % (profile_pair[0], ga, profile_pair[1], gb),
                        'profiles': list(profile_pair)}
        return None
    outs = run_batch(lines, 'rkyv' if (metas and metas[0][0].startswith('rkyv_')) else 'serde' if (metas and metas[0][0].startswith('serde_')) else 'numtraits' if (metas and metas[0][0].startswith('nt_')) else 'dev')
    for (op, l, rr, n, m, pr), got in zip(metas, outs):
        if got in ('BADARG', 'BADOP', 'SKIPPED'):
            continue
        try:
            lo = oracle.Operand(l) if l != '-' else None
            ro = oracle.Operand(rr) if rr != '-' else None
            ex = oracle.expect(op, lo, ro, n, m, None if pr == '-' else int(pr))
        except Exception:
            continue
        if ex is None:
            continue
        if not ex.ok(got):
            return {'op': op, 'lhs': l, 'rhs': rr, 'n': n, 'mode': m, 'prec': pr, 'expected': ex.desc, 'got': got}
    return None


def replay(rec):
    w = rec['input']
    if w.get('op') == 'dec_macro_grid':
        import dec_grid
        again = dec_grid.run()
        if again:
            print('REPRODUCED on the real crate: %s' % again)
            return 1
        print('the Dec! grid agrees with from_str on the current tree')
        return 0
    line = '\t'.join([w['op'], w['lhs'], w['rhs'], str(w['n']), w['mode'], str(w.get('prec', '-'))])
    meta = [(w['op'], w['lhs'], w['rhs'], w['n'], w['mode'], str(w.get('prec', '-')))]
    again = compare([line], meta, tuple(w['profiles']) if w.get('profiles') else None)
    if again:
        print('REPRODUCED on the real crate: %s' % again)
        return 1
    print('input no longer fails on the current tree: %s' % w)
    return 0
