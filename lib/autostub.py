"""Contract library for calls that a changed body introduces.

When the verifier front end rejects a unit with "cannot find function `X`" and X is a function of the
repository whose contract is proved in some home unit, the unit is rebuilt with X added as an external_body
stub carrying exactly that proved contract, and the home unit becomes part of the check (modular closure).
The changed caller is then verified against the callee's contract like any other call.  Functions without a
proved contract (e.g. a helper the change itself introduces) are not handled here: the unit stays undecided
and only the bounded differential fallback can still turn the run into a violation."""
import re


def _core(key):
    def add(u):
        import core_kernel
        core_kernel.add_core_items(u, skip_existing=True)
    return add


def _magnitude(u):
    import magnitude
    magnitude.add_magnitude_items(u)


def _wide(key):
    def add(u):
        import wide
        c = wide.contracts()[key]
        c.stub = True
        c.entry = None
        u.fn('core', key, c)
    return add


# short name -> (key, adder, home unit, spec files the contract's vocabulary lives in)
AUTO = {
    'ten_pow': ('powers_of_ten::ten_pow', _core('powers_of_ten::ten_pow'), 'core_kernel', ['base.rs', 'rounding.rs']),
    'checked_ten_pow': ('powers_of_ten::checked_ten_pow', _core('powers_of_ten::checked_ten_pow'), 'core_kernel', ['base.rs', 'rounding.rs']),
    'mul_pow_ten': ('powers_of_ten::mul_pow_ten', _core('powers_of_ten::mul_pow_ten'), 'core_kernel', ['base.rs', 'rounding.rs']),
    'checked_mul_pow_ten': ('powers_of_ten::checked_mul_pow_ten', _core('powers_of_ten::checked_mul_pow_ten'), 'core_kernel', ['base.rs', 'rounding.rs']),
    'adjust_coeffs': ('adjust_coeffs', _core('adjust_coeffs'), 'core_kernel', ['base.rs', 'rounding.rs']),
    'checked_adjust_coeffs': ('checked_adjust_coeffs', _core('checked_adjust_coeffs'), 'core_kernel', ['base.rs', 'rounding.rs']),
    'i128_div_mod_floor': ('i128_div_mod_floor', _core('i128_div_mod_floor'), 'core_kernel', ['base.rs', 'rounding.rs']),
    'round_quot': ('rounding::round_quot', _core('rounding::round_quot'), 'core_kernel', ['base.rs', 'rounding.rs']),
    'i128_div_rounded': ('rounding::i128_div_rounded', _core('rounding::i128_div_rounded'), 'core_kernel', ['base.rs', 'rounding.rs']),
    'i128_magnitude': ('i128_magnitude', _magnitude, 'magnitude', ['base.rs', 'std_assumed.rs']),
    'i128_shifted_div_mod_floor': ('i128_shifted_div_mod_floor', _wide('i128_shifted_div_mod_floor'), 'wide', ['base.rs', 'rounding.rs']),
    'i256_div_mod_floor': ('i256_div_mod_floor', _wide('i256_div_mod_floor'), 'wide', ['base.rs', 'rounding.rs']),
}


def missing_functions(frontend_error):
    """names the front end could not resolve: functions, and constants (`cannot find value `NAME``)"""
    fe = frontend_error or ''
    return sorted(set(re.findall(r'cannot find function `(\w+)`', fe)) | set(re.findall(r'cannot find value `([A-Z][A-Z0-9_]*)`', fe)))


def _find_const(name, sources):
    hits = []
    for src, idx in sources.items():
        for k, it in idx.items():
            if isinstance(it, list):
                continue
            if getattr(it, 'kind', None) == 'const' and (k == 'const ' + name or k.endswith('::const ' + name)):
                hits.append((src, k))
    return hits[0] if len(hits) == 1 else None


def _const_entry(unit, src, key):
    n = len(unit.entries)
    unit.item(src, key)
    return unit.entries.pop(n)


def extend(unit, names, sources=None):
    """adds the stubs for `names` to `unit`; returns the list of home units, or None if a name is unknown.
    Names without a proved contract are inlined if they are inlineable private helpers (lib/inline.py, R18)."""
    homes = []
    for n in names:
        if n not in AUTO:
            if sources is None:
                return None
            if re.match(r'^[A-Z][A-Z0-9_]*$', n):
                # a constant the changed code introduces or newly uses: emitted as it is (a constant has no contract)
                hit = _find_const(n, sources)
                if hit is None:
                    return None
                if not any(getattr(e, 'key', None) == hit[1] for e in unit.entries):
                    unit.entries.insert(0, _const_entry(unit, hit[0], hit[1]))
                continue
            import inline
            import vgen
            it = inline.find_helper(n, sources)
            if it is None:
                return None
            try:
                hn, hp, hb = inline.plan(it, vgen.strip_attrs_and_comments)
            except inline.NotInlineable:
                return None
            if not hasattr(unit, 'inline_helpers'):
                unit.inline_helpers = []
            if not any(h[0] == hn for h in unit.inline_helpers):
                unit.inline_helpers.append((hn, hp, hb))
            continue
        key, add, home, specs = AUTO[n]
        if key in unit.fn_contracts:
            if home in homes:
                continue      # added together with an earlier name of the same home (core items)
            return None
        for sp in specs:
            if sp not in unit.specs:
                unit.specs.append(sp)
        add(unit)
        if home not in homes:
            homes.append(home)
    return homes
