"""Rule R9: the proc-macro shell of `Dec!` (fpdec-macros).

`proc_macro::TokenStream` and `quote!` are compiler API and cannot be executed or specified in
Verus.  The rule replaces, by exact pattern, (1) the token-stream parameter / result types by
stand-ins, (2) the three statements that turn the token stream into the literal's source text
(`input.to_string()` + removal of the blank rustc puts after a sign) by a call of the stub
`r9_literal_text(&input)`, and (3) the `quote!(Decimal::new_raw(#coeff, #n_frac_digits))` expansion
by `r9_emit(coeff, n_frac_digits)`.  Everything between (2) and (3) - the exponent folding that the
property compares with `from_str` - stays the real code.  Any other shape raises AnchorLost."""
import re
from rsx import AnchorLost, ws_norm


def transform(text):
    t = text
    sig = 'pub fn Dec(input: TokenStream) -> TokenStream'
    if sig not in ws_norm(t):
        raise AnchorLost('R9: signature of Dec changed')
    t = re.sub(r'pub fn Dec\(input:\s*TokenStream\)\s*->\s*TokenStream', 'pub fn Dec(input: R9TokenStream) -> R9Emitted', t)
    head = re.compile(r'let mut src = input\.to_string\(\);\s*(//[^\n]*\n\s*)*'
                      r'if src\.starts_with\("- "\) \|\| src\.starts_with\("\+ "\) \{\s*src\.remove\(1\);\s*\}')
    if len(head.findall(t)) != 1:
        raise AnchorLost('R9: literal-text extraction of Dec changed')
    t = head.sub('let src = r9_literal_text(&input);', t)
    if t.count('str_to_dec(&src)') != 1:
        raise AnchorLost('R9: call of str_to_dec changed')
    t = t.replace('str_to_dec(&src)', 'str_to_dec(src.as_str())')
    # quote! expansion
    i = t.find('let mut _s = ::quote::__private::TokenStream::new();')
    if i < 0:
        raise AnchorLost('R9: quote! expansion not found')
    start = t.rfind('{', 0, i)
    end = t.find('}.into()', i)
    if start < 0 or end < 0:
        raise AnchorLost('R9: quote! block shape changed')
    block = t[start:end + len('}.into()')]
    idents = re.findall(r'push_ident\(&mut _s, "(\w+)"\)', block)
    args = re.findall(r'ToTokens::to_tokens\(&(\w+), &mut _s\)', block)
    if idents != ['Decimal', 'new_raw'] or len(args) != 2 or 'push_colon2' not in block or 'Parenthesis' not in block \
            or block.count('push_comma') != 1:
        raise AnchorLost('R9: emitted token sequence is not Decimal::new_raw(<a>, <b>): %s %s' % (idents, args))
    t = t[:start] + 'r9_emit(%s, %s)' % (args[0], args[1]) + t[end + len('}.into()'):]
    return t


STUBS = '''
// ---- R9 stand-ins for the proc-macro shell
pub struct R9TokenStream { pub id: u8 }

/// the literal's source text as the macro sees it after joining a leading sign (uninterpreted:
/// what rustc's TokenStream::to_string renders is outside any contract - listed assumption)
pub uninterp spec fn r9_text(t: R9TokenStream) -> Seq<char>;

#[verifier::external_body]
pub fn r9_literal_text(t: &R9TokenStream) -> (s: String)
    ensures s@ == r9_text(*t),
{ unimplemented!() }

/// the constant expression `Decimal::new_raw(coeff, n_frac_digits)` the macro expands to
pub struct R9Emitted { pub coeff: i128, pub n_frac_digits: u8 }

pub fn r9_emit(coeff: i128, n_frac_digits: u8) -> (r: R9Emitted)
    ensures r.coeff == coeff, r.n_frac_digits == n_frac_digits,
{ R9Emitted { coeff, n_frac_digits } }

pub proof fn lemma_pow_is_pow10(k: nat)
    ensures vstd::arithmetic::power::pow(10, k) == pow10(k)
    decreases k
{
    reveal(vstd::arithmetic::power::pow);
    if k > 0 { lemma_pow_is_pow10((k - 1) as nat); }
}

pub assume_specification [i128::pow](x: i128, e: u32) -> (r: i128)
    requires i128::MIN <= vstd::arithmetic::power::pow(x as int, e as nat) <= i128::MAX
    ensures r == vstd::arithmetic::power::pow(x as int, e as nat);
'''
