"""Regenerates MANIFEST.json from lib/props.py (static text only; nothing measured lives here)."""
import json
import os
import sys

VERIF = os.path.dirname(os.path.dirname(os.path.abspath(__file__)))
sys.path.insert(0, os.path.join(VERIF, 'lib'))
import props  # noqa

NA = {
    'C19': 'quantifies over interleavings of OS threads and the semantics of thread_local!/RefCell; neither Verus nor Kani models threads or thread-local storage, so no contract can state it (DESIGN.md section 11)',
}


def main():
    all_ids = [json.loads(l)['id'] for l in open(os.path.join(VERIF, 'properties.jsonl'))]
    checks = []
    for pid in all_ids:
        if pid not in props.PROPS:
            continue
        p = props.PROPS[pid]
        checks.append({
            'property_id': pid,
            'quick_cmd': 'bin/check %s --tier quick' % pid,
            'thorough_cmd': 'bin/check %s --tier thorough' % pid,
            'evidence_file': 'evidence/%s.json' % pid,
            'replay_cmd_template': 'bin/check %s --replay {path}' % pid,
            'engine': 'verus',
            'level_claimed': {
                'category': p.get('level', 'proof'),
                'text': p.get('level_text', 'Every obligation generated from the contracts woven into the real (macro-expanded) functions is discharged by Verus for all inputs; F-run: representable result => no panic and exact value; D-run: if the call returns, the result was representable and exact.'),
                'design_ref': p.get('design_ref', 'DESIGN.md section 7'),
            },
            'level_note': p.get('level_note', 'Trusted: Verus/Z3, rustc macro expansion, extraction rules of DESIGN.md section 3 (R1-R62), assume_specification entries for std methods (listed in evidence), inputs satisfy valid().'),
            'technique': p.get('technique', 'contract-based deductive verification (Verus) of the macro-expanded real code, contracts woven mechanically'),
        })
    na = []
    for pid in all_ids:
        if pid in props.PROPS:
            continue
        na.append({'property_id': pid, 'reason': NA.get(pid, 'contracts for this property are not built yet (work in progress); no check is claimed')})
    m = {
        'version': 1,
        'setup_cmd': 'bin/setup',
        'hooks': {
            'guard': 'mamrhein_fpdec_rs_verif',
            'enable': 'none: no hooks were needed in /repo; private functions are reached through rustc macro expansion',
            'baseline_off_cmd': 'cd /repo && cargo test --workspace --no-fail-fast --offline',
            'source_commits': [],
            'add_only': True,
        },
        'engines': [{'name': 'verus', 'path': 'bin/check', 'serves_properties': [c['property_id'] for c in checks],
                     'kind_free_text': 'deductive program verifier (Verus 0.2026.09.13, Z3) on contracts woven into the expanded source of /repo'}],
        'checks': checks,
        'notes': 'see DESIGN.md; known_findings.jsonl lists genuine defects (fixed ones are recorded, suppress nothing)',
        'not_applicable': na,
    }
    json.dump(m, open(os.path.join(VERIF, 'MANIFEST.json'), 'w'), indent=1)


if __name__ == '__main__':
    main()
